#!/bin/bash
# Offline setup: parse every specification and import-check the harness against /repo/src.
set -e
cd "$(dirname "$0")"
for f in spec/*.tla; do
  case "$f" in *Trace.tla) continue;; esac
  # wrappers that use Apalache's own module (Gen) are parsed by apalache-mc in their check, SANY has no such module
  if grep -q "^EXTENDS.*Apalache" "$f"; then continue; fi
  ( cd spec && java -cp /opt/veriftools/tla/tla2tools.jar:/opt/veriftools/tla/CommunityModules-deps.jar tla2sany.SANY "$(basename "$f")" > /tmp/sany.$$ 2>&1 ) || { cat /tmp/sany.$$; rm -f /tmp/sany.$$; exit 1; }
  if grep -qE "Semantic errors|Parse Error|Fatal errors" /tmp/sany.$$; then cat /tmp/sany.$$; rm -f /tmp/sany.$$; exit 1; fi
  rm -f /tmp/sany.$$
done
PYTHONPATH=/repo/src:. /venv/bin/python -W ignore -c "import harness.check, harness.tlc, harness.cascade_engine, harness.shm_engine, harness.drive.shm, harness.drive.acked, harness.p3, harness.drive.gateway, harness.drive.transfer, harness.drive.worker, harness.drive.session; import cascade.controller.impl"
echo "setup ok"
