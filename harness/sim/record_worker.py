"""Subprocess entry: record executions of the real controller for one model instance.

usage: python -m harness.sim.record_worker <instance.pickle> <out.json> <seed0> <n> [none_task,...]
Runs under its own PYTHONHASHSEED (the scheduler iterates over sets, so the hash seed selects tie-breaks).
"""
from __future__ import annotations

import json
import logging
import pickle
import sys
import warnings

warnings.filterwarnings("ignore")
logging.disable(logging.CRITICAL)


def main() -> int:
    from cascade.scheduler.graph import precompute

    from .simbridge import comp_names, make_env, mkjob, record, sequential

    inst = pickle.load(open(sys.argv[1], "rb"))
    out, seed0, n = sys.argv[2], int(sys.argv[3]), int(sys.argv[4])
    variant = sys.argv[5] if len(sys.argv) > 5 else ""
    # "2nd+<variant>": the recorded job is the SECOND job of this process; a first job with the same task names but the plain
    # bodies is run to its end before (whatever the library keeps between jobs must not leak into the second one)
    second = variant.startswith("2nd+")
    variant = variant[4:] if second else variant
    none_tasks = frozenset(variant.split(",")) if variant else frozenset()
    env = make_env(inst)
    from ..common import CaseTimeout, guarded
    if second:
        first = mkjob(inst, frozenset())
        try:
            record(inst, first, env, guarded(lambda: precompute(first), 20.0), seed0, sequential(inst, frozenset()))
        except (Exception, CaseTimeout):
            pass        # (a failing pre-computation shows in the recorded job below)
    job = mkjob(inst, none_tasks)
    from ..common import CaseTimeout, guarded
    try:
        pre = guarded(lambda: precompute(job), 20.0)
    except (Exception, CaseTimeout) as e:
        # the scheduler's pre-computation itself fails on this (well formed) job: the run never starts
        import traceback
        tb = traceback.extract_tb(e.__traceback__)
        site = next((f"{f.filename.split('/src/')[-1]}:{f.lineno}" for f in reversed(tb) if "/cascade/" in f.filename), "?")
        json.dump([[{"ev": "crash", "what": "precompute: " + repr(e)[:160], "site": site, "shutdown": False}]], open(out, "w"))
        json.dump({"comp_of": inst.components(), "complete": None, "n_orders": 0}, open(out + ".meta", "w"))
        return 0
    expected = sequential(inst, none_tasks)
    _, comp_of = comp_names(pre)
    traces = []
    exh_cap = int(sys.argv[6]) if len(sys.argv) > 6 else 0
    n_orders, complete = 0, None
    if exh_cap > 0:
        # every delivery order (executors run to quiescence between deliveries), capped
        from .simbridge import record_all_orders
        traces, complete = record_all_orders(inst, job, env, pre, expected, cap=exh_cap)
        n_orders = len(traces)
    for s in range(seed0, seed0 + n):
        # vary the amount of executor activity between controller steps and the batch size
        kw = {"max_exec_steps": (0, 1, 2, 4, 8)[s % 5], "max_batch": (1, 2, 3, 6)[(s // 5) % 4]}
        # every third execution is adversarial: one kind of executor step is starved (taken only when nothing else can happen),
        # which produces the orders in which a purge, a store or a transfer command lags far behind the controller
        if s % 3 == 2:
            kw["starve"] = (frozenset({"store"}), frozenset({"datacmd"}), frozenset({"hostdeliver"}), frozenset({"store", "datacmd"}))[(s // 3) % 4]
            kw["max_exec_steps"] = 8
        traces.append(record(inst, job, env, pre, s, expected, **kw))
    json.dump(traces, open(out, "w"))
    json.dump({"comp_of": comp_of, "complete": complete, "n_orders": n_orders}, open(out + ".meta", "w"))
    return 0


if __name__ == "__main__":
    sys.exit(main())
