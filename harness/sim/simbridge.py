"""Drive the REAL controller (cascade.controller.impl.run and everything below it) against a simulated
cluster that is a literal implementation of the executor actions of spec/Cascade.tla, recording one
event per spec action with a projection of scheduler.core.State at the linearisation points.

Task bodies run through the real runner (cascade.executor.runner.entrypoint.execute_sequence ->
runner.run -> Memory -> serde) over a dict-backed shm client per host; fetch payloads carry the real
serialised bytes and controller.notify deserialises them with the real serde.
"""
from __future__ import annotations

import collections
import random
import signal
import types
from typing import Any

import cascade.controller.impl as impl
import cascade.controller.report as REPORT
import cascade.executor.serde as SERDE
import cascade.executor.runner.entrypoint as EP
import cascade.executor.runner.memory as MEM
import cascade.scheduler.api as API
import cascade.scheduler.assign as ASSIGN
from cascade.executor.msg import (DatasetPublished, DatasetTransmitPayload, DatasetTransmitPayloadHeader, TaskFailure,
                                  TaskSequence)
from cascade.executor.runner.memory import Memory, ds2shmid
from cascade.executor.runner.packages import PackagesEnv
from cascade.low.core import (DatasetId, Environment, JobInstance, Task2TaskEdge, TaskDefinition, TaskInstance, Worker,
                              WorkerId)
from cascade.low.views import param_source
from cascade.scheduler.core import DatasetStatus, TaskStatus
from cascade.scheduler.graph import precompute

from ..cascade_model import Instance
from . import bodies


class Spin(Exception):
    pass


class Deadlock(Exception):
    pass


def _alarm(*a):
    raise Spin("alarm: run exceeded its time budget")


# ----------------------------------------------------------------------------------------------
# jobs
# ----------------------------------------------------------------------------------------------
def edge_binding(inst: Instance) -> dict[tuple[str, str, str], str | int]:
    """How each edge binds at its sink: alternately positional / keyword, deterministic per instance."""
    if inst.kw is not None:
        return inst.kw
    out: dict[tuple[str, str, str], str | int] = {}
    per_sink: dict[str, int] = collections.Counter()
    pos: dict[str, int] = collections.Counter()
    for e in sorted(set(inst.edges)):
        s, o, d = e
        k = per_sink[d]
        per_sink[d] += 1
        if k % 2 == 0:
            out[e] = pos[d]
            pos[d] += 1
        else:
            out[e] = f"k{k}"
    return out


def _body_of(t: str, none_tasks: frozenset[str]):
    """none_tasks entries: "a" -> task a returns None; "~a" -> task a returns falsy non-None values; "@a" -> a value of a type with
    a registered custom serde; "^a" -> a value of an unregistered SUBCLASS of that type"""
    if "&" + t in none_tasks:
        return bodies.tagged_body        # a second type with its own registered serde
    if "@" + t in none_tasks:
        return bodies.boxed_body
    if "^" + t in none_tasks:
        return bodies.boxed_more_body
    if t in none_tasks:
        return bodies.none_body
    if "~" + t in none_tasks:
        return bodies.falsy_body
    return bodies.body


def mkjob(inst: Instance, none_tasks: frozenset[str] = frozenset()) -> JobInstance:
    bind = edge_binding(inst)
    FB = TaskDefinition.func_enc(bodies.body)
    FN = TaskDefinition.func_enc(bodies.none_body)
    npos = collections.Counter()
    for (s, o, d), b in bind.items():
        if isinstance(b, int):
            npos[d] = max(npos[d], b + 1)
    tasks = {}
    for t, outs in inst.outs.items():
        # the schema is DECLARED in numeric order of the output names ("0", "1", ..., "10", "11"), as generators do; the runner
        # publishes and the controller completes in key-sorted order ("0", "1", "10", "11", "2", ...) = inst.outs[t]
        declared = sorted(outs, key=lambda o: (len(o), o))
        td = TaskDefinition(func=TaskDefinition.func_enc(_body_of(t, none_tasks)), environment=[], input_schema={},
                            output_schema={o: "Any" for o in declared}, needs_gpu=t in inst.gpu_tasks)
        # one static positional argument after the upstream ones, one static keyword: exercises the merge in runner.run.
        # Parameters fed by an edge ALSO carry a static value (TaskBuilder.from_callable records defaults as static keyword
        # inputs; graph2job writes a placeholder at edge-fed positions): the upstream value must win.
        kw_static = {"_t": t, "_n": len(outs), "s": f"static-{t}"}
        ps_static = {str(npos[t]): f"pos-{t}"}
        if "!" + t in none_tasks:
            ps_static[str(npos[t] + 1)] = None      # a genuine static None in the highest positional slot
        for (s_, o_, d_), b in bind.items():
            if d_ == t and isinstance(b, str):
                kw_static[b] = f"default-{t}-{b}"
            elif d_ == t:
                ps_static[str(b)] = f"placeholder-{t}-{b}"
        tasks[t] = TaskInstance(definition=td, static_input_kw=kw_static, static_input_ps=ps_static)
    edges = [Task2TaskEdge(source=DatasetId(s, o), sink_task=d,
                           sink_input_kw=b if isinstance(b, str) else None,
                           sink_input_ps=b if isinstance(b, int) else None)
             for (s, o, d), b in sorted(bind.items())]
    # the same upstream dataset bound to a second (keyword) parameter of the same task
    for n, (s, o, d) in enumerate(inst.dup_edges):
        edges.append(Task2TaskEdge(source=DatasetId(s, o), sink_task=d, sink_input_kw=f"dup{n}", sink_input_ps=None))
        tasks[d].static_input_kw[f"dup{n}"] = f"default-dup{n}"
    serdes = {}
    if any(x[:1] in "@^&" for x in none_tasks if x):
        from cascade.low.core import type_enc
        # registration order matters to nobody: each type keeps its own serialiser
        serdes = {type_enc(bodies.Boxed): ("harness.sim.bodies.ser_boxed", "harness.sim.bodies.des_boxed"),
                  type_enc(bodies.Tagged): ("harness.sim.bodies.ser_tagged", "harness.sim.bodies.des_tagged")}
    # the order of the edge list carries no meaning: list the edges so that those into one task are as far apart as possible
    # (round-robin over the sink tasks) - nothing may rely on edges of a task being adjacent
    by_sink: dict[str, list] = collections.defaultdict(list)
    for e in edges:
        by_sink[e.sink_task].append(e)
    spread = []
    while any(by_sink.values()):
        for k in sorted(by_sink):
            if by_sink[k]:
                spread.append(by_sink[k].pop(0))
    return JobInstance(tasks=tasks, edges=spread, ext_outputs=[DatasetId(t, o) for t, o in inst.ext], serdes=serdes)


def sequential(inst: Instance, none_tasks: frozenset[str] = frozenset()) -> dict[tuple[str, str], Any]:
    """Reference: evaluate the DAG in one process, in topological order, binding arguments from the
    instance description only (nothing from cascade.*)."""
    bind = edge_binding(inst)
    vals: dict[tuple[str, str], Any] = {}
    done: set[str] = set()
    npos = collections.Counter()
    for (s, o, d), b in bind.items():
        if isinstance(b, int):
            npos[d] = max(npos[d], b + 1)
    while len(done) < len(inst.outs):
        progressed = False
        for t in sorted(inst.outs):
            if t in done:
                continue
            ins = [(e, b) for e, b in bind.items() if e[2] == t]
            if any((e[0], e[1]) not in vals for e, _ in ins):
                continue
            args: list[Any] = [None] * (npos[t] + 1)
            kwargs: dict[str, Any] = {"s": f"static-{t}"}
            args[npos[t]] = f"pos-{t}"
            if "!" + t in none_tasks:
                args.append(None)
            for e, b in ins:
                if isinstance(b, int):
                    args[b] = vals[(e[0], e[1])]
                else:
                    kwargs[b] = vals[(e[0], e[1])]
            for n, (s_, o_, d_) in enumerate(inst.dup_edges):
                if d_ == t:
                    kwargs[f"dup{n}"] = vals[(s_, o_)]
            outs = sorted(inst.outs[t])
            r = _body_of(t, none_tasks)(*args, _t=t, _n=len(outs), **kwargs)
            res = [r] if len(outs) == 1 else list(r)
            for o, v in zip(outs, res):
                vals[(t, o)] = v
            done.add(t)
            progressed = True
        if not progressed:
            raise ValueError("cycle")
    return vals


# ----------------------------------------------------------------------------------------------
# recorder
# ----------------------------------------------------------------------------------------------
D = lambda ds: [ds.task, ds.output]
ST = {DatasetStatus.preparing: "preparing", DatasetStatus.available: "available",
      DatasetStatus.missing: "missing", DatasetStatus.purged: "purged"}


class Rec:
    def __init__(self, comp_name: dict[int, str]):
        self.ev: list[dict] = []
        self.pending: dict | None = None
        self.comp_name = comp_name
        self.last: dict = {}

    def proj(self, state) -> dict:
        cn = self.comp_name
        h2d = {(ds, h) for h, dss in state.host2ds.items() for ds in dss}
        d2h = {(ds, h) for ds, hs in state.ds2host.items() for h in hs}
        w2d = {(ds, w) for w, dss in state.worker2ds.items() for ds in dss}
        d2w = {(ds, w) for ds, ws in state.ds2worker.items() for w in ws}
        comp_sum = sum(len(c.computable) for c in state.components)
        ong_sum = sum(len(v) for v in state.ongoing.values())
        consistent = (h2d == d2h and w2d == d2w and comp_sum == state.computable and ong_sum == state.ongoing_total)
        done = sorted(t for t, ws in state.ts2worker.items() if any(s == TaskStatus.succeeded for s in ws.values()))
        return {
            "idle": sorted(repr(w) for w in state.idle_workers),
            "ongoing": {repr(w): sorted(ts) for w, ts in state.ongoing.items() if ts},
            "computable": sorted(t for c in state.components for t in c.computable),
            "dsHost": sorted([ds.task, ds.output, h, ST[st]] for ds, hs in state.ds2host.items() for h, st in hs.items()),
            "wprep": sorted([ds.task, ds.output, repr(w)] for w, dss in state.worker2ds.items() for ds in dss),
            "fetchQ": [[ds.task, ds.output, h] for ds, h in state.fetching_queue.items()],
            "purgeQ": sorted(D(ds) for ds in set(state.purging_queue)),
            "fetched": sorted(D(ds) for ds, v in state.outputs.items() if v is not None),
            "tracker": {t: sorted(D(d) for d in ds) for c in state.components for t, ds in c.is_computable_tracker.items() if ds},
            "ptrack": sorted([ds.task, ds.output, sorted(ts)] for ds, ts in state.purging_tracker.items() if ts),
            "hostComp": {h: ("none" if c is None else cn[c]) for h, c in state.host2component.items()},
            "weight": {cn[i]: c.weight for i, c in enumerate(state.components)},
            "w2tValues": {cn[i]: sorted(c.worker2task_values) for i, c in enumerate(state.components)},
            "distKeys": {cn[i]: sorted(repr(w) for w in c.worker2task_distance) for i, c in enumerate(state.components)},
            "ovhKeys": sorted([repr(w), t] for w, ts in state.worker2task_overhead.items() for t in ts),
            "done": done,
            "remaining": state.remaining,
            "consistent": bool(consistent),
        }

    def delta(self, full: dict) -> dict:
        """Delta encoding: only the fields that changed since the previous projection of this trace."""
        last = self.last
        d = {k: v for k, v in full.items() if k not in ("consistent",) and last.get(k, None) != v}
        if not full["consistent"]:
            d["consistent"] = False
        self.last = full
        return d

    def finalize(self, state) -> None:
        if self.pending is not None:
            self.pending["st"] = self.delta(self.proj(state))
            self.pending = None

    def log(self, ev: str, state=None, defer: bool = False, **kw) -> dict:
        e = {"ev": ev, **kw}
        self.ev.append(e)
        if state is not None:
            if defer:
                self.pending = e
            else:
                e["st"] = self.delta(self.proj(state))
        return e


# ----------------------------------------------------------------------------------------------
# the simulated cluster
# ----------------------------------------------------------------------------------------------
class HostStore:
    """dict-backed stand-in for cascade.shm.client on one host: key -> (bytes, deser_fun)."""

    class Conflict(Exception):
        pass

    def __init__(self):
        self.data: dict[str, tuple[bytes, str]] = {}
        self.staged: dict[str, list] = {}

    def client(self):
        store = self

        class Buf:
            def __init__(s, key, l=None, deser_fun=None, create=False):
                s.key, s.create = key, create
                if create:
                    store.staged[key] = [bytearray(l), deser_fun]
                    s.deser_fun = deser_fun
                else:
                    if key not in store.data:
                        raise KeyError(f"shm: no dataset {key}")
                    s.deser_fun = store.data[key][1]

            def view(s):
                return memoryview(store.staged[s.key][0]) if s.create else memoryview(store.data[s.key][0])

            def close(s):
                pass

        return types.SimpleNamespace(allocate=lambda key, l, deser_fun: Buf(key, l, deser_fun, True),
                                     get=lambda key: Buf(key), AllocatedBuffer=Buf)


class SimBridge:
    def __init__(self, env: Environment, job: JobInstance, inst: Instance, rng: random.Random, rec: Rec,
                 max_exec_steps: int = 4, max_batch: int = 3):
        self.env, self.job, self.inst, self.rng, self.rec = env, job, inst, rng, rec
        self.hosts = sorted({w.host for w in env.workers})
        self.workers = sorted(env.workers, key=repr)
        self.store = {h: HostStore() for h in self.hosts}
        self.held = {h: set() for h in self.hosts}
        self.invalid = {h: set() for h in self.hosts}
        self.toHost = {h: [] for h in self.hosts}
        self.inbox = {w: [] for w in self.workers}
        self.running: dict[WorkerId, Any] = {w: None for w in self.workers}
        self.toData = {h: [] for h in self.hosts}
        self.events = {h: [] for h in self.hosts}
        self.payloads: list = []
        self.inflight: list = []
        self.edge_i = collections.defaultdict(set)
        for e in job.edges:
            self.edge_i[e.sink_task].add(e.source)
        self.psrc = param_source(job.edges)
        self.memory = {w: Memory("cb", w) for w in self.workers}
        self.idx = 0
        self.calls = 0            # bridge calls + recv since the last flush (spin detection)
        self.idle_rounds = 0
        self.cur_fetches: list = []
        self.cur_purges: list = []
        self.cur_transmits: list = []
        self.shutdown_called = False
        self.failures: list[str] = []
        self.max_exec_steps, self.max_batch = max_exec_steps, max_batch
        self.reports: list = []              # ControllerReports the real Reporter pushed towards the gateway
        self.rep_seen = 0
        self.payload_fn: dict = {}           # dataset -> deser_fun of the payload handed to the controller
        self.chooser = None                  # exhaustive mode: an object with choose(n) -> index (see record_all_orders)
        self.starve: frozenset = frozenset()  # adversarial mode: step kinds taken only when nothing else can happen

    # ---- Bridge API used by the controller
    def get_environment(self):
        return self.env

    def task_sequence(self, ts: TaskSequence):
        self.calls += 1
        for t in ts.tasks:
            self.toHost[ts.worker.host].append(("task", ts.worker, t, ts))

    def transmit(self, ds, source, target):
        self.calls += 1
        self.cur_transmits.append([ds.task, ds.output, source])
        self.toData[source].append(("transmit", ds, target))

    def fetch(self, ds, source):
        self.calls += 1
        self.cur_fetches.append([ds.task, ds.output, source])
        self.toData[source].append(("fetch", ds, "ctrl"))

    def purge(self, host, ds):
        self.calls += 1
        self.cur_purges.append([host, ds.task, ds.output])
        self.toHost[host].append(("purge", ds))

    def shutdown(self):
        self.shutdown_called = True
        self.rec.log("shutdown")

    # ---- executor actions (spec: HostDeliver, WorkerTake, WorkerPublish, DataCmd, DataStore)
    def enabled(self):
        en = []
        for h in self.hosts:
            if self.toHost[h]:
                en.append(("hostdeliver", h))
            if self.toData[h]:
                en.append(("datacmd", h))
        for w in self.workers:
            if self.running[w] is None and self.inbox[w] and self.edge_i[self.inbox[w][0][0]] <= self.held[w.host]:
                en.append(("take", w))
            if self.running[w] is not None:
                en.append(("publish", w))
        for p in self.inflight:
            en.append(("store", p))
        return en

    def _run_task(self, w: WorkerId, t: str, ts: TaskSequence):
        """Run the task through the real worker code path; collect what it publishes / reports."""
        out: list = []
        MEM.shm_client = self.store[w.host].client()
        MEM.callback = lambda addr, m: out.append(m)
        EP.callback = lambda addr, m: out.append(m)
        rc = EP.RunnerContext(workerId=w, job=self.job, callback="cb", param_source=self.psrc)
        one = TaskSequence(worker=w, tasks=[t], publish=ts.publish)
        EP.execute_sequence(one, self.memory[w], PackagesEnv(), rc)
        return out

    def step(self, s):
        k, a = s
        rec = self.rec
        if k == "hostdeliver":
            m = self.toHost[a].pop(0)
            if m[0] == "task":
                self.inbox[m[1]].append((m[2], m[3]))
            else:
                ds = m[1]
                if ds in self.held[a]:
                    self.held[a].discard(ds)
                    self.invalid[a].add(ds)
                    self.store[a].data.pop(ds2shmid(ds), None)
                    for w in self.workers:
                        if w.host == a:
                            self.memory[w].pop(ds)
            rec.log("hostdeliver", h=a)
        elif k == "take":
            t, ts = self.inbox[a].pop(0)
            msgs = self._run_task(a, t, ts)
            self.running[a] = (t, msgs)
            rec.log("take", w=repr(a))
            if not msgs:
                self.failures.append(f"task {t} published nothing")
        elif k == "publish":
            t, msgs = self.running[a]
            m = msgs.pop(0)
            if isinstance(m, TaskFailure):
                self.failures.append(m.detail)
                self.running[a] = None
                rec.log("taskfailure", w=repr(a), what=m.detail[:200])
                raise TaskFailed(m.detail)
            ds = m.ds
            key = ds2shmid(ds)
            st = self.store[a.host]
            buf, fn = st.staged.pop(key)
            st.data[key] = (bytes(buf), fn)
            self.held[a.host].add(ds)
            self.events[a.host].append(m)
            self.running[a] = None if not msgs else (t, msgs)
            rec.log("publish", w=repr(a), d=D(ds))
        elif k == "datacmd":
            kind, ds, tgt = self.toData[a].pop(0)
            ok = ds in self.held[a] and ds not in self.invalid[a]
            if ok:
                b, fn = self.store[a].data[ds2shmid(ds)]
                if kind == "fetch":
                    self.payloads.append((ds, a, b, fn))
                else:
                    self.inflight.append((ds, a, tgt, b, fn))
            rec.log("datacmd", h=a, k=kind, d=D(ds), tgt=tgt, ok=ok)
            if not ok:
                raise DataServerFailure(f"{kind} of {ds} at {a}: not held or already purged")
        elif k == "store":
            self.inflight.remove(a)
            ds, src, tgt, b, fn = a
            if ds not in self.invalid[tgt] and ds not in self.held[tgt]:
                self.store[tgt].data[ds2shmid(ds)] = (b, fn)
                self.held[tgt].add(ds)
                self.events[tgt].append(DatasetPublished(tgt, ds, self.idx))
                self.idx += 1
            rec.log("store", d=D(ds), src=src, tgt=tgt)

    def pick(self, en, pending_events: bool):
        """random enabled step; in adversarial mode the starved kinds run only when nothing else is enabled and no event waits"""
        if self.starve:
            rest = [e for e in en if e[0] not in self.starve]
            if rest:
                return self.rng.choice(rest)
            if pending_events:
                return None
        return self.rng.choice(en)

    def some_steps(self, n: int | None = None):
        if self.chooser is not None:
            return        # exhaustive mode: executors run to quiescence inside recv_events only
        n = self.rng.randint(0, self.max_exec_steps) if n is None else n
        for _ in range(n):
            en = self.enabled()
            if not en:
                break
            st = self.pick(en, any(self.events[h] for h in self.hosts) or bool(self.payloads))
            if st is None:
                break
            self.step(st)

    def recv_events(self):
        self.calls += 1
        rng = self.rng
        if self.chooser is not None:
            return self._recv_one_chosen()
        self.some_steps()

        def avail():
            return [h for h in self.hosts if self.events[h]] + [("p", i) for i in range(len(self.payloads))]

        while not avail():
            en = self.enabled()
            if not en:
                self.rec.log("deadlock")
                raise Deadlock("recv_events called with nothing outstanding")
            self.step(self.pick(en, False))
        out = []
        n = rng.randint(1, self.max_batch)
        while n > 0 and avail():
            c = rng.choice(avail())
            n -= 1
            if isinstance(c, tuple):
                ds, src, v, fn = self.payloads.pop(c[1])
                self.payload_fn[ds] = fn
                out.append(DatasetTransmitPayload(DatasetTransmitPayloadHeader("x", 0, ds, fn), v))
                self.rec.log("recvpayload", d=D(ds), src=src)
            else:
                e = self.events[c].pop(0)
                out.append(e)
                self.rec.log("recvevent", h=c, d=D(e.ds), w=repr(e.origin) if isinstance(e.origin, WorkerId) else "host",
                             x=e.transmit_idx is not None)
        return out


class _ReportSocket:
    """Stands for the PUSH socket of cascade.controller.report.Reporter: keeps what the controller reports to the gateway."""

    def __init__(self, sink):
        self.sink = sink

    def connect(self, address):
        pass

    def send(self, raw):
        self.sink.append(REPORT.deserialize(raw))


REPORT_JOB_ID = "job-under-test"


def _new_reports(b, expected: dict) -> list[dict]:
    """What the real Reporter sent since the last look, projected: progress in basis points, results judged against the
    sequential value (decoded as controller.notify decodes the same bytes)."""
    out = []
    for r in b.reports[b.rep_seen:]:
        idx = b.reports.index(r)
        meta_ok = r.job_id == REPORT_JOB_ID and (idx == 0 or b.reports[idx - 1].timestamp <= r.timestamp)
        if r.results:
            for ds, raw in r.results:
                try:
                    ok = (ds.task, ds.output) in expected and \
                        SERDE.des_output(raw, "Any", b.payload_fn.get(ds)) == expected[(ds.task, ds.output)]
                except Exception:
                    ok = False
                out.append({"k": "result", "d": D(ds), "ok": bool(ok), "bp": 0, "meta": meta_ok and r.current_status is None})
        elif r.current_status == REPORT.JobProgressShutdown:
            out.append({"k": "shutdown", "d": ["", ""], "ok": True, "bp": 0, "meta": meta_ok})
        else:
            try:
                bp = int(round(float(r.current_status) * 100))
            except Exception:
                bp = -1
            out.append({"k": "progress", "d": ["", ""], "ok": True, "bp": bp, "meta": meta_ok})
    b.rep_seen = len(b.reports)
    return out


def _recv_one_chosen(self):
    """Exhaustive mode: executors run to quiescence (deterministic order), then ONE pending event or payload, picked by
    the chooser, is delivered.  Enumerating the chooser's decisions enumerates every delivery order."""
    while True:
        en = self.enabled()
        if not en:
            break
        self.step(sorted(en, key=lambda e: (e[0], repr(e[1])))[0])
    opts = [("h", h) for h in self.hosts if self.events[h]] + [("p", i) for i in range(len(self.payloads))]
    if not opts:
        self.rec.log("deadlock")
        raise Deadlock("recv_events called with nothing outstanding")
    kind, a = opts[self.chooser.choose(len(opts))]
    if kind == "p":
        ds, src, v, fn = self.payloads.pop(a)
        self.payload_fn[ds] = fn
        self.rec.log("recvpayload", d=D(ds), src=src)
        return [DatasetTransmitPayload(DatasetTransmitPayloadHeader("x", 0, ds, fn), v)]
    e = self.events[a].pop(0)
    self.rec.log("recvevent", h=a, d=D(e.ds), w=repr(e.origin) if isinstance(e.origin, WorkerId) else "host",
                 x=e.transmit_idx is not None)
    return [e]


SimBridge._recv_one_chosen = _recv_one_chosen


class Chooser:
    def __init__(self, prefix):
        self.prefix, self.taken = list(prefix), []

    def choose(self, n: int) -> int:
        k = len(self.taken)
        i = self.prefix[k] if k < len(self.prefix) else 0
        i = min(i, n - 1)
        self.taken.append((i, n))
        return i


def record_all_orders(inst, job, env, pre, expected, cap: int = 3000) -> tuple[list[list[dict]], bool]:
    """Stateless DFS over the chooser's decisions: every order in which events and payloads can reach the controller
    (executors run to quiescence between deliveries).  Returns (traces, complete?)."""
    traces, prefix = [], []
    while True:
        ch = Chooser(prefix)
        traces.append(record(inst, job, env, pre, 0, expected, chooser=ch))
        taken = ch.taken
        k = len(taken) - 1
        while k >= 0 and taken[k][0] + 1 >= taken[k][1]:
            k -= 1
        if k < 0:
            return traces, True
        prefix = [t[0] for t in taken[:k]] + [taken[k][0] + 1]
        if len(traces) >= cap:
            return traces, False


class TaskFailed(Exception):
    pass


class DataServerFailure(Exception):
    pass


# ----------------------------------------------------------------------------------------------
# one recorded execution
# ----------------------------------------------------------------------------------------------
def make_env(inst: Instance) -> Environment:
    return Environment(workers={WorkerId.from_repr(w): Worker(cpu=1, gpu=1 if w in inst.gpu_workers else 0, memory_mb=1)
                                for ws in inst.hosts.values() for w in ws})


def comp_names(pre) -> tuple[dict[int, str], dict[str, str]]:
    cn = {i: str(i) for i in range(len(pre.components))}
    comp_of = {t: cn[i] for i, c in enumerate(pre.components) for t in c.nodes}
    return cn, comp_of


def record(inst: Instance, job: JobInstance, env: Environment, pre, seed: int, expected: dict,
           budget_s: int = 5, chooser=None, **simkw) -> list[dict]:
    cn, _ = comp_names(pre)
    rec = Rec(cn)
    rng = random.Random(seed)
    starve = simkw.pop("starve", frozenset())
    b = SimBridge(env, job, inst, rng, rec, **simkw)
    b.chooser = chooser
    b.starve = frozenset(starve)
    o_act, o_plan, o_flush, o_notify = impl.act, impl.plan, impl.flush_queues, impl.notify
    o_ba, o_mig = ASSIGN.build_assignment, API.migrate_to_component
    round_state = {"migrated": False, "flushes_idle": 0}

    def ba(worker, task, state):
        rec.finalize(state)
        b.some_steps()
        return o_ba(worker, task, state)

    def act(bridge, state, a):
        b.cur_transmits = []
        r = o_act(bridge, state, a)
        rec.log("assign", state, defer=True, w=repr(a.worker), t=a.tasks[0], ntasks=len(a.tasks),
                prep=list(b.cur_transmits), outs=sorted(D(d) for d in a.outputs))
        return r

    def mig(host, component_id, state):
        rec.finalize(state)
        if not round_state["migrated"]:
            round_state["migrated"] = True
            rec.log("startmigrate", state)
        r = o_mig(host, component_id, state)
        rec.log("migrate", state, h=host, c=cn[component_id])
        return r

    def plan(state, assignments):
        rec.finalize(state)
        b.some_steps()
        r = o_plan(state, assignments)
        round_state["migrated"] = False
        rec.log("plan", r, n=len(assignments))
        return r

    def flush(bridge, state):
        before = b.calls
        b.cur_fetches, b.cur_purges = [], []
        r = o_flush(bridge, state)
        rec.log("flush", r, fetches=list(b.cur_fetches), purges=list(b.cur_purges))
        # spin detection: loop iterations without any bridge call
        if b.calls == round_state.get("calls_at_last_flush", -1):
            round_state["flushes_idle"] += 1
            if round_state["flushes_idle"] > 20:
                rec.log("spin")
                raise Spin("20 loop iterations without any bridge call")
        else:
            round_state["flushes_idle"] = 0
        round_state["calls_at_last_flush"] = b.calls
        return r

    def notify(state, job_, events, reporter):
        r = o_notify(state, job_, events, reporter)
        rec.last = {}      # full projection: the spec moved ahead of the last projection during recvevent/recvpayload
        rec.log("endwait", state, reports=_new_reports(b, expected))
        return r

    impl.act, impl.plan, impl.flush_queues, impl.notify = act, plan, flush, notify
    ASSIGN.build_assignment, API.migrate_to_component = ba, mig
    old_mem_cb, old_ep_cb, old_shm = MEM.callback, EP.callback, MEM.shm_client
    old_ctx = REPORT.get_context
    REPORT.get_context = lambda: types.SimpleNamespace(socket=lambda kind: _ReportSocket(b.reports))
    old = signal.signal(signal.SIGALRM, _alarm)
    state = None
    try:
        signal.alarm(budget_s)
        try:
            state = impl.run(job, b, pre, report_address="tcp://gateway:0," + REPORT_JOB_ID)
            outs = {(ds.task, ds.output): v for ds, v in state.outputs.items()}
            wrong = sorted([list(k) for k, v in outs.items() if k not in expected or v != expected[k]])
            missing = sorted([list(k) for k in map(tuple, inst.ext) if k not in outs])
            rec.log("done", wrong=wrong, missing=missing, shutdown=b.shutdown_called,
                    remaining=state.remaining, failures=b.failures[:3], reports=_new_reports(b, expected))
        except (Spin, Deadlock, TaskFailed, DataServerFailure) as e:
            if not any(ev["ev"] in ("spin", "deadlock", "taskfailure") for ev in rec.ev[-3:]):
                rec.log("abort", what=type(e).__name__ + ":" + str(e)[:200])
        except Exception as e:  # an exception out of the controller's own bookkeeping
            import traceback
            tb = traceback.extract_tb(e.__traceback__)
            site = next((f"{f.filename.split('/src/')[-1]}:{f.lineno}" for f in reversed(tb) if "/cascade/" in f.filename), "?")
            rec.log("crash", what=repr(e)[:200], site=site, shutdown=b.shutdown_called)
        finally:
            signal.alarm(0)
    finally:
        signal.signal(signal.SIGALRM, old)
        impl.act, impl.plan, impl.flush_queues, impl.notify = o_act, o_plan, o_flush, o_notify
        ASSIGN.build_assignment, API.migrate_to_component = o_ba, o_mig
        MEM.callback, EP.callback, MEM.shm_client = old_mem_cb, old_ep_cb, old_shm
        REPORT.get_context = old_ctx
    return rec.ev
