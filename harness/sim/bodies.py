"""Task bodies whose return value encodes exactly what they were called with (a value *is* its term)."""


def body(*args, _t, _n=1, **kwargs):
    term = ("T", _t, tuple(args), tuple(sorted(kwargs.items())))
    if _n == 1:
        return term
    return (("O", term, i) for i in range(_n))


def none_body(*args, _t, _n=1, **kwargs):
    """A task whose value is None (a legitimate Python value)."""
    return None


FALSY = [0, "", False, [], 0.0, ()]


def falsy_body(*args, _t, _n=1, **kwargs):
    """A task whose values are falsy but not None (0, "", False, [], ...): legitimate Python values."""
    if _n == 1:
        return FALSY[len(_t) % len(FALSY)]
    return (FALSY[i % len(FALSY)] for i in range(_n))


# ---- values with a custom serde registered for their type (JobInstance.serdes), and a subclass of that type which is NOT
# registered: the registry is keyed by the exact type, so the subclass travels by cloudpickle and keeps what it adds
class Boxed:
    def __init__(self, term):
        self.term = term

    def __eq__(self, other):
        return type(self) is type(other) and self.__dict__ == other.__dict__

    def __repr__(self):
        return f"{type(self).__name__}({self.__dict__})"


class BoxedMore(Boxed):
    def __init__(self, term, mark):
        super().__init__(term)
        self.mark = mark


def ser_boxed(v) -> bytes:
    import pickle
    return pickle.dumps(("boxed", v.term))      # knows nothing about what a subclass adds


def des_boxed(b) -> Boxed:
    import pickle
    tag, term = pickle.loads(bytes(b))
    assert tag == "boxed"
    return Boxed(term)


def boxed_body(*args, _t, _n=1, **kwargs):
    term = ("T", _t, tuple(args), tuple(sorted(kwargs.items())))
    if _n == 1:
        return Boxed(term)
    return (Boxed(("O", term, i)) for i in range(_n))


def boxed_more_body(*args, _t, _n=1, **kwargs):
    term = ("T", _t, tuple(args), tuple(sorted(kwargs.items())))
    if _n == 1:
        return BoxedMore(term, "mark-" + _t)
    return (BoxedMore(("O", term, i), f"mark-{_t}-{i}") for i in range(_n))


# ---- a second type with its own registered serde (a job may register several)
class Tagged:
    def __init__(self, term):
        self.term = term

    def __eq__(self, other):
        return type(self) is type(other) and self.term == other.term

    def __repr__(self):
        return f"Tagged({self.term!r})"


def ser_tagged(v) -> bytes:
    import pickle
    return pickle.dumps(("tagged", v.term))


def des_tagged(b) -> Tagged:
    import pickle
    tag, term = pickle.loads(bytes(b))
    assert tag == "tagged", f"bytes of another serialiser: {tag}"
    return Tagged(term)


def tagged_body(*args, _t, _n=1, **kwargs):
    term = ("T", _t, tuple(args), tuple(sorted(kwargs.items())))
    if _n == 1:
        return Tagged(term)
    return (Tagged(("O", term, i)) for i in range(_n))
