"""Task bodies whose return value encodes exactly what they were called with (a value *is* its term)."""


def body(*args, _t, _n=1, **kwargs):
    term = ("T", _t, tuple(args), tuple(sorted(kwargs.items())))
    if _n == 1:
        return term
    return (("O", term, i) for i in range(_n))


def none_body(*args, _t, _n=1, **kwargs):
    """A task whose value is None (a legitimate Python value)."""
    return None


FALSY = [0, "", False, [], 0.0, ()]


def falsy_body(*args, _t, _n=1, **kwargs):
    """A task whose values are falsy but not None (0, "", False, [], ...): legitimate Python values."""
    if _n == 1:
        return FALSY[len(_t) % len(FALSY)]
    return (FALSY[i % len(FALSY)] for i in range(_n))
