"""Task bodies whose return value encodes exactly what they were called with (a value *is* its term)."""


def body(*args, _t, _n=1, **kwargs):
    term = ("T", _t, tuple(args), tuple(sorted(kwargs.items())))
    if _n == 1:
        return term
    return (("O", term, i) for i in range(_n))


def none_body(*args, _t, _n=1, **kwargs):
    """A task whose value is None (a legitimate Python value)."""
    return None
