"""Thin runner around TLC / SANY: model checking, simulation, output parsing."""
from __future__ import annotations

import os
import re
import shutil
import subprocess
import time
from dataclasses import dataclass, field
from pathlib import Path

from .common import NCPU, SPEC, MachineryError

JAR = "/opt/veriftools/tla/tla2tools.jar:/opt/veriftools/tla/CommunityModules-deps.jar"


@dataclass
class TlcResult:
    ok: bool                      # TLC finished without reporting an error
    generated: int = 0
    distinct: int = 0
    depth: int = 0
    violated: list[str] = field(default_factory=list)   # names of violated invariants / "Temporal" / "Deadlock"
    trace: str = ""               # raw counterexample text (if any)
    coverage: dict[str, int] = field(default_factory=dict)   # action name -> times taken (distinct states)
    out: str = ""
    wall: float = 0.0
    cmd: str = ""
    printed: list[str] = field(default_factory=list)   # PrintT output lines


def stage(scratch: Path, name: str, modules: list[str], extra: dict[str, str] | None = None) -> Path:
    """Create scratch/<name>/ holding copies of the listed spec modules plus generated files."""
    d = scratch / name
    d.mkdir(parents=True, exist_ok=True)
    for m in modules:
        shutil.copy(SPEC / f"{m}.tla", d / f"{m}.tla")
    for fn, txt in (extra or {}).items():
        (d / fn).write_text(txt)
    return d


def _java(args: list[str], cwd: Path, timeout: int, env: dict | None = None, heap: str = "4g",
          props: list[str] | None = None, light: bool = True) -> tuple[int, str, float]:
    # light: short runs (most of ours) are dominated by JIT + GC threads; serial GC and C1 only cut CPU by 3x
    gc = ["-XX:+UseSerialGC", "-XX:TieredStopAtLevel=1"] if light else ["-XX:+UseParallelGC", "-XX:ParallelGCThreads=4"]
    # TLC's own temporary directories (tlc-<n>) go into the staged run directory and disappear with the scratch
    cmd = ["java"] + gc + [f"-Xmx{heap}", f"-Djava.io.tmpdir={cwd}"] + (props or []) + ["-cp", JAR] + args
    e = dict(os.environ)
    e.pop("JAVA_TOOL_OPTIONS", None)
    e.setdefault("PASS", "none")       # specs guard their generate/judge passes with IOEnv.PASS (TLC evaluates every constant at start-up)
    if env:
        e.update(env)
    t0 = time.time()
    try:
        p = subprocess.run(cmd, cwd=cwd, env=e, stdout=subprocess.PIPE, stderr=subprocess.STDOUT,
                           timeout=timeout, text=True, errors="replace")
        return p.returncode, p.stdout, time.time() - t0
    except subprocess.TimeoutExpired as ex:
        out = ex.stdout if isinstance(ex.stdout, str) else (ex.stdout or b"").decode(errors="replace")
        return -9, out + "\n*** TIMEOUT ***", time.time() - t0


def sany(module_path: Path) -> None:
    rc, out, _ = _java(["tla2sany.SANY", module_path.name], module_path.parent, 120)
    if rc != 0 or "Semantic errors" in out or "*** Errors" in out or "Fatal errors" in out or "Parse Error" in out:
        raise MachineryError(f"SANY rejects {module_path}:\n{out[-3000:]}")


_COV = re.compile(r"^<(\w+) line (\d+), col \d+ to line \d+, col \d+ of module (\w+)>: (\d+):(\d+)", re.M)


def parse(out: str) -> TlcResult:
    r = TlcResult(ok=True, out=out)
    m = None
    for m in re.finditer(r"(\d+) states generated, (\d+) distinct states found", out):
        pass
    if m:
        r.generated, r.distinct = int(m.group(1)), int(m.group(2))
    m = re.search(r"The depth of the complete state graph search is (\d+)", out)
    if m:
        r.depth = int(m.group(1))
    for m in re.finditer(r"Error: Invariant (\w+) is violated", out):
        r.violated.append(m.group(1))
    for m in re.finditer(r"Error: Action property (\w+) is violated", out):
        r.violated.append(m.group(1))
    for m in re.finditer(r"Error: Action property line \d+, col \d+ to line \d+, col \d+ of module (\w+) is violated", out):
        r.violated.append("ActionProperty_" + m.group(1))      # an un-named action property (a refinement [][Next]_v of that module)
    if "Temporal properties were violated" in out:
        r.violated.append("Temporal")
    if "Error: Deadlock reached" in out:
        r.violated.append("Deadlock")
    if re.search(r"Error: The (postcondition|POSTCONDITION)", out) or "Postcondition" in out and "violated" in out:
        r.violated.append("Postcondition")
    if r.violated:
        i = out.find("Error:")
        r.trace = out[i:i + 60000]
    for m in _COV.finditer(out):
        name = m.group(1)
        r.coverage[name] = r.coverage.get(name, 0) + int(m.group(4))
    r.printed = [l for l in out.splitlines() if l.startswith('"') or l.startswith("<<") or l.startswith("[")]
    other_err = re.search(r"^Error: (?!Invariant|Action property|Temporal|Deadlock|The behavior|The following)(.*)$", out, re.M)
    if r.violated:
        r.ok = False
    elif other_err or "*** TIMEOUT ***" in out or "Model checking completed" not in out and "Finished in" not in out \
            and "The number of states generated" not in out and "Simulation" not in out:
        r.ok = False
        r.violated.append("MACHINERY:" + (other_err.group(1) if other_err else "incomplete run"))
    return r


def check(d: Path, module: str, cfg: str | None = None, *, workers: int | None = None, timeout: int = 600,
          coverage: bool = False, deadlock: bool = True, extra: list[str] | None = None,
          env: dict | None = None, heap: str = "6g", dfs: bool = False, simulate: str | None = None,
          depth: int | None = None, seed: int | None = None, light: bool = True) -> TlcResult:
    """Run TLC on d/<module>.tla with d/<cfg or module>.cfg."""
    meta = d / f"meta_{module}_{int(time.time() * 1000) % 10**8}"
    args = ["tlc2.TLC", "-metadir", str(meta), "-noGenerateSpecTE", "-workers", str(workers or NCPU),
            "-config", (cfg or module) + ("" if (cfg or module).endswith(".cfg") else ".cfg")]
    if coverage:
        args += ["-coverage", "1"]
    if not deadlock:
        args += ["-deadlock"]
    if simulate is not None:
        args += ["-simulate", simulate]
    if depth is not None:
        args += ["-depth", str(depth)]
    if seed is not None:
        args += ["-seed", str(seed)]
    args += (extra or []) + [module]
    props = ["-Dtlc2.tool.queue.IStateQueue=StateDeque"] if dfs else []
    rc, out, wall = _java(args, d, timeout, env, heap, props, light)
    shutil.rmtree(meta, ignore_errors=True)
    r = parse(out)
    r.wall = wall
    r.cmd = "tlc " + " ".join(a for a in args[1:] if not a.startswith(str(d)))
    if rc not in (0, 12, 13, 11, 10) and not r.violated:
        r.ok = False
        r.violated.append(f"MACHINERY:rc={rc}")
    return r


def require_clean(r: TlcResult, what: str) -> None:
    bad = [v for v in r.violated if v.startswith("MACHINERY")]
    if bad:
        raise MachineryError(f"TLC failed on {what}: {bad}\n{r.out[-4000:]}")


def cfg_text(*, spec: str | None = None, init: str | None = None, next_: str | None = None,
             constants: dict[str, str] | None = None, invariants: list[str] | None = None,
             properties: list[str] | None = None, constraints: list[str] | None = None,
             action_constraints: list[str] | None = None, view: str | None = None,
             postcondition: str | None = None, symmetry: str | None = None,
             deadlock: bool | None = None) -> str:
    out = []
    if spec:
        out.append(f"SPECIFICATION {spec}")
    if init:
        out.append(f"INIT {init}")
    if next_:
        out.append(f"NEXT {next_}")
    if constants:
        out.append("CONSTANTS")
        for k, v in constants.items():
            out.append(f"  {k} {v}" if v.startswith("<-") else f"  {k} = {v}")
    for i in invariants or []:
        out.append(f"INVARIANT {i}")
    for p in properties or []:
        out.append(f"PROPERTY {p}")
    for c in constraints or []:
        out.append(f"CONSTRAINT {c}")
    for c in action_constraints or []:
        out.append(f"ACTION_CONSTRAINT {c}")
    if view:
        out.append(f"VIEW {view}")
    if symmetry:
        out.append(f"SYMMETRY {symmetry}")
    if postcondition:
        out.append(f"POSTCONDITION {postcondition}")
    if deadlock is not None:
        out.append(f"CHECK_DEADLOCK {'TRUE' if deadlock else 'FALSE'}")
    return "\n".join(out) + "\n"


# ---------- TLA+ value rendering (Python -> TLA+ literal) ----------
def tla(v) -> str:
    if isinstance(v, bool):
        return "TRUE" if v else "FALSE"
    if isinstance(v, int):
        return str(v)
    if isinstance(v, str):
        return '"' + v.replace("\\", "\\\\").replace('"', '\\"') + '"'
    if isinstance(v, (list, tuple)):
        return "<<" + ", ".join(tla(x) for x in v) + ">>"
    if isinstance(v, (set, frozenset)):
        return "{" + ", ".join(sorted(tla(x) for x in v)) + "}"
    if isinstance(v, dict):
        if not v:
            return "<<>>"
        if all(isinstance(k, str) and re.fullmatch(r"[A-Za-z_]\w*", k) for k in v) and getattr(v, "_record", True) and not getattr(v, "_fun", False):
            return "[" + ", ".join(f"{k} |-> {tla(x)}" for k, x in v.items()) + "]"
        return "(" + " @@ ".join(f"{tla(k)} :> {tla(x)}" for k, x in v.items()) + ")"
    raise TypeError(type(v))


class Fun(dict):
    """A dict rendered as a TLA+ function k :> v @@ ... even when keys look like record fields."""
    _fun = True


# ---------- parsing TLC value text (states in traces / simulate files) ----------
class _P:
    def __init__(self, s: str):
        self.s = s
        self.i = 0

    def ws(self):
        while self.i < len(self.s) and self.s[self.i] in " \n\t\r":
            self.i += 1

    def peek(self, k=1):
        return self.s[self.i:self.i + k]

    def eat(self, t):
        self.ws()
        if not self.s.startswith(t, self.i):
            raise ValueError(f"expected {t!r} at {self.i}: {self.s[self.i:self.i+40]!r}")
        self.i += len(t)

    def value(self):
        self.ws()
        c = self.peek()
        if c == '"':
            j = self.i + 1
            out = []
            while self.s[j] != '"':
                if self.s[j] == "\\":
                    j += 1
                out.append(self.s[j])
                j += 1
            self.i = j + 1
            return "".join(out)
        if self.peek(2) == "<<":
            self.i += 2
            items = self.seq(">>")
            return tuple(items)
        if c == "{":
            self.i += 1
            items = self.seq("}")
            try:
                return frozenset(items)
            except TypeError:
                return tuple(items)
        if c == "[":
            self.i += 1
            self.ws()
            d = {}
            if self.peek() == "]":
                self.i += 1
                return d
            while True:
                self.ws()
                m = re.match(r"[A-Za-z_]\w*", self.s[self.i:])
                k = m.group(0)
                self.i += len(k)
                self.eat("|->")
                d[k] = self.value()
                self.ws()
                if self.peek() == ",":
                    self.i += 1
                    continue
                self.eat("]")
                return d
        if c == "(":
            self.i += 1
            d = {}
            while True:
                k = _freeze(self.value())
                self.eat(":>")
                d[k] = self.value()
                self.ws()
                if self.peek(2) == "@@":
                    self.i += 2
                    continue
                self.eat(")")
                return d
        m = re.match(r"-?\d+", self.s[self.i:])
        if m:
            self.i += len(m.group(0))
            # range a..b
            if self.peek(2) == "..":
                self.i += 2
                m2 = re.match(r"-?\d+", self.s[self.i:])
                self.i += len(m2.group(0))
                return frozenset(range(int(m.group(0)), int(m2.group(0)) + 1))
            return int(m.group(0))
        m = re.match(r"[A-Za-z_]\w*", self.s[self.i:])
        if m:
            self.i += len(m.group(0))
            w = m.group(0)
            return True if w == "TRUE" else False if w == "FALSE" else w
        raise ValueError(f"cannot parse at {self.i}: {self.s[self.i:self.i+40]!r}")

    def seq(self, close):
        items = []
        self.ws()
        if self.s.startswith(close, self.i):
            self.i += len(close)
            return items
        while True:
            items.append(self.value())
            self.ws()
            if self.peek() == ",":
                self.i += 1
                continue
            self.eat(close)
            return items


def _freeze(v):
    """make a parsed value usable as a dict key (records become sorted tuples of pairs)"""
    if isinstance(v, dict):
        return tuple(sorted((k, _freeze(x)) for k, x in v.items()))
    if isinstance(v, (list, tuple)):
        return tuple(_freeze(x) for x in v)
    return v


def parse_value(txt: str):
    p = _P(txt)
    v = p.value()
    return v


def parse_state(body: str) -> dict:
    """Parse '/\\ a = ... /\\ b = ...' into {var: value}."""
    st = {}
    parts = re.split(r"(?:^|\n)\s*/\\ ", "\n" + body.strip())
    for part in parts:
        part = part.strip()
        if not part:
            continue
        k, v = part.split(" = ", 1)
        st[k.strip()] = parse_value(v)
    return st


_SIM = re.compile(r"\\\* <(\w+)[^\n]*\nSTATE_(\d+) ==[ \t]*\n(.*?)\n\n", re.S)


def parse_sim_file(path: Path) -> list[tuple[str, dict]]:
    """A `-simulate file=` behaviour -> [(action label, state dict)]."""
    txt = path.read_text() + "\n\n"
    return [(m.group(1), parse_state(m.group(3))) for m in _SIM.finditer(txt)]


_TR = re.compile(r"State (\d+): <([^>]*)>\n(.*?)(?=\n\nState \d+:|\n\n\d+ states generated|\nBack to state|\Z)", re.S)


def parse_error_trace(out: str) -> list[tuple[str, dict]]:
    res = []
    for m in _TR.finditer(out):
        label = m.group(2).split(" ")[0]
        try:
            res.append((label, parse_state(m.group(3))))
        except Exception:
            res.append((label, {"_raw": m.group(3)[:2000]}))
    return res
