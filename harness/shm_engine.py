"""Engine shared by C08 and C09: TLC on spec/Shm.tla + replay of TLC behaviours into the real Manager."""
from __future__ import annotations

import hashlib
import json
import os
import subprocess
import sys
import time
from concurrent.futures import ThreadPoolExecutor
from pathlib import Path

from . import tlc
from .common import ROOT, Ctx, MachineryError, repo_hash


def _listfile(paths):
    """argv cannot carry thousands of paths: write them to a file and pass @file"""
    import tempfile
    f = tempfile.NamedTemporaryFile("w", suffix=".json", delete=False, dir=__import__("os").path.dirname(paths[0]))
    json.dump(paths, f)
    f.close()
    return "@" + f.name


C08_INV = ["NoOverdraw", "Accounting", "FreeNeverNegative"]
C09_INV = ["ReadsWhatWasWritten", "BytesStable", "SegmentPresent", "FreshReaderProtected", "LockSane", "CountSane"]
ALL = C08_INV + C09_INV
PROP_OF_INV = {**{i: "C08" for i in C08_INV}, **{i: "C09" for i in C09_INV},
               "ActionProperty_ShmAcct": "C08", "AcctRefines": "C08", "DelayedPurgeTakesEffect": "C09", "EvictionProgress": "C09", "Temporal": "C09"}
# conformance differences: which property a differing field speaks about
FIELD_PROP = {"free": "C08", "answer_grant_early": "C08",
              "answer": "C09", "st": "C09", "fresh": "C09", "stale": "C09", "cstale": "C09", "reads": "C09",
              "delayed": "C09", "lockAll": "C09", "count": "C09", "jobs": "C09", "seg": "C09", "file": "C09",
              "reader_sees": "C09", "get_metadata": "C09"}

KEYS = {"a": 2, "b": 2, "c": 3}
CAP = 4


def consts(**over) -> dict[str, str]:
    c = {"Key": '{"a", "b", "c"}', "Size": "<- MC_Size", "Cap": str(CAP), "MaxReaders": "2", "MaxClock": "6",
         "AllowFail": "FALSE", "AllowStale": "FALSE", "ReleaseWhenEmpty": "TRUE"}
    c.update(over)
    return c


MC_MOD = '---- MODULE MC ----\nEXTENDS Shm\nMC_Size == [a |-> 2, b |-> 2, c |-> 3]\n====\n'
MC_MOD3 = '---- MODULE MC ----\nEXTENDS Shm\nMC_Size == [a |-> 1, b |-> 1, c |-> 2]\n====\n'
MC_MOD2 = '---- MODULE MC ----\nEXTENDS Shm\nMC_Size == [a |-> 1, b |-> 2]\n====\n'


# refinement: outside the recorded known patterns, Shm.tla implements the accounting skeleton spec/ShmAcct.tla, whose invariant
# Apalache proves inductive for every capacity and every size function (harness/props/c08.py)
MC_REFINE = ('---- MODULE MC ----\nEXTENDS Shm\nMC_Size == [a |-> 2, b |-> 2, c |-> 3]\n'
             'Acct == INSTANCE ShmAcct WITH ast <- [k \\in Key |-> IF st[k] \\in Resident THEN "resident" ELSE IF st[k] = "on_disk" THEN "on_disk" ELSE "absent"],\n'
             '                              afree <- free, pend <- PendingCredit\n'
             'SpecUntainted == Init /\\ [][Next /\\ tainted\' = {}]_vars\nAcctRefines == Acct!ASpec\n====\n')


def configs(quick: bool) -> list[dict]:
    """Model-checking runs: (name, constants, which invariants (U = outside the recorded known patterns))."""
    U = [i + "U" for i in ALL] + ["ExitLeavesNoSegment"]
    runs = [
        {"name": "base", "c": consts(MaxClock="4" if quick else "6"), "inv": U, "props": ["DelayedPurgeTakesEffect"]},
        {"name": "fail", "c": consts(AllowFail="TRUE", MaxClock="4" if quick else "5"), "inv": U, "props": []},
        {"name": "stale", "c": consts(AllowStale="TRUE", MaxClock="4" if quick else "5"), "inv": U, "props": []},
        {"name": "two_keys_deep", "mod": MC_MOD2,
         "c": consts(Key='{"a", "b"}', Cap="2", MaxClock="6" if quick else "9", AllowFail="TRUE", AllowStale="TRUE",
                     MaxReaders="2"), "inv": U, "props": ["DelayedPurgeTakesEffect"]},
        {"name": "refines_acct", "mod": MC_REFINE, "c": consts(AllowFail="TRUE", AllowStale="TRUE", MaxClock="4" if quick else "5"),
         "inv": [], "props": ["AcctRefines"], "spec": "SpecUntainted", "view": True},
        # eviction liveness: with fair job completion a held batch lock is eventually released
        {"name": "liveness", "c": consts(MaxClock="4"), "inv": ["LockSaneU"], "props": ["EvictionProgress"],
         "spec": "FairSpec"},
    ]
    if not quick:
        runs.append({"name": "all", "c": consts(AllowFail="TRUE", AllowStale="TRUE", MaxClock="5"), "inv": U, "props": []})
    return runs


def known_pattern_runs() -> list[dict]:
    """The same clauses WITHOUT the escape clause: reachability of the recorded known findings."""
    return [
        {"name": "kf_readd", "c": consts(MaxClock="5"), "inv": ["Accounting"], "finding": "readd_during_pageout"},
        {"name": "kf_readd_bytes", "c": consts(MaxClock="5"), "inv": ["SegmentPresent", "BytesStable", "ReadsWhatWasWritten"],
         "finding": "readd_during_pageout"},
        {"name": "kf_stale_create", "c": consts(AllowStale="TRUE", MaxClock="4"), "inv": ["ReadsWhatWasWritten", "BytesStable"],
         "finding": "stale_create_evicted_then_readable"},
    ]


def _mc(scratch: Path, run: dict, workers: int) -> dict:
    cfg = tlc.cfg_text(spec=run.get("spec", "Spec"), constants=run["c"], invariants=["TypeOK"] + run["inv"],
                       properties=run.get("props") or None, view="view" if run.get("view") or run.get("spec", "Spec") == "Spec" else None)
    d = tlc.stage(scratch, "mc_" + run["name"], ["Shm", "ShmAcct"], {"MC.tla": run.get("mod", MC_MOD), "MC.cfg": cfg})
    r = tlc.check(d, "MC", workers=workers, coverage=True, timeout=1500, light=False, heap="8g", deadlock=False)
    tlc.require_clean(r, "Shm model checking " + run["name"])
    trace = tlc.parse_error_trace(r.out) if r.violated else []
    return {"name": run["name"], "generated": r.generated, "distinct": r.distinct, "depth": r.depth,
            "violated": r.violated, "coverage": r.coverage, "wall": round(r.wall, 1), "cmd": r.cmd,
            "constants": run["c"], "trace": trace, "raw": r.trace[:6000], "finding": run.get("finding")}


def _simulate(scratch: Path, name: str, c: dict, num: int, depth: int, seed: int, mod: str = MC_MOD, spec: str = "Spec") -> list[Path]:
    cfg = tlc.cfg_text(spec=spec, constants=c)
    d = tlc.stage(scratch, "sim_" + name, ["Shm"], {"MC.tla": mod, "MC.cfg": cfg})
    out = d / "b"
    out.mkdir(exist_ok=True)
    r = tlc.check(d, "MC", workers=1, timeout=900, simulate=f"file={out}/b,num={num}", depth=depth, seed=seed, deadlock=False)
    if "Simulation using seed" not in r.out and "traces generated" not in r.out:
        raise MachineryError(f"TLC simulation failed:\n{r.out[-2000:]}")
    return sorted(out.glob("b_*"))


REPLAY_SNIPPET = r'''
import sys, json, warnings, logging
warnings.filterwarnings("ignore"); logging.disable(logging.CRITICAL)
from harness import tlc
from harness.drive import shm
from pathlib import Path
files, sizes, cap, out = json.load(open(sys.argv[1][1:])) if sys.argv[1].startswith("@") else json.loads(sys.argv[1]), json.loads(sys.argv[2]), int(sys.argv[3]), sys.argv[4]
res = []
for f in files:
    if f.endswith(".json"):        # a TLC counterexample trace stored as JSON (lists stand for tuples)
        def untuple(x):
            if isinstance(x, list): return tuple(untuple(i) for i in x)
            if isinstance(x, dict): return {k: untuple(v) for k, v in x.items()}
            return x
        beh = []
        for lab, st in json.load(open(f)):
            st = untuple(st)
            st["jobs"] = list(st["jobs"]) if not isinstance(st["jobs"], dict) else []
            beh.append((lab, st))
    else:
        beh = tlc.parse_sim_file(Path(f))
    # a store named after a long host name (Executor: "sCasc" + host; here a 19-character fully qualified node name)
    r = shm.replay(beh, sizes, cap, fast_disk="/sim_fast" in f, prefix="sCascnode-1234.cluster01" if "/sim_longname" in f else "t",
                   configured=cap + 3 if "/sim_trimmed" in f else None)
    r["file"] = f
    r["actions"] = [list(map(str, s["last"])) for _, s in beh[1:]]
    r["tainted"] = [sorted(s["tainted"]) for _, s in beh[1:]]
    res.append(r)
if res:
    res[0]["together_runs"] = shm.Driver.together_runs
json.dump(res, open(out, "w"))
'''


MC_PAIR = ('---- MODULE MC ----\nEXTENDS Shm\nMC_Size == [a |-> 1, b |-> 1, c |-> 2]\nVARIABLE prevAct\n'
           'SpecH == Init /\\ prevAct = <<>> /\\ [][Next /\\ prevAct\' = last]_<<vars, prevAct>>\n'
           'NoPair == ~(last[1] = "InDone" /\\ last[3] = "ok" /\\ prevAct # <<>> /\\ prevAct[1] = "InDone" /\\ prevAct[3] = "ok" '
           '/\\ prevAct[2] # last[2])\n====\n')


def _directed_pair_page_in(scratch: Path) -> list[Path]:
    cfg = tlc.cfg_text(spec="SpecH", constants=consts(Cap="2", MaxClock="12", MaxReaders="1"), invariants=["NoPair"])
    d = tlc.stage(scratch, "directed_pairin", ["Shm", "ShmAcct"], {"MC.tla": MC_PAIR, "MC.cfg": cfg})
    r = tlc.check(d, "MC", workers=4, timeout=900, light=False, heap="6g", deadlock=False)
    if "NoPair" not in r.violated:
        raise MachineryError("TLC found no behaviour with two page-ins in a row:\n" + r.out[-1500:])
    trace = tlc.parse_error_trace(r.out)
    f = scratch / "sim_directed_pairin.json"
    f.write_text(json.dumps([[lab, {k: v for k, v in st.items() if k != "prevAct"}] for lab, st in trace], default=_jsonable))
    return [f]


# a page-out written over the page file that an earlier incarnation of the same key left behind (page-in leaves the file in place,
# purge does not remove it), then paged in again: the bytes must be those of the current incarnation
MC_REUSE = ('---- MODULE MC ----\nEXTENDS Shm\nMC_Size == [a |-> 1, b |-> 1, c |-> 2]\nVARIABLE oldf\n'
            'SpecH == Init /\\ oldf = [k \\in Key |-> None] /\\ [][Next /\\ oldf\' = IF last\'[1] = "OutHalf1" /\\ last\'[3] = "ok" '
            'THEN [oldf EXCEPT ![last\'[2]] = file[last\'[2]]] ELSE oldf]_<<vars, oldf>>\n'
            'NoReuse == ~(last[1] = "InDone" /\\ last[3] = "ok" /\\ oldf[last[2]] # None /\\ oldf[last[2]] # file[last[2]])\n====\n')


def _directed_file_reuse(scratch: Path) -> list[Path]:
    cfg = tlc.cfg_text(spec="SpecH", constants=consts(Cap="2", MaxClock="12", MaxReaders="1"), invariants=["NoReuse"])
    d = tlc.stage(scratch, "directed_reuse", ["Shm", "ShmAcct"], {"MC.tla": MC_REUSE, "MC.cfg": cfg})
    r = tlc.check(d, "MC", workers=6, timeout=1500, light=False, heap="6g", deadlock=False)
    if "NoReuse" not in r.violated:
        raise MachineryError("TLC found no behaviour paging a key in after a page-out over a left-behind file:\n" + r.out[-1500:])
    trace = tlc.parse_error_trace(r.out)
    f = scratch / "sim_directed_reuse.json"
    f.write_text(json.dumps([[lab, {k: v for k, v in st.items() if k != "oldf"}] for lab, st in trace], default=_jsonable))
    return [f]


def _replay_files(files: list[Path], sizes: dict, cap: int, out: Path) -> list[dict]:
    p = subprocess.run([sys.executable, "-W", "ignore", "-c", REPLAY_SNIPPET, _listfile([str(f) for f in files]),
                        json.dumps(sizes), str(cap), str(out)], cwd=ROOT, stdout=subprocess.PIPE, stderr=subprocess.STDOUT,
                       text=True, timeout=1800)
    if p.returncode != 0 or not out.exists():
        raise MachineryError(f"replay subprocess failed:\n{p.stdout[-3000:]}")
    return json.loads(out.read_text())


OBS_MOD = r'''---- MODULE ShmObs ----
(* Evaluate the invariants of Shm.tla on every state OBSERVED in the real Manager during replay. *)
EXTENDS Naturals, Sequences, FiniteSets, TLC, Json, IOUtils
Obs == JsonDeserialize(IOEnv.OBS_FILE)     \* sequence of behaviours, each a sequence of observed states
Key == %KEY%
Size == %SIZE%
Cap == %CAP%
SegV(kind, k) == IF kind = "none" THEN <<>> ELSE IF kind = "blank" THEN <<"blank">> ELSE IF kind = "good" THEN <<"v", 1>> ELSE <<"v", 2>>
JobsOf(s) == {[kind |-> s.jobs_full[i][5], k |-> s.jobs_full[i][2], phase |-> s.jobs_full[i][3],
               credit |-> s.jobs_full[i][4]] : i \in DOMAIN s.jobs_full}
I(s) == INSTANCE Shm WITH MaxReaders <- 9, MaxClock <- 99, AllowFail <- TRUE, AllowStale <- TRUE, ReleaseWhenEmpty <- TRUE,
          st <- s.st, fresh <- s.fresh, stale <- s.stale, cstale <- s.cstale, reads <- s.reads,
          ord <- [k \in Key |-> 0], lastRead <- [k \in Key |-> 0], delayed <- s.delayed, clock <- 0,
          free <- s.free, lockAll <- s.lockAll, count <- s.count, jobs <- JobsOf(s),
          seg <- [k \in Key |-> SegV(s.seg[k], k)], file <- [k \in Key |-> SegV(s.file[k], k)],
          content <- [k \in Key |-> 1], tainted <- {},
          last <- IF s.act[1] = "Get" /\ s.got_answer = "ok" THEN <<"Get", s.act[2], "ok", SegV(s.reader_sees, s.act[2])>> ELSE <<"x">>
Bad(s) == (IF I(s)!NoOverdraw THEN {} ELSE {"NoOverdraw"}) \cup (IF I(s)!Accounting THEN {} ELSE {"Accounting"})
     \cup (IF I(s)!FreeNeverNegative THEN {} ELSE {"FreeNeverNegative"})
     \cup (IF I(s)!ReadsWhatWasWritten THEN {} ELSE {"ReadsWhatWasWritten"})
     \cup (IF I(s)!BytesStable THEN {} ELSE {"BytesStable"}) \cup (IF I(s)!SegmentPresent THEN {} ELSE {"SegmentPresent"})
     \cup (IF I(s)!FreshReaderProtected THEN {} ELSE {"FreshReaderProtected"})
     \cup (IF I(s)!LockSane THEN {} ELSE {"LockSane"}) \cup (IF I(s)!CountSane THEN {} ELSE {"CountSane"})
Report == \A b \in DOMAIN Obs : \A i \in DOMAIN Obs[b] :
            LET bad == Bad(Obs[b][i]) IN bad = {} \/ PrintT("B|" \o ToString(b) \o "|" \o ToString(i) \o "|" \o ToString(bad))
VARIABLE dummy
Init == dummy = 0
Next == UNCHANGED dummy
Inv == Report
====
'''


def _eval_observed(scratch: Path, observed: list[list[dict]], keys: dict, cap: int, tag: str) -> list[tuple[int, int, set]]:
    d = scratch / f"obs_{tag}"
    d.mkdir(parents=True, exist_ok=True)
    import shutil
    shutil.copy(ROOT / "spec" / "Shm.tla", d / "Shm.tla")
    mod = OBS_MOD.replace("%KEY%", tlc.tla(set(keys))).replace("%SIZE%", tlc.tla(tlc.Fun(keys))).replace("%CAP%", str(cap))
    (d / "ShmObs.tla").write_text(mod)
    (d / "ShmObs.cfg").write_text("INIT Init\nNEXT Next\nINVARIANT Inv\n")
    (d / "obs.json").write_text(json.dumps(observed))
    r = tlc.check(d, "ShmObs", workers=1, timeout=900, env={"OBS_FILE": str(d / "obs.json")}, deadlock=False)
    tlc.require_clean(r, "evaluation of invariants on observed states")
    out = []
    import re
    for line in r.out.splitlines():
        m = re.match(r'^"B\|(\d+)\|(\d+)\|(.*)"$', line)
        if m:
            out.append((int(m.group(1)), int(m.group(2)), set(re.findall(r'\\"(\w+)\\"', m.group(3)))))
    return out


def _key() -> str:
    h = hashlib.sha256()
    h.update(repo_hash("cascade/shm").encode())
    for f in [ROOT / "spec" / "Shm.tla", ROOT / "spec" / "ShmAcct.tla", ROOT / "harness" / "shm_engine.py", ROOT / "harness" / "drive" / "shm.py",
              ROOT / "harness" / "tlc.py"]:
        h.update(f.read_bytes())
    return h.hexdigest()[:20]


def run_engine(ctx: Ctx) -> dict:
    cache = ROOT / ".cache"
    cf = cache / f"shm_{_key()}_{ctx.tier}_{ctx.seed}.json"
    if cf.exists() and not os.environ.get("VERIF_NO_CACHE"):
        ctx.log("shm engine: using cached result")
        return json.loads(cf.read_text())
    t0 = time.time()
    scratch = ctx.scratch / "shm"
    scratch.mkdir(exist_ok=True)
    res: dict = {}
    runs = configs(ctx.quick) + known_pattern_runs()
    with ThreadPoolExecutor(max_workers=3) as tp:
        res["mc"] = list(tp.map(lambda r: _mc(scratch, r, 4), runs))
    ctx.log(f"shm engine: {len(runs)} TLC runs in {time.time()-t0:.0f}s")
    # behaviours to replay: simulation under the richest constants + the counterexamples of the known patterns
    t1 = time.time()
    num = 400 if ctx.quick else 3000
    sims = []
    sims += [(f, KEYS, CAP) for f in _simulate(scratch, "rich", consts(AllowFail="TRUE", AllowStale="TRUE", MaxClock="30",
                                                                        MaxReaders="3"), num, 40, ctx.seed + 11)]
    sims += [(f, KEYS, CAP) for f in _simulate(scratch, "plain", consts(MaxClock="30"), num, 30, ctx.seed + 12)]
    sims += [(f, {"a": 1, "b": 2}, 2) for f in
             _simulate(scratch, "two", consts(Key='{"a", "b"}', Cap="2", MaxClock="40", AllowFail="TRUE", AllowStale="TRUE"),
                       num // 2, 50, ctx.seed + 13, MC_MOD2)]
    # the "fast disk" schedule: page-out jobs run to their end inside the submit (Shm!FastDiskSpec)
    sims += [(f, KEYS, CAP) for f in _simulate(scratch, "fast", consts(AllowStale="TRUE", MaxClock="30", MaxReaders="3"), num // 2, 40,
                                               ctx.seed + 14, spec="FastDiskSpec")]
    # directed behaviour: TLC's shortest path to two successful page-ins of different keys in a row (the replay runs them as
    # concurrent jobs whose reads interleave chunk by chunk, as the 4-thread reader pool may)
    sims += [(f, {"a": 1, "b": 1, "c": 2}, 2) for f in _directed_pair_page_in(scratch)]
    sims += [(f, {"a": 1, "b": 1, "c": 2}, 2) for f in _directed_file_reuse(scratch)]
    # a store configured with more capacity than /dev/shm offers works with what there is (the model's Cap)
    sims += [(f, KEYS, CAP) for f in _simulate(scratch, "trimmed", consts(MaxClock="30"), max(num // 4, 50), 30, ctx.seed + 16)]
    sims += [(f, KEYS, CAP) for f in _simulate(scratch, "longname", consts(MaxClock="30"), max(num // 4, 50), 30, ctx.seed + 15)]
    groups: dict[tuple, list[Path]] = {}
    for f, sizes, cap in sims:
        groups.setdefault((json.dumps(sizes, sort_keys=True), cap), []).append(f)
    replays = []
    for gi, ((sz, cap), files) in enumerate(groups.items()):
        sizes = json.loads(sz)
        out = scratch / f"replay_{gi}.json"
        rr = _replay_files(files, sizes, cap, out)
        bad = _eval_observed(scratch, [r["observed"] for r in rr], sizes, cap, str(gi))
        for b, i, names in bad:
            rr[b - 1].setdefault("observed_violations", []).append({"step": i, "invariants": sorted(names)})
        for r in rr:
            r["sizes"], r["cap"] = sizes, cap
        replays += rr
    # counterexamples of the known patterns, replayed into the real code
    kf = []
    for m in res["mc"]:
        if m.get("finding"):
            entry = {"finding": m["finding"], "reached": bool(m["violated"]), "violated": m["violated"], "confirmed_on_code": False}
            if m["violated"] and m["trace"]:
                f = scratch / f"kf_{m['name']}.json"
                f.write_text(json.dumps([[lab, st] for lab, st in m["trace"]], default=_jsonable))
                beh = [(lab, st) for lab, st in m["trace"]]
                from .drive import shm as shmdrive  # noqa
                p = subprocess.run([sys.executable, "-W", "ignore", "-c", KF_SNIPPET, str(f), json.dumps(KEYS), str(CAP)],
                                   cwd=ROOT, stdout=subprocess.PIPE, stderr=subprocess.STDOUT, text=True, timeout=300)
                try:
                    rr = json.loads(p.stdout.strip().splitlines()[-1])
                except Exception:
                    raise MachineryError("known-finding replay failed: " + p.stdout[-2000:])
                entry["replay_mismatch"] = rr["mismatch"]
                obs_bad = _eval_observed(scratch, [rr["observed"]], KEYS, CAP, "kf_" + m["name"])
                entry["observed_violations"] = [sorted(n) for _, _, n in obs_bad]
                entry["confirmed_on_code"] = rr["mismatch"] is None and bool(obs_bad)
                entry["actions"] = rr["actions"]
            kf.append(entry)
    res["known"] = kf
    for m in res["mc"]:
        m["trace"] = [[lab, _strip(st)] for lab, st in m["trace"]][:40]
    res["replays"] = [{k: v for k, v in r.items() if k != "observed"} for r in replays]
    res["replay_steps"] = sum(r["steps"] for r in replays)
    res["concurrent_page_in_runs"] = sum(r.get("together_runs", 0) for r in replays)
    res["sample"] = replays[0]["actions"][:12] if replays else []
    res["wall"] = round(time.time() - t0, 1)
    ctx.log(f"shm engine: {len(replays)} behaviours ({res['replay_steps']} steps) replayed into the real Manager in {time.time()-t1:.0f}s")
    cache.mkdir(exist_ok=True)
    cf.write_text(json.dumps(res, default=_jsonable))
    return res


KF_SNIPPET = r'''
import sys, json, warnings, logging
warnings.filterwarnings("ignore"); logging.disable(logging.CRITICAL)
from harness import tlc
from harness.drive import shm
def untuple(x):
    if isinstance(x, list): return tuple(untuple(i) for i in x)
    if isinstance(x, dict): return {k: untuple(v) for k, v in x.items()}
    return x
raw = json.load(open(sys.argv[1]))
beh = []
for lab, st in raw:
    st = untuple(st)
    st["jobs"] = list(st["jobs"]) if not isinstance(st["jobs"], dict) else []
    beh.append((lab, st))
r = shm.replay(beh, json.loads(sys.argv[2]), int(sys.argv[3]))
r["actions"] = [list(map(str, s["last"])) for _, s in beh[1:]]
print(json.dumps(r))
'''


def _jsonable(o):
    if isinstance(o, (set, frozenset)):
        return sorted(o, key=str)
    if isinstance(o, tuple):
        return list(o)
    return str(o)


def _strip(st: dict) -> dict:
    return {k: v for k, v in st.items() if k in ("st", "free", "lockAll", "count", "last", "jobs", "seg", "tainted")}


def report(ctx: Ctx, pid: str) -> None:
    res = run_engine(ctx)
    mine = set(C08_INV if pid == "C08" else C09_INV if pid == "C09" else [])
    main_runs = [m for m in res["mc"] if not m.get("finding")]
    ctx.coverage.update({
        "states": sum(m["distinct"] for m in main_runs), "transitions": sum(m["generated"] for m in main_runs),
        "model_runs": [{"name": m["name"], "distinct": m["distinct"], "depth": m["depth"], "constants": m["constants"]}
                       for m in res["mc"]],
        "traces_validated_against_impl": len(res["replays"]), "replayed_steps": res["replay_steps"],
        "invariants": sorted(mine), "engine_wall_s": res["wall"], "concurrent_page_in_runs": res.get("concurrent_page_in_runs", 0),
        "rule": "TLC exhausts spec/Shm.tla for the listed constants (3 keys, sizes 2/2/3, capacity 4, <=2 readers, bounded "
                "clock; 2 keys deeper); TLC -simulate behaviours are stepped through the real Manager + real Disk code "
                "(fake segments/clock, page-out jobs stopped at the pageout_one lock) with equality of status, free "
                "space, lock, counters, reader counts, jobs, segment and file contents and the returned answer after "
                "every step; Shm.tla's invariants are evaluated by TLC on every state observed in the real object",
    })
    cov: dict[str, int] = {}
    for m in main_runs:
        for a, n in m["coverage"].items():
            cov[a] = cov.get(a, 0) + n
    ctx.coverage["action_coverage"] = {a: n for a, n in sorted(cov.items()) if a in
                                       ("Add", "CloseWrite", "Get", "CloseRead", "Purge", "GoStale", "OutHalf1", "OutHalf2", "InDone")}
    ctx.sample({"replayed_behaviour_actions": res["sample"]})
    # 1. the model (outside the recorded known patterns)
    for m in main_runs:
        for v in m["violated"]:
            base = v[:-1] if v.endswith("U") else v
            if PROP_OF_INV.get(base) == pid or (v in ("Temporal", "Deadlock") and pid == "C09"):
                ctx.violate(f"model:{base}", f"TLC: {base} violated in run '{m['name']}' of spec/Shm.tla",
                            {"run": m["name"], "constants": m["constants"], "trace": m["trace"], "tlc": m["raw"]}, clause=base)
    # 2. conformance of the real Manager + invariants on observed states
    for r in res["replays"]:
        mm = r.get("mismatch")
        if mm:
            if "harness_error" in mm:
                raise MachineryError(f"replay harness error at {mm}")
            fields = set(mm["diffs"])
            early = "answer" in mm["diffs"] and mm["diffs"]["answer"][0] in ("wait", "capacity exceeded", "conflict") \
                and mm["diffs"]["answer"][1] == "ok"
            # attribution: an early grant or a pure free_space difference speaks about C08 (accounting/admission);
            # any other deviation of the status machine, readers, locks or bytes speaks about C09
            props = {"C08"} if (early or fields == {"free"}) else {"C09"}
            # the real store began to page out a dataset whose page-IN is still in flight: the space reserved for it is handed
            # out a second time once both jobs have completed (capacity overcommitted) - that speaks about C08 as well
            st_d = mm["diffs"].get("st")
            if st_d and any(st_d[0].get(k) == "paged_in" and st_d[1].get(k) == "paging_out" for k in st_d[0]):
                props.add("C08")
            if mm["action"][0] == "AtExit":
                props = {"C05"}          # teardown: "leave no shared-memory segments behind"
            if pid in props:
                act = mm["action"][0]
                ctx.violate(f"conformance:{act}:" + "+".join(sorted(fields)),
                            f"real Manager deviates from spec/Shm.tla at step {mm['step']} ({mm['action']}): {mm['diffs']}",
                            {"behaviour_actions": r["actions"][: mm["step"]], "mismatch": mm, "sizes": r["sizes"], "cap": r["cap"]},
                            clause="+".join(sorted(fields)))
        for ov in r.get("observed_violations", []):
            names = [n for n in ov["invariants"] if PROP_OF_INV.get(n) == pid]
            # observed states inside a recorded known pattern are reported through `known` below
            if names and not r["tainted"][ov["step"] - 1]:
                ctx.violate("observed:" + "+".join(names), f"real Manager state violates {names} at step {ov['step']}",
                            {"behaviour_actions": r["actions"][: ov["step"]], "sizes": r["sizes"], "cap": r["cap"]},
                            clause="+".join(names))
    # 3. recorded known findings: still reachable in the model AND reproduced on the real code?
    for k in (res["known"] if pid in ("C08", "C09") else []):
        invs = [v for v in k["violated"] if PROP_OF_INV.get(v) == pid]
        if invs and k["reached"] and k["confirmed_on_code"]:
            ctx.violate(k["finding"], f"{k['finding']}: {invs} violated; TLC counterexample reproduced step by step on the real Manager",
                        {"actions": k.get("actions"), "observed_violations": k.get("observed_violations")}, clause=",".join(invs))
    ctx.assumptions += [
        "CPython executes the unlocked integer updates of Manager atomically (GIL); the only modelled concurrency is the "
        "server thread running between a page-out callback's status update and its locked accounting",
        "segments and the clock are harness fakes; Disk._page_out/_page_in are the real code",
        "bounds: 3 keys (sizes 2,2,3; capacity 4) and 2 keys (sizes 1,2; capacity 2), <= 3 readers per key, bounded clock",
    ]
