"""./check <Cxx> [--tier quick|thorough] [--replay path]"""
from __future__ import annotations

import argparse
import contextlib
import importlib
import json
import os
import sys
import traceback

from .common import Ctx, MachineryError, finish, make_scratch

LEVEL = {
    "C01": "model_checking", "C02": "model_checking", "C03": "model_checking", "C04": "model_checking",
    "C05": "model_checking", "C06": "model_checking", "C07": "model_checking", "C08": "model_checking",
    "C09": "model_checking", "C18": "model_checking",
    "C10": "model_checking", "C11": "model_checking", "C12": "model_checking", "C13": "model_checking",
    "C14": "model_checking", "C15": "model_checking", "C16": "model_checking", "C17": "model_checking",
    "C19": "model_checking",
}


def main() -> int:
    ap = argparse.ArgumentParser()
    ap.add_argument("pid")
    ap.add_argument("--tier", default=os.environ.get("VERIF_TIER", "quick"), choices=["quick", "thorough"])
    ap.add_argument("--replay", default=None)
    ap.add_argument("--seed", type=int, default=int(os.environ.get("VERIF_SEED", "0") or 0))
    a = ap.parse_args()
    pid = a.pid.upper()
    if pid not in LEVEL:
        print(f"unknown property {pid}", file=sys.stderr)
        return 2
    ctx = Ctx(pid=pid, tier=a.tier, seed=a.seed, scratch=make_scratch())
    try:
        mod = importlib.import_module(f"harness.props.{pid.lower()}")
        if a.replay:
            rep = json.loads(open(a.replay).read())
            if hasattr(mod, "replay"):
                return mod.replay(ctx, rep)
            # generic replay: re-run the check and report whether the recorded violation key is reproduced
            with contextlib.redirect_stdout(sys.stderr):
                mod.run(ctx)
            hit = [v for v in ctx.violations if v.key == rep.get("key")]
            print(f"REPLAY property={pid} key={rep.get('key')} reproduced={'yes' if hit else 'no'}")
            if hit:
                print(f"VIOLATION property={pid} replay={a.replay}")
            return 1 if hit else 0
        with contextlib.redirect_stdout(sys.stderr):      # code under test may print; stdout carries verdict lines only
            mod.run(ctx)
        return finish(ctx, getattr(mod, "LEVEL", LEVEL[pid]))
    except MachineryError as e:
        print(f"MACHINERY-FAILURE property={pid}: {e}", file=sys.stderr)
        return 2
    except Exception:
        traceback.print_exc()
        print(f"MACHINERY-FAILURE property={pid}: unhandled exception in harness", file=sys.stderr)
        return 2


if __name__ == "__main__":
    sys.exit(main())
