"""Shared plumbing of the /verif driver: run context, evidence files, known findings, verdicts.

Conventions (see DESIGN.md §2.4, §6):
  exit 0  property held on everything explored (KNOWN-FINDING lines allowed)
  exit 1  at least one violation not listed in known_findings.json -> "VIOLATION property=<id> replay=<path>"
  exit 2  machinery failure (TLC parse error, harness exception outside the code under test)
"""
from __future__ import annotations

import atexit
import json
import os
import shutil
import sys
import tempfile
import time
from dataclasses import dataclass, field
from pathlib import Path
from typing import Any

ROOT = Path(__file__).resolve().parent.parent
SPEC = ROOT / "spec"
EVIDENCE = ROOT / "evidence"
REPLAYS = ROOT / "replays"
REPO = Path(os.environ.get("VERIF_REPO", "/repo"))
REPO_SRC = REPO / "src"
KNOWN_FILE = ROOT / "known_findings.json"
NCPU = int(os.environ.get("VERIF_CPUS", os.cpu_count() or 4))


class MachineryError(Exception):
    """Something in the verification machinery itself failed (never a verdict)."""


@dataclass
class Violation:
    """One discrepancy between the code and a property.

    key      stable identifier of *what* fails (specific input, call site or history class); this is
             what known_findings.json is matched on, so it must be narrow.
    what     one-line human description
    replay   artefact (trace, input, behaviour) written under /verif/replays/<id>/
    """

    key: str
    what: str
    replay: dict | list | str | None = None
    clause: str = ""


@dataclass
class Ctx:
    pid: str
    tier: str
    seed: int
    scratch: Path
    t0: float = field(default_factory=time.time)
    violations: list[Violation] = field(default_factory=list)
    coverage: dict[str, Any] = field(default_factory=dict)
    assumptions: list[str] = field(default_factory=list)
    notes: list[str] = field(default_factory=list)

    @property
    def quick(self) -> bool:
        return self.tier == "quick"

    def violate(self, key: str, what: str, replay=None, clause: str = "") -> None:
        # keep one representative per key (first seen), count the rest
        for v in self.violations:
            if v.key == key:
                self.coverage.setdefault("violation_counts", {})
                self.coverage["violation_counts"][key] = self.coverage["violation_counts"].get(key, 1) + 1
                return
        self.violations.append(Violation(key, what, replay, clause))

    def add(self, name: str, n: int = 1) -> None:
        self.coverage[name] = self.coverage.get(name, 0) + n

    def sample(self, s: Any, cap: int = 6) -> None:
        lst = self.coverage.setdefault("samples", [])
        if len(lst) < cap:
            lst.append(s)

    def log(self, *a: Any) -> None:
        print("[%s %6.1fs]" % (self.pid, time.time() - self.t0), *a, file=sys.stderr, flush=True)


def make_scratch() -> Path:
    base = os.environ.get("VERIF_SCRATCH_BASE") or tempfile.gettempdir()
    d = Path(tempfile.mkdtemp(prefix="verif-", dir=base))
    atexit.register(lambda: shutil.rmtree(d, ignore_errors=True))
    return d


def load_known() -> dict:
    if not KNOWN_FILE.exists():
        return {"findings": [], "fixed": []}
    return json.loads(KNOWN_FILE.read_text())


def finish(ctx: Ctx, level: str) -> int:
    """Classify violations against known findings, write the evidence file, print verdict lines."""
    known = load_known()
    open_keys = {f["key"]: f for f in known.get("findings", []) if f.get("property") == ctx.pid}
    new: list[Violation] = []
    hit_known: list[Violation] = []
    for v in ctx.violations:
        (hit_known if v.key in open_keys else new).append(v)
    rdir = REPLAYS / ctx.pid
    lines = []
    for v in hit_known:
        lines.append(f"KNOWN-FINDING: property={ctx.pid} {v.key}: {open_keys[v.key].get('what', v.what)}")
    for i, v in enumerate(new):
        rdir.mkdir(parents=True, exist_ok=True)
        safe = "".join(c if c.isalnum() or c in "-_." else "_" for c in v.key)[:80]
        path = rdir / f"{safe}.json"
        path.write_text(json.dumps({"property": ctx.pid, "key": v.key, "what": v.what, "clause": v.clause,
                                    "tier": ctx.tier, "seed": ctx.seed, "replay": v.replay}, indent=1, default=str))
        lines.append(f"VIOLATION property={ctx.pid} replay={path}")
        print(f"  {v.key}: {v.what}" + (f" [clause {v.clause}]" if v.clause else ""), flush=True)
    cov = dict(ctx.coverage)
    cov.setdefault("samples", [])
    if not cov["samples"]:
        cov["samples"] = ["(no sample recorded)"]
    cov["known_findings_reproduced"] = [v.key for v in hit_known]
    cov["new_violations"] = [v.key for v in new]
    if ctx.notes:
        cov["notes"] = ctx.notes
    ev = {
        "property_id": ctx.pid,
        "tier": ctx.tier,
        "seed": ctx.seed,
        "level": level,
        "coverage": cov,
        "assumptions": ctx.assumptions,
        "wall_s": round(time.time() - ctx.t0, 2),
        "violations": len(new),
    }
    if not os.environ.get("VERIF_NO_EVIDENCE"):      # development aid (mutant runs must not overwrite evidence)
        EVIDENCE.mkdir(exist_ok=True)
        (EVIDENCE / f"{ctx.pid}.json").write_text(json.dumps(ev, indent=1, default=str) + "\n")
    for l in lines:
        print(l, flush=True)
    if not new:
        print(f"OK property={ctx.pid} tier={ctx.tier} wall={ev['wall_s']}s "
              f"known={len(hit_known)}", flush=True)
    return 1 if new else 0


def repo_hash(*rel: str) -> str:
    """Hash of the given files/dirs under /repo/src (for cache keys; checks never trust a stale cache)."""
    import hashlib

    h = hashlib.sha256()
    for r in rel:
        p = REPO_SRC / r
        files = sorted(p.rglob("*.py")) if p.is_dir() else [p]
        for f in files:
            h.update(str(f).encode())
            h.update(f.read_bytes())
    return h.hexdigest()[:16]


class CaseTimeout(Exception):
    pass


def guarded(fn, seconds: float = 2.0):
    """Run fn() under interval timers: code under test that loops forever becomes a CaseTimeout, not a hung check.
    `seconds` is CPU time of this process (a loaded machine that stalls the process is not a hang of the code under test);
    a wall-clock limit of 15 x seconds (at least 30 s) catches code that blocks without computing."""
    import signal

    def _raise(*a):
        raise CaseTimeout(f"no result within {seconds}s of CPU time / {max(30.0, 15 * seconds)}s of wall time")

    # ... and code that allocates without end meets a MemoryError (address space of this process: what it has now + 4 GiB)
    import resource
    soft, hard = resource.getrlimit(resource.RLIMIT_AS)
    try:
        now = int(open("/proc/self/statm").read().split()[0]) * os.sysconf("SC_PAGE_SIZE")
        cap = now + 4 * 2**30
        if hard != resource.RLIM_INFINITY:
            cap = min(cap, hard)
        if soft == resource.RLIM_INFINITY or cap < soft:
            resource.setrlimit(resource.RLIMIT_AS, (cap, hard))
    except (OSError, ValueError):
        pass
    old = signal.signal(signal.SIGALRM, _raise)
    oldp = signal.signal(signal.SIGPROF, _raise)
    signal.setitimer(signal.ITIMER_REAL, max(30.0, 15 * seconds))
    signal.setitimer(signal.ITIMER_PROF, seconds)
    try:
        return fn()
    finally:
        signal.setitimer(signal.ITIMER_PROF, 0)
        signal.setitimer(signal.ITIMER_REAL, 0)
        signal.signal(signal.SIGPROF, oldp)
        signal.signal(signal.SIGALRM, old)
        try:
            resource.setrlimit(resource.RLIMIT_AS, (soft, hard))
        except (OSError, ValueError):
            pass
