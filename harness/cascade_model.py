"""Model instances of spec/Cascade.tla: job shape x cluster x requested outputs, rendered as literal constants."""
from __future__ import annotations

import itertools
from dataclasses import dataclass, field

from .tlc import Fun, tla


@dataclass
class Instance:
    name: str
    outs: dict[str, list[str]]                 # task -> output names (sorted)
    edges: list[tuple[str, str, str]]          # (src task, src output, sink task)
    hosts: dict[str, list[str]]                # host -> worker names (full ids "h0.w0")
    ext: list[tuple[str, str]]                 # requested outputs
    gpu_workers: list[str] = field(default_factory=list)
    gpu_tasks: list[str] = field(default_factory=list)
    kw: dict[tuple[str, str, str], str | int] | None = None   # optional: how each edge binds (harness only)
    trace_only: bool = False                   # too large to model-check in the quick tier: recorded executions only
    dup_edges: list = field(default_factory=list)   # (src task, output, sink): the sink reads that dataset through a SECOND parameter too
    few: int = 0                               # > 0: a large instance, only this many recorded executions (one hash seed, no order enumeration)

    @property
    def tasks(self) -> list[str]:
        return sorted(self.outs)

    def components(self) -> dict[str, str]:
        """Weakly connected components by union-find (independent of the repository's precompute)."""
        parent = {t: t for t in self.outs}

        def find(a):
            while parent[a] != a:
                parent[a] = parent[parent[a]]
                a = parent[a]
            return a

        for s, _, d in self.edges:
            parent[find(s)] = find(d)
        groups: dict[str, list[str]] = {}
        for t in self.outs:
            groups.setdefault(find(t), []).append(t)
        # number them heaviest first, ties by smallest task name (the code's order may differ among ties;
        # the trace harness passes the code's own numbering instead)
        order = sorted(groups.values(), key=lambda g: (-len(g), min(g)))
        return {t: str(i) for i, g in enumerate(order) for t in g}

    def constants(self, comp_of: dict[str, str] | None = None, refetch: bool = False) -> dict[str, str]:
        comp = comp_of or self.components()
        return {
            "Task": tla(set(self.outs)) if self.outs else "{}",
            "Outs": tla(Fun({t: list(o) for t, o in self.outs.items()})) if self.outs else "<<>>",
            "Edges": "{" + ", ".join(f"<<<<{tla(s)}, {tla(o)}>>, {tla(d)}>>" for s, o, d in sorted(set(self.edges))) + "}",
            "Host": tla(set(self.hosts)),
            "WorkersOf": tla(Fun({h: set(ws) for h, ws in self.hosts.items()})),
            "GpuWorkers": tla(set(self.gpu_workers)) if self.gpu_workers else "{}",
            "GpuTasks": tla(set(self.gpu_tasks)) if self.gpu_tasks else "{}",
            "Ext": "{" + ", ".join(f"<<{tla(t)}, {tla(o)}>>" for t, o in sorted(set(self.ext))) + "}",
            "CompOf": tla(Fun(comp)) if comp else "<<>>",
            "Refetch": tla(refetch),
        }


def mc_module(name: str, base: str, consts: dict[str, str]) -> tuple[str, dict[str, str]]:
    """Module text defining MC_<const> operators + the cfg substitution map."""
    lines = [f"---- MODULE {name} ----", f"EXTENDS {base}"]
    sub = {}
    for k, v in consts.items():
        lines.append(f"MC_{k} == {v}")
        sub[k] = f"<- MC_{k}"
    lines.append("====")
    return "\n".join(lines) + "\n", sub


def cluster(nh: int, nw: int) -> dict[str, list[str]]:
    return {f"h{i}": [f"h{i}.w{j}" for j in range(nw)] for i in range(nh)}


def cluster_of(sizes: list[int]) -> dict[str, list[str]]:
    """hosts with different numbers of workers"""
    return {f"h{i}": [f"h{i}.w{j}" for j in range(n)] for i, n in enumerate(sizes)}


def shapes() -> dict[str, tuple[dict, list]]:
    """Named job shapes: (outs, edges)."""
    one = ["0"]
    S: dict[str, tuple[dict, list]] = {}
    S["empty"] = ({}, [])
    S["single"] = ({"a": one}, [])
    S["chain2"] = ({"a": one, "b": one}, [("a", "0", "b")])
    S["chain3"] = ({"a": one, "b": one, "c": one}, [("a", "0", "b"), ("b", "0", "c")])
    S["fanout"] = ({"s": one, "m1": one, "m2": one}, [("s", "0", "m1"), ("s", "0", "m2")])
    S["fanin"] = ({"a": one, "b": one, "k": one}, [("a", "0", "k"), ("b", "0", "k")])
    S["diamond"] = ({"s": one, "m1": one, "m2": one, "k": one},
                    [("s", "0", "m1"), ("s", "0", "m2"), ("m1", "0", "k"), ("m2", "0", "k")])
    S["twocomp"] = ({"a": one, "b": one, "p": one}, [("a", "0", "b")])
    S["threecomp"] = ({"a": one, "b": one, "p": one, "q": one}, [("a", "0", "b")])
    S["multiout"] = ({"g": ["0", "1"], "u": one, "v": one}, [("g", "0", "u"), ("g", "1", "v")])
    S["multiout_join"] = ({"g": ["0", "1"], "u": one}, [("g", "0", "u"), ("g", "1", "u")])
    S["isolated2"] = ({"a": one, "b": one}, [])
    S["vee"] = ({"a": one, "b": one, "c": one, "k": one}, [("a", "0", "k"), ("b", "0", "k"), ("c", "0", "k")])
    twelve = sorted(str(i) for i in range(12))        # key-sorted: "0", "1", "10", "11", "2", ...
    S["manyout"] = ({"g": twelve, "u": one, "v": one, "w": one}, [("g", "9", "u"), ("g", "11", "u"), ("g", "0", "v"), ("g", "10", "w")])
    S["manyin"] = ({"s": one, "g": twelve, "m": one, "u": one}, [("s", "0", "g"), ("s", "0", "m"), ("g", "9", "u")])
    S["gpumix"] = ({"g": one, "c1": one, "c2": one, "k": one}, [("g", "0", "k"), ("c1", "0", "k"), ("c2", "0", "k")])
    # several GPU tasks become computable together while a GPU worker and its GPU-less neighbour are both idle
    S["gpufan"] = ({"s": one, "g1": one, "g2": one, "g3": one, "k": one},
                   [("s", "0", "g1"), ("s", "0", "g2"), ("s", "0", "g3"), ("g1", "0", "k"), ("g2", "0", "k"), ("g3", "0", "k")])
    S["gpusrc2"] = ({"g1": one, "g2": one, "c1": one, "k": one}, [("g1", "0", "k"), ("g2", "0", "k"), ("c1", "0", "k")])
    # two components: a small one whose host migrates while one of its workers is still busy, and one with a backlog of computable tasks
    S["fanvee"] = ({"s": one, "m1": one, "m2": one, "a": one, "b": one, "c": one, "k": one},
                   [("s", "0", "m1"), ("s", "0", "m2"), ("a", "0", "k"), ("b", "0", "k"), ("c", "0", "k")])
    S["twofan"] = ({"s": one, "m1": one, "m2": one, "p": one, "q1": one, "q2": one, "q3": one, "q4": one, "q5": one},
                   [("s", "0", "m1"), ("s", "0", "m2")] + [("p", "0", f"q{i}") for i in range(1, 6)])
    # dataset names whose plain concatenation coincides: ("g1", "0") and ("g", "10")
    S["collide"] = ({"g": twelve, "g1": one, "u": one}, [("g", "10", "u"), ("g1", "0", "u")])
    # ... and names with dots whose "task.output" strings coincide: ("st", "mean.0") and ("st.mean", "0")
    S["collide_dots"] = ({"st": ["mean.0"], "st.mean": one, "u": one}, [("st", "mean.0", "u"), ("st.mean", "0", "u")])
    # more computable tasks and idle workers in one round than any per-round limit a controller might have (34 > 32)
    S["wide34"] = ({"s": one, **{f"m{i:02d}": one for i in range(34)}}, [("s", "0", f"m{i:02d}") for i in range(34)])
    # a component with an undirected cycle next to another component, on fewer hosts than components
    S["ladder_plus"] = ({"a": one, "b": one, "c": one, "d": one, "p": one, "q": one},
                        [("a", "0", "b"), ("a", "0", "c"), ("b", "0", "d"), ("c", "0", "d"), ("a", "0", "d"), ("p", "0", "q")])
    S["fanout4"] = ({"s": one, "m1": one, "m2": one, "m3": one, "m4": one}, [("s", "0", "m1"), ("s", "0", "m2"), ("s", "0", "m3"), ("s", "0", "m4")])
    S["multiout3"] = ({"g": ["0", "1", "2"], "u": one, "v": one}, [("g", "0", "u"), ("g", "2", "u"), ("g", "1", "v")])
    S["sixtasks"] = ({"a": one, "b": one, "c": one, "d": one, "p": one, "q": one},
                     [("a", "0", "b"), ("a", "0", "c"), ("b", "0", "d"), ("c", "0", "d"), ("p", "0", "q")])
    S["ladder"] = ({"a": one, "b": one, "c": one, "d": one},
                   [("a", "0", "b"), ("a", "0", "c"), ("b", "0", "d"), ("c", "0", "d"), ("a", "0", "d")])
    return S


def sinks(outs, edges):
    nons = {(s, o) for s, o, _ in edges}
    return [(t, o) for t in outs for o in outs[t] if (t, o) not in nons]


def quick_instances() -> list[Instance]:
    S = shapes()
    I: list[Instance] = []

    def add(shape, nh, nw, ext, tag, **kw):
        outs, edges = S[shape]
        I.append(Instance(f"{shape}_{nh}x{nw}_{tag}", outs, edges, cluster(nh, nw), ext, **kw))

    add("empty", 1, 1, [], "none")
    add("single", 1, 1, [("a", "0")], "sink")
    add("chain2", 2, 1, [("b", "0")], "sink")
    add("chain2", 2, 1, [("a", "0"), ("b", "0")], "all")
    add("fanout", 2, 1, [("m1", "0"), ("m2", "0")], "sinks")
    add("fanin", 2, 1, [("k", "0")], "sink")
    add("diamond", 2, 1, [("k", "0")], "sink")
    add("diamond", 2, 1, [("s", "0"), ("k", "0")], "src_sink")
    add("diamond", 1, 2, [("k", "0")], "sink")
    add("twocomp", 1, 1, [("b", "0"), ("p", "0")], "sinks")
    add("twocomp", 2, 1, [("b", "0")], "one")
    add("threecomp", 2, 1, [], "none")
    add("multiout", 2, 1, [("u", "0"), ("v", "0")], "sinks")
    add("multiout_join", 2, 1, [("g", "0"), ("u", "0")], "mid_sink")
    add("fanin", 2, 1, [("k", "0")], "gpu", gpu_workers=["h1.w0"], gpu_tasks=["k"])
    add("twocomp", 2, 1, [("b", "0"), ("p", "0")], "gpu", gpu_workers=["h1.w0"], gpu_tasks=["p"])
    # a GPU source next to more CPU sources than CPU-only workers (the GPU worker must not be offered twice in one round)
    add("gpumix", 1, 2, [("k", "0")], "gpu", gpu_workers=["h0.w1"], gpu_tasks=["g"])
    # a task that reads one upstream dataset through two parameters
    add("chain2", 1, 1, [("b", "0")], "dup", dup_edges=[("a", "0", "b")])
    I.append(Instance("diamond_2x1_dup", S["diamond"][0], S["diamond"][1], cluster(2, 1), [("k", "0")], dup_edges=[("s", "0", "m1"), ("m2", "0", "k")]))
    # larger shapes and clusters: recorded executions (and every delivery order) only
    for shape, nh, nw, ext, tag in [("diamond", 2, 2, [("s", "0"), ("k", "0")], "src_sink"), ("fanout", 2, 2, [("m1", "0"), ("m2", "0")], "sinks"),
                                    ("ladder", 2, 1, [("a", "0"), ("d", "0")], "src_sink"), ("vee", 3, 1, [("k", "0")], "sink"),
                                    ("threecomp", 3, 1, [("b", "0"), ("q", "0")], "two"), ("multiout3", 2, 1, [("g", "1"), ("u", "0")], "mid_sink"),
                                    ("sixtasks", 2, 2, [("a", "0"), ("d", "0"), ("q", "0")], "src_sinks"),
                                    ("fanout4", 2, 2, [("m1", "0"), ("m2", "0"), ("m3", "0"), ("m4", "0")], "sinks"),
                                    ("gpumix", 2, 2, [("k", "0")], "gpu"),
                                    # a REQUESTED dataset with more consumers than its host has workers: fetched for the caller and
                                    # replicated to the other host at the same time (either answer may come first)
                                    ("fanout4", 2, 2, [("s", "0"), ("m1", "0")], "src_sink"),
                                    ("manyout", 2, 1, [("u", "0"), ("v", "0"), ("w", "0"), ("g", "11")], "sinks_mid"),
                                    ("manyout", 1, 2, [("u", "0"), ("v", "0"), ("w", "0")], "sinks"),
                                    ("manyin", 2, 1, [("u", "0"), ("m", "0")], "sinks"), ("manyin", 1, 2, [("u", "0"), ("m", "0")], "sinks")]:
        outs, edges = S[shape]
        extra = {"gpu_workers": ["h1.w1"], "gpu_tasks": ["g"]} if shape == "gpumix" else {}
        I.append(Instance(f"{shape}_{nh}x{nw}_{tag}", outs, edges, cluster(nh, nw), ext, trace_only=True, **extra))
    for shape, nh, nw, ext in [("fanvee", 1, 2, [("k", "0"), ("m1", "0")]), ("fanvee", 2, 2, [("k", "0")]), ("twofan", 2, 2, [("q5", "0"), ("m2", "0")]),
                               ("twofan", 1, 2, [("q1", "0")])]:
        outs, edges = S[shape]
        I.append(Instance(f"{shape}_{nh}x{nw}_busymig", outs, edges, cluster(nh, nw), ext, trace_only=True))
    # three hosts: one dataset wanted on two hosts that do not produce it (a second transfer while the first is unanswered)
    for shape, ext in [("fanout", [("m1", "0"), ("m2", "0")]), ("fanout4", [("m1", "0"), ("m4", "0")]), ("diamond", [("s", "0"), ("k", "0")])]:
        outs, edges = S[shape]
        I.append(Instance(f"{shape}_3x1_threehosts", outs, edges, cluster(3, 1), ext, trace_only=True))
    outs, edges = S["collide_dots"]
    I.append(Instance("collide_dots_1x1_sink", outs, edges, cluster(1, 1), [("u", "0"), ("st", "mean.0")], trace_only=True))
    for nh, nw in [(1, 1), (2, 1)]:
        outs, edges = S["collide"]
        I.append(Instance(f"collide_{nh}x{nw}_sink", outs, edges, cluster(nh, nw), [("u", "0"), ("g", "1")], trace_only=True))
    # hosts of different size (2 + 1 workers, 1 + 3 workers)
    for shape, sizes, ext in [("diamond", [2, 1], [("k", "0")]), ("fanout4", [1, 3], [("m1", "0"), ("m4", "0")]),
                              ("fanvee", [2, 1], [("k", "0"), ("m2", "0")])]:
        outs, edges = S[shape]
        I.append(Instance(f"{shape}_{'+'.join(map(str, sizes))}_uneven", outs, edges, cluster_of(sizes), ext, trace_only=True))
    # every worker has a GPU: CPU tasks of a mixed component can only run on GPU workers
    for nh, nw in [(1, 1), (2, 1)]:
        outs, edges = S["gpumix"]
        I.append(Instance(f"gpumix_{nh}x{nw}_allgpu", outs, edges, cluster(nh, nw), [("k", "0")], trace_only=True,
                          gpu_workers=[f"h{i}.w{j}" for i in range(nh) for j in range(nw)], gpu_tasks=["g"]))
    for nh, nw in [(1, 1), (1, 2)]:
        outs, edges = S["ladder_plus"]
        I.append(Instance(f"ladder_plus_{nh}x{nw}_sinks", outs, edges, cluster(nh, nw), [("d", "0"), ("q", "0")], trace_only=True))
    # mixed hosts: what Executor registers with one GPU and two workers (w0 has it, w1 has none), next to a GPU-less host
    for shape, nh, nw, gw, gt in [("gpufan", 1, 2, ["h0.w0"], ["g1", "g2", "g3"]), ("gpufan", 2, 2, ["h0.w0"], ["g1", "g2", "g3"]),
                                  ("gpufan", 2, 2, ["h0.w1", "h1.w0"], ["g1", "g2"]), ("gpusrc2", 1, 2, ["h0.w0"], ["g1", "g2"]),
                                  ("gpusrc2", 2, 2, ["h1.w1"], ["g1", "g2"])]:
        outs, edges = S[shape]
        I.append(Instance(f"{shape}_{nh}x{nw}_gpu{len(gw)}{gw[0][1]}{gw[0][-1]}", outs, edges, cluster(nh, nw), [("k", "0")], trace_only=True,
                          gpu_workers=gw, gpu_tasks=gt))
    return I


def thorough_instances() -> list[Instance]:
    S = shapes()
    I = list(quick_instances())
    seen = {i.name for i in I}
    for shape, (outs, edges) in S.items():
        if shape in ("empty", "manyout", "manyin", "sixtasks", "gpumix", "fanout4", "gpufan", "gpusrc2", "fanvee", "twofan", "collide", "collide_dots", "wide34", "ladder_plus"):
            continue
        alld = [(t, o) for t in outs for o in outs[t]]
        snk = sinks(outs, edges)
        exts = {"sinks": snk, "none": [], "all": alld}
        nons = [d for d in alld if d not in snk]
        if nons:
            exts["nonsink"] = [nons[0]]
            exts["nonsink_sink"] = [nons[0]] + snk[:1]
        for (nh, nw) in [(1, 1), (1, 2), (2, 1), (2, 2), (3, 1)]:
            if len(outs) >= 3 and (nh, nw) in [(2, 2)]:
                continue        # (2x2 clusters of the larger shapes are in the quick list as recorded executions)
            for tag, ext in exts.items():
                name = f"{shape}_{nh}x{nw}_{tag}"
                if name in seen:
                    continue
                seen.add(name)
                I.append(Instance(name, outs, edges, cluster(nh, nw), ext))
    I += [i for i in quick_instances() if (i.trace_only or i.dup_edges or i.gpu_tasks) and i.name not in seen]
    # more computable tasks and idle workers in ONE round than any per-round limit a controller might have (34 > 32); trace
    # validation of an instance of this size takes minutes, so it is part of the thorough tier only
    outs, edges = S["wide34"]
    I.append(Instance("wide34_1x34_some", outs, edges, cluster(1, 34), [("m00", "0"), ("m33", "0")], trace_only=True, few=2))
    # GPU variants
    for shape in ["diamond", "fanout", "threecomp"]:
        outs, edges = S[shape]
        last = sorted(outs)[-1]
        I.append(Instance(f"{shape}_2x1_gpu", outs, edges, cluster(2, 1), sinks(outs, edges),
                          gpu_workers=["h1.w0"], gpu_tasks=[last]))
        I.append(Instance(f"{shape}_1x2_gpu", outs, edges, cluster(1, 2), sinks(outs, edges),
                          gpu_workers=["h0.w1"], gpu_tasks=[last]))
    return I
