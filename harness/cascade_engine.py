"""Engine shared by C01-C04: model-check spec/Cascade.tla on a family of instances, record executions of
the real controller on the same instances, validate them with spec/CascadeTrace.tla, and classify every
violated clause by the property it belongs to."""
from __future__ import annotations

import hashlib
import json
import os
import pickle
import re
import subprocess
import sys
import time
from concurrent.futures import ThreadPoolExecutor
from pathlib import Path

from . import tlc
from .cascade_model import Instance, mc_module, quick_instances, thorough_instances
from .common import NCPU, ROOT, Ctx, MachineryError, repo_hash

PY = sys.executable
# measured: this sandbox scales to ~4-5 concurrent JVMs; beyond that per-job CPU time grows 2.5x
JVM_SLOTS = int(os.environ.get('VERIF_JVM_SLOTS', '5'))

MC_INV = {
    "C01": ["DeliveredAll"],
    "C02": ["DispatchOnce", "DispatchedAll", "ToFreeWorker", "GpuRespected", "InputsProduced", "PresentOrCommanded",
            "NeverStartsEarly", "IdleIsFree"],
    "C03": ["NoCrash", "NoSpin", "KeysPresent", "ChannelsDrained", "TypeOK", "Terminates", "Temporal", "Deadlock"],
    "C04": ["SourceHolds", "NoPurgeUnderCommand", "PurgeOnlyWhenDone", "NeverNeededAgain"],
}
ALL_INV = [i for p in MC_INV.values() for i in p if i not in ("Terminates", "Temporal", "Deadlock")]

CLAUSE = {
    "C01": {"final_value_differs_from_sequential", "requested_output_missing", "DeliveredAll", "P_fetched",
            "P_fetchQ_missing", "requested_outputs_never_returned",
            # a job submitted through the gateway is handed its values by the Reporter's result uploads
            "uploaded_result_differs_from_sequential", "result_uploads_differ"},
    "C02": {"assign_task_not_computable", "assign_worker_busy", "assign_gpu", "assign_prep_not_exact",
            "assign_publish_set_differs", "dispatched_twice", "dispatched_to_busy_worker", "dispatched_without_gpu",
            "input_not_produced", "input_neither_present_nor_commanded", "ran_without_input", "DispatchOnce",
            "DispatchedAll", "IdleIsFree", "P_idle", "P_ongoing", "P_computable", "P_done", "plan_assignment_count",
            "event_taskfailure", "published_output_out_of_order"},
    "C03": {"crash_dataset_not_found", "crash_double_add", "crash_not_ongoing", "crash_purging_tracker",
            "crash_malformed_origin", "spin", "event_crash", "event_spin", "event_deadlock", "KeysPresent",
            "P_hostComp", "P_weight", "no_shutdown", "remaining_not_zero", "P_remaining", "returned_before_spec_done",
            "recv_pc", "endwait_pc", "assign_pc", "migrate_pc", "migrate_nothing_to_do", "migrate_host_not_migrant",
            "migrate_to_exhausted_component", "plan_pc", "flush_pc", "assign_other_component",
            "assign_missing_distance_key", "P_inconsistent_indexes", "ChannelsDrained", "P_dsHost_lost"},
    "C04": {"assign_source_not_available", "source_lacks_dataset", "needed_after_purge", "fetch_source_lacks_dataset",
            "purge_under_unanswered_command", "purge_before_consumers_done", "purge_before_delivery",
            "transmit_failure_not_held", "command_after_purge_at_data_server", "flush_fetches_differ",
            "flush_purges_extra", "P_dsHost_phantom", "P_purgeQ_extra", "P_fetchQ_extra", "event_abort"},
}


def prop_of(clause: str) -> str | None:
    if clause.startswith("I_"):
        return None
    if clause.startswith("struct_"):
        return "C03"
    for p, s in CLAUSE.items():
        if clause in s:
            return p
    return "C03"   # an unnamed clause is a conformance failure of the loop as a whole


def _key(tier: str, seed: int) -> str:
    h = hashlib.sha256()
    h.update(repo_hash("cascade").encode())
    for f in sorted((ROOT / "spec").glob("Cascade*.tla")) + sorted((ROOT / "harness").rglob("*.py")):
        h.update(f.read_bytes())
    h.update(f"{tier}|{seed}|{os.environ.get('PYTHONHASHSEED', '')}".encode())
    return h.hexdigest()[:20]


def _mc(scratch: Path, inst: Instance, refetch: bool, liveness: bool, workers: int, timeout: int) -> dict:
    mod, sub = mc_module("MC", "Cascade", inst.constants(refetch=refetch))
    cfg = tlc.cfg_text(spec="Spec", constants=sub, invariants=ALL_INV, properties=["Terminates"] if liveness else None)
    d = tlc.stage(scratch, f"mc_{inst.name}_{int(refetch)}", ["Cascade"], {"MC.tla": mod, "MC.cfg": cfg})
    r = tlc.check(d, "MC", workers=workers, coverage=True, timeout=timeout, light=not (len(inst.outs) >= 4 and len(inst.hosts) >= 2))
    if "*** TIMEOUT ***" in r.out and not [v for v in r.violated if not v.startswith("MACHINERY")]:
        # an instance too large for the time budget: what was explored is reported, nothing is concluded from it
        m = None
        for m in __import__("re").finditer(r"(\d[\d,]*) states generated.*?(\d[\d,]*) distinct states found", r.out):
            pass
        gen, dist = (int(m.group(1).replace(",", "")), int(m.group(2).replace(",", ""))) if m else (0, 0)
        return {"instance": inst.name, "generated": gen, "distinct": dist, "depth": 0, "violated": [], "coverage": {},
                "wall": round(r.wall, 1), "cmd": r.cmd, "trace": "", "incomplete": True}
    tlc.require_clean(r, f"model checking {inst.name}")
    return {"instance": inst.name, "generated": r.generated, "distinct": r.distinct, "depth": r.depth,
            "violated": r.violated, "coverage": r.coverage, "wall": round(r.wall, 1), "cmd": r.cmd,
            "trace": r.trace[:20000] if r.violated else ""}


def _record(scratch: Path, inst: Instance, seed0: int, n: int, hashseed: int, none_tasks: str = "", tag: str = "",
            exh_cap: int = 0) -> tuple[Path, dict]:
    d = scratch / f"tr_{inst.name}_{hashseed}_{none_tasks}{tag}"
    d.mkdir(parents=True, exist_ok=True)
    ip = d / "inst.pickle"
    pickle.dump(inst, open(ip, "wb"))
    out = d / "traces.json"
    env = dict(os.environ)
    env["PYTHONHASHSEED"] = str(hashseed)
    p = subprocess.run([PY, "-W", "ignore", "-m", "harness.sim.record_worker", str(ip), str(out), str(seed0), str(n),
                        none_tasks, str(exh_cap)], cwd=ROOT, env=env, stdout=subprocess.PIPE, stderr=subprocess.STDOUT, text=True,
                       timeout=900 + 6 * max(n, 0))
    if p.returncode != 0 or not out.exists():
        raise MachineryError(f"recording {inst.name} failed:\n{p.stdout[-3000:]}")
    meta = json.loads(open(str(out) + ".meta").read())
    return out, meta


_R = re.compile(r'^"R\|(\d+)\|(.*)"$')


def _validate(scratch: Path, inst: Instance, tracefile: Path, comp_of: dict, refetch: bool, timeout: int) -> dict[int, set[str]]:
    mod, sub = mc_module("MCT", "CascadeTrace", inst.constants(comp_of=comp_of, refetch=refetch))
    cfg = tlc.cfg_text(spec="TSpec", constants=sub)
    d = tlc.stage(tracefile.parent, "tv", ["Cascade", "CascadeTrace"], {"MCT.tla": mod, "MCT.cfg": cfg})
    r = tlc.check(d, "MCT", workers=1, deadlock=False, timeout=timeout, env={"TRACE_FILE": str(tracefile)})
    tlc.require_clean(r, f"trace validation {inst.name}")
    res: dict[int, set[str]] = {}
    for line in r.out.splitlines():
        m = _R.match(line)
        if m:
            body = m.group(2).replace('\\"', '"')
            res[int(m.group(1))] = set(re.findall(r'"([^"]*)"', body))
    return res


def run_engine(ctx: Ctx) -> dict:
    """Returns {'mc': [...], 'traces': [{instance, n, bad: [{tid, clauses, trace}]}], totals...}; cached per content hash."""
    cache = ROOT / ".cache"
    only = os.environ.get("VERIF_INSTANCES", "")      # development aid: restrict the run to the named instances
    key = _key(ctx.tier, ctx.seed) + ("_" + hashlib.sha256(only.encode()).hexdigest()[:8] if only else "")
    cf = cache / f"cascade_{key}.json"
    if cf.exists() and not os.environ.get("VERIF_NO_CACHE"):
        ctx.log("cascade engine: using cached result", cf.name)
        return json.loads(cf.read_text())
    t0 = time.time()
    insts = quick_instances() if ctx.quick else thorough_instances()
    if only:
        insts = [i for i in insts if i.name in only.split(",")]
    n_per = 60 if ctx.quick else 120
    hashseeds = [0, 1] if ctx.quick else [0, 1, 2]
    mc_workers = 2
    res: dict = {"mc": [], "traces": [], "instances": [i.name for i in insts]}
    scratch = ctx.scratch / "cascade"
    scratch.mkdir(exist_ok=True)

    def job_mc(inst):
        big = len(inst.outs) >= 4 and len(inst.hosts) >= 3
        return _mc(scratch, inst, False, not big, mc_workers, 420 if not ctx.quick else 600)

    def job_tr(args):
        inst, hs, none = args[:3]
        exhaustive = len(args) > 3 and args[3]
        seed0 = ctx.seed * 100000 + hs * 1000
        if inst.few:
            exhaustive = False
        out, meta = _record(scratch, inst, seed0, inst.few or n_per, hs, none, exh_cap=(400 if ctx.quick else 5000) if exhaustive else 0)
        traces = json.loads(out.read_text())
        verdicts = _validate(scratch, inst, out, meta["comp_of"], False, 1200)
        if len(verdicts) != len(traces):
            raise MachineryError(f"trace validation of {inst.name}: {len(verdicts)} verdicts for {len(traces)} traces")
        bad = []
        for tid, cl in sorted(verdicts.items()):
            if cl:
                bad.append({"tid": tid, "seed": seed0 + tid - 1, "hashseed": hs, "clauses": sorted(cl),
                            "trace": traces[tid - 1] if len(bad) < 3 else None})
        sample = traces[0][:8] if traces else []
        return {"instance": inst.name, "hashseed": hs, "none_tasks": none, "n": len(traces),
                "exhaustive_orders": bool(exhaustive), "orders_complete": meta.get("complete"), "n_orders": meta.get("n_orders", 0),
                "events": sum(len(t) for t in traces),
                "ends": _count(t[-1]["ev"] for t in traces if t), "bad": bad, "sample": sample}

    # model checking: in the thorough tier the largest shapes (4 tasks on 3 hosts or 2x2) are covered by traces only
    mc_insts = [i for i in insts if not i.trace_only] if ctx.quick else [i for i in insts if len(i.outs) <= 4 and not (len(i.outs) >= 4 and (len(i.hosts) >= 3 or
                                                                  (len(i.hosts) == 2 and max(len(w) for w in i.hosts.values()) >= 2)))]
    with ThreadPoolExecutor(max_workers=JVM_SLOTS) as tp:
        res["mc"] = list(tp.map(job_mc, mc_insts))
    ctx.log(f"cascade engine: model checking of {len(insts)} instances done in {time.time()-t0:.0f}s")
    t1 = time.time()
    # per (instance, hash seed): seeded random schedules + (for hash seeds 0 and 1) every delivery order
    jobs = [(i, hs, "", hs in (0, 1)) for i in insts for hs in hashseeds if not (i.few and hs != hashseeds[0])]
    # probes for values that are legitimately None (C01/C03 clause "every requested dataset is delivered")
    by_name = {i.name: i for i in insts}
    for nm, none in [("single_1x1_sink", "a"), ("chain2_2x1_all", "a")]:
        if nm in by_name:
            jobs.append((by_name[nm], 0, none))
    # values that are falsy but not None (0, "", False, [], ...) must be delivered like any other
    for nm, falsy in [("single_1x1_sink", "~a"), ("chain2_2x1_all", "~a,~b"), ("multiout_2x1_sinks", "~g,~u")]:
        if nm in by_name:
            jobs.append((by_name[nm], 0, falsy))
    # values of a type with a registered custom serde (JobInstance.serdes) and of an unregistered subclass of it
    for nm, boxed in [("chain2_2x1_all", "@a,^b"), ("multiout_2x1_sinks", "^g,@u,&v"), ("diamond_2x1_src_sink", "^s,@m1,&m2,^k"),
                      ("chain2_2x1_all", "&a,@b")]:
        if nm in by_name:
            jobs.append((by_name[nm], 0, boxed))
    # a genuine static None as the last positional argument
    for nm, v in [("chain2_2x1_all", "!a,!b"), ("diamond_2x1_src_sink", "!s,!k")]:
        if nm in by_name:
            jobs.append((by_name[nm], 0, v))
    # the recorded job is the second one of its process, after a job with the same task names and other callables
    for nm, v in [("chain2_2x1_all", "2nd+~a,~b"), ("multiout_2x1_sinks", "2nd+~g,~u,~v"), ("diamond_1x2_sink", "2nd+~s,~m1,~m2,~k")]:
        if nm in by_name:
            jobs.append((by_name[nm], 0, v))
    with ThreadPoolExecutor(max_workers=JVM_SLOTS + 1) as tp:
        res["traces"] = list(tp.map(job_tr, jobs))
    ctx.log(f"cascade engine: {sum(t['n'] for t in res['traces'])} executions recorded and validated in {time.time()-t1:.0f}s")
    res["wall"] = round(time.time() - t0, 1)
    cache.mkdir(exist_ok=True)
    for old in sorted(cache.glob("cascade_*.json"), key=lambda f: f.stat().st_mtime)[:-6]:
        old.unlink()
    cf.write_text(json.dumps(res))
    return res


def _count(it) -> dict:
    out: dict = {}
    for e in it:
        out[e] = out.get(e, 0) + 1
    return out


def strip(clause: str) -> tuple[str, str]:
    """'38:flush:purge_under_unanswered_command' -> ('flush', 'purge_under_unanswered_command')"""
    parts = clause.split(":", 2)
    return (parts[1], parts[2]) if len(parts) == 3 else ("", clause)


def report(ctx: Ctx, pid: str) -> None:
    """Fill ctx (coverage + violations) for one property from the engine's result."""
    res = run_engine(ctx)
    mine_inv = set(MC_INV[pid])
    states = sum(m["distinct"] for m in res["mc"])
    trans = sum(m["generated"] for m in res["mc"])
    ctx.coverage.update({
        "states": states, "transitions": trans,
        "model_instances": len(res["mc"]),
        "model_instances_incomplete": [m["instance"] for m in res["mc"] if m.get("incomplete")],
        "model_invariants_checked": sorted(mine_inv - {"Temporal", "Deadlock"}),
        "instances": res["instances"][:40],
        "traces_validated_against_impl": sum(t["n"] for t in res["traces"]),
        "trace_events": sum(t["events"] for t in res["traces"]),
        "trace_ends": _merge(t["ends"] for t in res["traces"]),
        "exhaustive_delivery_orders": sum(t.get("n_orders", 0) for t in res["traces"]),
        "instances_with_all_orders_enumerated": sum(1 for t in res["traces"] if t.get("exhaustive_orders") and t.get("orders_complete")),
        "engine_wall_s": res["wall"],
        "rule": "TLC explores every interleaving of controller and executor actions of spec/Cascade.tla per instance; "
                "each recorded execution of the real controller (seeded random schedule, 2+ hash seeds) is replayed "
                "through spec/CascadeTrace.tla, every clause evaluated at every step",
    })
    for m in res["mc"]:
        for v in m["violated"]:
            if v in mine_inv:
                ctx.violate(f"model:{v}", f"TLC: {v} violated on instance {m['instance']}",
                            {"instance": m["instance"], "tlc": m["trace"]}, clause=v)
    # action coverage (vacuity): every action of the spec must have been taken somewhere
    cov: dict[str, int] = {}
    for m in res["mc"]:
        for a, n in m["coverage"].items():
            cov[a] = cov.get(a, 0) + n
    ctx.coverage["action_coverage"] = {a: n for a, n in sorted(cov.items()) if a[0].isupper() and a not in MC_NAMES}
    info: dict[str, int] = {}
    for t in res["traces"]:
        for b in t["bad"]:
            mine = []
            for cl in b["clauses"]:
                ev, name = strip(cl)
                p = prop_of(name)
                if p is None:
                    info[name] = info.get(name, 0) + 1
                elif p == pid:
                    mine.append((ev, name))
            if mine:
                names = sorted({n for _, n in mine})
                key = "trace:" + "+".join(names)
                plain_none = bool(t["none_tasks"]) and all(tok and tok[0] not in "~@^&!" for tok in t["none_tasks"].split(",")) \
                    and not t["none_tasks"].startswith("2nd+")
                if plain_none and set(names) <= NONE_VALUED_EXPECTED.get(pid, set()):
                    # the probe for a requested output whose value is None fails in exactly the recorded way
                    key = "none_valued_requested_output"
                ctx.violate(key, f"execution of the real controller on {t['instance']} (seed {b['seed']}, hashseed "
                                 f"{b['hashseed']}) violates {names}",
                            {"instance": t["instance"], "seed": b["seed"], "hashseed": b["hashseed"],
                             "none_tasks": t["none_tasks"], "clauses": b["clauses"], "trace": b["trace"]},
                            clause=",".join(names))
    if info:
        ctx.coverage["informational_differences"] = info
    for t in res["traces"][:2]:
        ctx.sample({"instance": t["instance"], "first_events": t["sample"]}, cap=2)
    ctx.assumptions += [
        "executor messages are delivered exactly once and FIFO per sender (what the acknowledged layer provides when "
        "nothing is lost; C06 checks that layer)",
        "the worker defers a task until its inputs were announced (checked separately against the real entrypoint)",
        "bounded instances: <= 4 tasks, <= 3 hosts, <= 2 workers per host",
    ]


# known finding (DESIGN.md section 6): `None` doubles as "not fetched yet" in State.outputs
NONE_VALUED_EXPECTED = {
    "C01": {"P_fetched", "DeliveredAll", "requested_outputs_never_returned"},
    "C03": {"event_deadlock", "plan_pc", "flush_pc", "assign_pc", "recv_pc", "endwait_pc", "returned_before_spec_done"},
}
MC_NAMES = set(ALL_INV) | {"Terminates", "Init"}


def _merge(dicts) -> dict:
    out: dict = {}
    for d in dicts:
        for k, v in d.items():
            out[k] = out.get(k, 0) + v
    return out


def replay(ctx: Ctx, pid: str, rep: dict) -> int:
    """Re-record the execution named in a replay artefact (instance, seed, hash seed) on the current tree and let TLC judge it."""
    r = rep.get("replay") or {}
    if "instance" not in r or "seed" not in r:
        print(f"REPLAY property={pid}: artefact has no recorded execution (model-level counterexample): {rep.get('what')}")
        return 0
    insts = {i.name: i for i in thorough_instances()}
    inst = insts[r["instance"]]
    scratch = ctx.scratch / "replay"
    scratch.mkdir(exist_ok=True)
    out, meta = _record(scratch, inst, int(r["seed"]), 1, int(r.get("hashseed", 0)), r.get("none_tasks", "") or "")
    verdicts = _validate(scratch, inst, out, meta["comp_of"], False, 600)
    clauses = sorted(verdicts.get(1, set()))
    mine = [c for c in clauses if prop_of(strip(c)[1]) == pid]
    print(f"REPLAY property={pid} instance={inst.name} seed={r['seed']} clauses={mine}")
    if mine:
        print(f"VIOLATION property={pid} replay={ctx.scratch}")
    return 1 if mine else 0
