"""Task bodies of the real-cluster scenarios; the fault to inject is read from the environment (VERIF_FAULT)."""
import json
import os
import signal
import sys
import time

EXPECTED = {"t2.0": ("c", ("p", 0)), "t3.0": ("c", ("p", 1))}


def _fault():
    return json.loads(os.environ.get("VERIF_FAULT", "{}"))


def _children_of(pid):
    out = []
    try:
        for t in os.listdir(f"/proc/{pid}/task"):
            out += [int(x) for x in open(f"/proc/{pid}/task/{t}/children").read().split()]
    except Exception:
        pass
    return out


def _cmd(pid):
    try:
        return open(f"/proc/{pid}/cmdline").read()
    except Exception:
        return ""


def _strike(point, task):
    f = _fault()
    if f.get("task") != task or f.get("point") != point:
        return
    mode = f.get("mode")
    if mode == "raise":
        raise RuntimeError("injected failure")
    if mode == "exit0":
        sys.exit(0)
    if mode == "exit1":
        os._exit(1)
    if mode == "kill":
        os.kill(os.getpid(), signal.SIGKILL)
    if mode in ("term_helper_first", "term_helper_second"):
        me = os.getpid()
        helpers = sorted(p for p in _children_of(os.getppid()) if p != me)[:2]
        os.kill(helpers[0] if mode == "term_helper_first" else helpers[1], signal.SIGTERM)
        time.sleep(0.3)
    if mode in ("kill_helper_first", "kill_helper_second"):
        # helpers are the executor's other children that are not workers: [shm server, data server] in start order
        me = os.getpid()
        sib = sorted(p for p in _children_of(os.getppid()) if p != me)
        helpers = sib[:2]
        victim = helpers[0] if mode == "kill_helper_first" else helpers[1]
        os.kill(victim, signal.SIGKILL)
        time.sleep(0.3)


    if mode in ("kill_remote_helper_first", "kill_remote_helper_second"):
        # the same on the OTHER host: the executors are the children of the scenario process (our grandparent)
        mine = os.getppid()
        main = int(open(f"/proc/{mine}/stat").read().rsplit(")", 1)[1].split()[1])
        others = sorted(p for p in _children_of(main) if p != mine and "resource_tracker" not in _cmd(p))
        if others:
            helpers = sorted(_children_of(others[0]))[:2]
            if len(helpers) == 2:
                os.kill(helpers[0] if mode == "kill_remote_helper_first" else helpers[1], signal.SIGKILL)
                time.sleep(0.3)


def producer():
    _strike("before", "t1")
    yield ("p", 0)
    _strike("between", "t1")
    yield ("p", 1)
    _strike("after", "t1")


def consumer(x):
    if _fault().get("mode") in ("raise_busy_sibling", "raise_busy_deaf_sibling"):
        flag = _fault().get("flag", "")
        if x == ("p", 0):
            open(flag, "w").close()  # tells the sibling that the failing task is running NOW
            time.sleep(1.5)          # the sibling has begun its long computation by now
            raise RuntimeError("injected failure next to a busy sibling")
        # The sibling is busy only while the failing task runs at the same time. The scheduler is free to run the two consumers
        # one after the other on one worker: then there is no busy sibling, this task ends at once and the other one fails the run.
        for _ in range(30):
            if os.path.exists(flag):
                break
            time.sleep(0.1)
        else:
            return ("c", x)
        if _fault().get("mode") == "raise_busy_deaf_sibling":
            signal.signal(signal.SIGTERM, lambda *a: None)      # the task body handles SIGTERM itself
        end = time.time() + 600
        while time.time() < end:     # (a handled signal interrupts sleep: keep computing)
            time.sleep(1)
    _strike("before", "t2")
    r = ("c", x)
    _strike("after_compute", "t2")
    return r
