"""One real-cluster scenario per process (own session/process group): real Executor processes (real shm server, data
server, workers), real Bridge + controller.impl.run in this process, a fault injected from inside a task body.

usage: python -m harness.cluster.scenario '<json scenario>' <port> <tag>
prints one line  RESULT {json}  and exits; the caller inspects the process group and /dev/shm afterwards.
"""
from __future__ import annotations

import json
import os
import sys
import threading
import time

sc = json.loads(sys.argv[1])
port, tag = int(sys.argv[2]), sys.argv[3]
os.environ["VERIF_FAULT"] = json.dumps({**sc, "flag": f"/tmp/{tag}.flag"})

import faulthandler  # noqa: E402
import signal  # noqa: E402

faulthandler.register(signal.SIGUSR1, all_threads=True)      # inherited by every forked child: stacks on demand
import logging  # noqa: E402

logging.disable(logging.CRITICAL)
from multiprocessing import Process  # noqa: E402

from cascade.controller.impl import run  # noqa: E402
from cascade.executor.bridge import Bridge  # noqa: E402
from cascade.executor.executor import Executor  # noqa: E402
from cascade.low.core import DatasetId, JobInstance, Task2TaskEdge, TaskDefinition, TaskInstance  # noqa: E402
from cascade.scheduler.graph import precompute  # noqa: E402

from harness.cluster import bodies  # noqa: E402


def mkjob() -> JobInstance:
    f1 = TaskDefinition.func_enc(bodies.producer)
    f2 = TaskDefinition.func_enc(bodies.consumer)
    t1 = TaskInstance(definition=TaskDefinition(func=f1, environment=[], input_schema={}, output_schema={"0": "Any", "1": "Any"}),
                      static_input_kw={}, static_input_ps={})
    t2 = TaskInstance(definition=TaskDefinition(func=f2, environment=[], input_schema={}, output_schema={"0": "Any"}),
                      static_input_kw={}, static_input_ps={})
    t3 = TaskInstance(definition=TaskDefinition(func=f2, environment=[], input_schema={}, output_schema={"0": "Any"}),
                      static_input_kw={}, static_input_ps={})
    edges = [Task2TaskEdge(source=DatasetId("t1", "0"), sink_task="t2", sink_input_kw=None, sink_input_ps=0),
             Task2TaskEdge(source=DatasetId("t1", "1"), sink_task="t3", sink_input_kw=None, sink_input_ps=0)]
    return JobInstance(tasks={"t1": t1, "t2": t2, "t3": t3}, edges=edges,
                       ext_outputs=[DatasetId("t2", "0"), DatasetId("t3", "0")])


def launch(job, c, pb, i, workers):
    ex = Executor(job, c, workers, f"{tag}h{i}", pb)
    ex.register()
    ex.recv_loop()


def main():
    job = mkjob()
    pre = precompute(job)
    c = f"tcp://localhost:{port}"
    ps = []
    for i in range(sc["hosts"]):
        p = Process(target=launch, args=(job, c, port + 1 + i * 10, i, sc["workers"]))
        p.start()
        ps.append(p)
    t0 = time.time()
    res: dict = {}
    phase = {"now": "startup"}      # until every executor has registered (Bridge.__init__), no task body (hence no fault) has run

    def watchdog():
        time.sleep(float(sc.get("deadline", 12)))
        if not res:
            # where does the controller sit?
            import traceback
            main_frames = [f for tid, f in sys._current_frames().items() if tid == threading.main_thread().ident]
            where = "".join(traceback.format_stack(main_frames[0])[-4:]) if main_frames else ""
            print("RESULT " + json.dumps({"outcome": "hang", "wall": round(time.time() - t0, 2), "phase": phase["now"],
                                          "in_recv_events": "recv_events" in where or "recv_messages" in where}), flush=True)
            os._exit(3)

    threading.Thread(target=watchdog, daemon=True).start()
    try:
        b = Bridge(c, sc["hosts"])
        phase["now"] = "running"
        st = run(job, b, pre)
        vals = {repr(k): v for k, v in st.outputs.items()}
        res.update(outcome="ok", values_ok=vals == bodies.EXPECTED, values=repr(vals)[:200])
    except BaseException as e:
        res.update(outcome="error", what=(type(e).__name__ + ":" + str(e))[:160], phase=phase["now"])
    res["wall"] = round(time.time() - t0, 2)
    alive = []
    for p in ps:
        p.join(timeout=9)
        alive.append(p.is_alive())
    res["executors_alive"] = alive
    print("RESULT " + json.dumps(res), flush=True)
    os._exit(0)


main()
