"""Run one model instance's job on a REAL cluster (real executors, shm, data servers, workers, zmq) and compare the
values returned by controller.impl.run with sequential evaluation.

usage: python -m harness.cluster.job_run <instance.pickle> <port> <tag>   -> prints  RESULT {json}
"""
from __future__ import annotations

import json
import os
import pickle
import sys
import threading
import time

import logging

logging.disable(logging.CRITICAL)
from multiprocessing import Process  # noqa: E402

from cascade.controller.impl import run  # noqa: E402
from cascade.executor.bridge import Bridge  # noqa: E402
from cascade.executor.executor import Executor  # noqa: E402
from cascade.scheduler.graph import precompute  # noqa: E402

from harness.sim.simbridge import mkjob, sequential  # noqa: E402

inst = pickle.load(open(sys.argv[1], "rb"))
port, tag = int(sys.argv[2]), sys.argv[3]


def launch(job, c, pb, i, workers):
    ex = Executor(job, c, workers, f"{tag}h{i}", pb)
    ex.register()
    ex.recv_loop()


def main():
    job = mkjob(inst)
    expected = sequential(inst)
    pre = precompute(job)
    c = f"tcp://localhost:{port}"
    hosts = sorted(inst.hosts)
    ps = []
    for i, h in enumerate(hosts):
        p = Process(target=launch, args=(job, c, port + 1 + i * 10, i, len(inst.hosts[h])))
        p.start()
        ps.append(p)
    t0 = time.time()
    res: dict = {}

    phase = {"now": "startup"}      # until every executor has registered (Bridge.__init__)

    def watchdog():
        time.sleep(40)
        if not res:
            print("RESULT " + json.dumps({"outcome": "hang", "wall": round(time.time() - t0, 2), "phase": phase["now"]}), flush=True)
            os._exit(3)

    threading.Thread(target=watchdog, daemon=True).start()
    try:
        b = Bridge(c, len(hosts))
        phase["now"] = "running"
        st = run(job, b, pre)
        got = {(k.task, k.output): v for k, v in st.outputs.items()}
        want = {tuple(e): expected[tuple(e)] for e in inst.ext}
        res.update(outcome="ok", values_ok=got == want, n_outputs=len(got))
        if got != want:
            res["diff"] = repr({k: (got.get(k), want.get(k)) for k in set(got) | set(want) if got.get(k) != want.get(k)})[:300]
    except BaseException as e:
        res.update(outcome="error", what=(type(e).__name__ + ":" + str(e))[:200], phase=phase["now"])
    res["wall"] = round(time.time() - t0, 2)
    for p in ps:
        p.join(timeout=9)
    res["executors_alive"] = [p.is_alive() for p in ps]
    print("RESULT " + json.dumps(res), flush=True)
    os._exit(0)


main()
