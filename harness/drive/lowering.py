"""C10 transport: JSON case -> fluent Nodes -> graph2job -> every task through the real runner -> JSON observation.

Nothing here decides anything: spec/Lowering.tla!Post judges the observation.
Values are rendered as strings: an upstream value is ("V", text); a call of node j is "nj(args){kwargs}", its i-th
yielded value is that + "#i".
"""
from __future__ import annotations

import types

import xarray as xr

import cascade.executor.runner.entrypoint as EP
import cascade.executor.runner.memory as MEM
from cascade.executor.msg import TaskFailure, TaskSequence
from cascade.executor.runner.memory import Memory, ds2shmid
from cascade.executor.runner.packages import PackagesEnv
from cascade.low.core import DatasetId, WorkerId
from cascade.low.into import graph2job
from cascade.low.views import param_source
from earthkit.workflows.fluent import Action, Node, Payload
from earthkit.workflows.graph import Graph
from earthkit.workflows.graph import Node as BaseNode

CALLS: list[list[str]] = []      # [[label of the callable, rendered call]]; the callables reach it by importing this module


def render(v) -> str:
    if isinstance(v, tuple) and len(v) == 2 and v[0] == "V":
        return v[1]
    if isinstance(v, bool) or v is None:
        return repr(v)
    if isinstance(v, int):
        return str(v)
    if isinstance(v, str):
        return "'" + v + "'"
    return "?" + repr(v)[:80]


DEFAULT = "<default>"       # what every parameter of a recording callable defaults to (never a value of the domain)


LITERALS = {"None": None, "0": 0, "''": "", "False": False}


def recording_callable(label: str, nout: int | None, yvals: list[str] | None):
    """A callable named `label` that records what it is called with and whose value(s) spell that call out.

    Every parameter has the distinctive default DEFAULT, so the observed call lists exactly what was passed: an
    argument that the runner drops (and the callable would silently default) makes the call shorter / shows <default>.
    """

    def f(a0=DEFAULT, a1=DEFAULT, a2=DEFAULT, a3=DEFAULT, a4=DEFAULT, a5=DEFAULT, *rest, k=DEFAULT, z=DEFAULT, **kwargs):
        import harness.drive.lowering as L      # by reference: the runner executes an unpickled copy of f

        dflt = lambda v: isinstance(v, str) and v == L.DEFAULT  # noqa: E731
        args = [a0, a1, a2, a3, a4, a5] + list(rest)
        while args and dflt(args[-1]):
            args.pop()
        kw = dict(kwargs)
        kw.update({n: v for n, v in (("k", k), ("z", z)) if not dflt(v)})
        term = label + "(" + ",".join(L.DEFAULT if dflt(a) else L.render(a) for a in args) + "){" + ",".join(
            f"{n}={L.render(v)}" for n, v in sorted(kw.items())) + "}"
        L.CALLS.append([label, term])
        if nout is None:        # the shared callable: its first argument says how many values to yield (0: return a plain value)
            return ("V", term) if a0 == 0 else (("V", f"{term}#{i}") for i in range(a0))
        if nout == 1:
            return ("V", term) if yvals[0] == "t" else L.LITERALS[yvals[0]]
        return (("V", f"{term}#{i}") if y == "t" else L.LITERALS[y] for i, y in enumerate(yvals))

    f.__name__ = f.__qualname__ = label
    return f


SHARED = {"s": recording_callable("s", None, None)}     # ONE function object for every node / case that names it


class DictShm:
    """dict-backed stand-in for cascade.shm.client: key -> (bytes, deser_fun)."""

    def __init__(self):
        self.data: dict[str, tuple[bytearray, str]] = {}

    def client(self):
        store = self

        class Buf:
            def __init__(s, key, l=None, deser_fun=None, create=False):
                if create:
                    store.data[key] = (bytearray(l), deser_fun)
                elif key not in store.data:
                    raise KeyError(f"shm: no dataset {key}")
                s.key, s.deser_fun = key, store.data[key][1]

            def view(s):
                return memoryview(store.data[s.key][0])

            def close(s):
                pass

        return types.SimpleNamespace(allocate=lambda key, l, deser_fun: Buf(key, l, deser_fun, True),
                                     get=lambda key: Buf(key), AllocatedBuffer=Buf)


def item(a: dict):
    """Decode an item of the case: JSON (for TLC) has no null, None travels as {"t": "none"}."""
    t = a["t"]
    return a["i"] if t == "int" else a["s"] if t == "str" else None if t == "none" else bool(a["i"]) if t == "bool" \
        else Node.input_name(a["i"] - 1)


def run_job(job, order: list[str], place: str = "each"):
    """Run every task of the job through the real runner (execute_sequence -> run -> Memory.provide / handle), every worker
    keeping ONE real Memory for all its tasks as the worker loop does.  place: "each" task on its own worker, all on "one"
    worker in sequence, or the first task on one worker and all "consumers" together on another."""
    # ---- running: one worker (one Memory) per task, so that every input comes through shm + serde
    shm = DictShm()
    out: list = []
    old = MEM.shm_client, MEM.callback, EP.callback
    MEM.shm_client = shm.client()
    MEM.callback = EP.callback = lambda addr, m: out.append(m)
    del CALLS[:]
    calls = []          # a call is attributed to the task during whose run it was observed
    try:
        psrc = param_source(job.edges)
        memories: dict[str, Memory] = {}
        for k, name in enumerate(order):     # a topological order
            wname = f"w{k}" if place == "each" else "w0" if place == "one" or k == 0 else "w1"
            w = WorkerId("h", wname)
            if wname not in memories:
                memories[wname] = Memory("cb", w).__enter__()
            rc = EP.RunnerContext(workerId=w, job=job, callback="cb", param_source=psrc)
            publish = {DatasetId(name, o) for o in job.tasks[name].definition.output_schema}
            EP.execute_sequence(TaskSequence(worker=w, tasks=[name], publish=publish), memories[wname], PackagesEnv(), rc)
            calls += [[name, t] for _, t in CALLS]
            del CALLS[:]
        for mem in memories.values():
            mem.__exit__(None, None, None)
        # ---- what was published, read back through the real Memory.provide
        datasets = []
        with Memory("cb", WorkerId("h", "reader")) as mem:
            for name, t in job.tasks.items():
                for o in t.definition.output_schema:
                    if ds2shmid(DatasetId(name, o)) in shm.data:
                        datasets.append([name, o, render(mem.provide(DatasetId(name, o), "Any"))])
    finally:
        MEM.shm_client, MEM.callback, EP.callback = old
    return (calls, [m.task or "" for m in out if isinstance(m, TaskFailure)],
            [m.detail[:120] for m in out if isinstance(m, TaskFailure)], datasets)


def observe_job(case: dict) -> dict:
    """A hand-built job: tasks from TaskBuilder.from_callable(..).with_values(..) or raw TaskInstances, edges by hand."""
    from cascade.low.builders import TaskBuilder
    from cascade.low.core import JobInstance, Task2TaskEdge, TaskDefinition, TaskInstance

    tasks, edges = {}, []
    for j, nd in enumerate(case["nodes"], start=1):
        f = recording_callable(f"n{j}", 1, ["t"])
        shadow = nd["shadow"]
        ps, kw = {}, {}
        for p, a in enumerate(nd["args"]):
            if a["t"] == "in":
                src = nd["inputs"][a["i"] - 1]
                edges.append(Task2TaskEdge(source=DatasetId(f"t{src[0]}", "0"), sink_task=f"t{j}", sink_input_ps=p, sink_input_kw=None))
                if shadow["t"] != "absent":
                    ps[str(p)] = item(shadow)
            else:
                ps[str(p)] = item(a)
        for key, a in nd["kwargs"]:
            if a["t"] == "in":
                src = nd["inputs"][a["i"] - 1]
                edges.append(Task2TaskEdge(source=DatasetId(f"t{src[0]}", "0"), sink_task=f"t{j}", sink_input_ps=None, sink_input_kw=key))
                if shadow["t"] != "absent":
                    kw[key] = item(shadow)
            else:
                kw[key] = item(a)
        if nd["via"] == "from_callable":      # records the signature defaults as static keyword values
            tasks[f"t{j}"] = TaskBuilder.from_callable(f).with_values(**kw)
        else:
            td = TaskDefinition(func=TaskDefinition.func_enc(f), environment=[], entrypoint="", input_schema={}, output_schema={"0": "Any"})
            tasks[f"t{j}"] = TaskInstance(definition=td, static_input_kw=kw, static_input_ps=ps)
    job = JobInstance(tasks=tasks, edges=edges)
    names = list(tasks)
    calls, failures, details, datasets = run_job(job, names)
    return {"names": names, "declared": [["0"] for _ in names], "coords": [[] for _ in names],
            "tasks": [{"name": n, "outputs": list(t.definition.output_schema.keys()),
                       "static_ps": [[int(k), render(v)] for k, v in t.static_input_ps.items()],
                       "static_kw": [[k, render(v)] for k, v in t.static_input_kw.items()]} for n, t in tasks.items()],
            "edges": [[e.source.task, e.source.output, e.sink_task, -1 if e.sink_input_ps is None else e.sink_input_ps,
                       "" if e.sink_input_kw is None else e.sink_input_kw] for e in job.edges],
            "calls": calls, "failures": failures, "failure_details": details, "datasets": datasets}


def observe(case: dict) -> dict:
    if case.get("job"):
        return observe_job(case)
    # ---- the graph, with the real fluent classes
    nodes: list[Node] = []
    coords = []
    for j, nd in enumerate(case["nodes"], start=1):
        label = f"n{j}"
        inputs = []
        for p, o in nd["inputs"]:
            pn, pc = nodes[p - 1], case["nodes"][p - 1]
            # o = which yielded value: fluent nodes declare their outputs in yield order, hand-built ones bind key-sorted (onames)
            inputs.append(pn if pc["nout"] == 1 else pn.get_output(pc["onames"][o] if pc["onames"] else pn.outputs[o]))
        func = SHARED[nd["fn"]] if nd["fn"] else recording_callable(label, nd["nout"], list(nd["yvals"]))
        args, kwargs = [item(a) for a in nd["args"]], {k: item(v) for k, v in nd["kwargs"]}
        if nd["onames"]:        # a hand-built node: graph.Node with the payload tuple, outputs as the author wrote them
            node = BaseNode(nd["hname"] or f"h{j}", [nd["onames"][i - 1] for i in nd["odecl"]], (func, args, kwargs),
                            **{Node.input_name(k): i for k, i in enumerate(inputs)})
        else:
            node = Node(Payload(func, args, kwargs), inputs, num_outputs=nd["nout"])
        nodes.append(node)
        if nd["nout"] > 1 and not nd["onames"]:      # what the fluent API maps each coordinate of the yielded dimension to
            act = Action(xr.DataArray(node), yields=("y", list(nd["coords"])))
            coords.append([[str(c), act.nodes.sel(y=c).item().name] for c in act.nodes.coords["y"].values])
        else:
            coords.append([])
    declared = [list(n.outputs) for n in nodes]
    graph = Graph(list(nodes))
    # ---- lowering
    job = graph2job(graph)
    tasks = [{"name": name, "outputs": list(t.definition.output_schema.keys()),
              "static_ps": [[int(k), render(v)] for k, v in t.static_input_ps.items()],
              "static_kw": [[k, render(v)] for k, v in t.static_input_kw.items()]} for name, t in job.tasks.items()]
    edges = [[e.source.task, e.source.output, e.sink_task, -1 if e.sink_input_ps is None else e.sink_input_ps,
              "" if e.sink_input_kw is None else e.sink_input_kw] for e in job.edges]
    calls, failures, details, datasets = run_job(job, [n.name for n in nodes], case.get("place", "each"))
    return {"names": [n.name for n in nodes], "declared": declared, "coords": coords, "tasks": tasks, "edges": edges,
            "calls": calls, "failures": failures, "failure_details": details, "datasets": datasets}
