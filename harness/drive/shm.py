"""P2 binding for spec/Shm.tla: step TLC-generated behaviours through the REAL cascade.shm.dataset.Manager
(and the real Disk._page_out/_page_in code) and compare the projected state after every step.

Seams (harness process only): dataset.get_capacity, dataset.SharedMemory / disk.SharedMemory (dict-backed
segments holding real bytes), dataset.time (virtual clock), manager.disk.page_out/page_in (queue jobs instead
of submitting them to the pool), manager.pageout_one (a gate: a page-out job's thread stops where the code takes
this lock so that the server thread can run in between, exactly the two halves of the spec).
"""
from __future__ import annotations

import threading
import types
from typing import Any

import cascade.shm.api as API
import cascade.shm.dataset as DSM
import cascade.shm.disk as DISK
import cascade.shm.server as SRV

STALE_NS = int(16 * 60 * 1e9)


class FakeSeg:
    """multiprocessing.shared_memory.SharedMemory over a process-local dict."""
    segs: dict[str, bytearray] = {}

    def __init__(self, name, create=False, size=0):
        if create:
            if name in FakeSeg.segs:
                raise FileExistsError(name)
            FakeSeg.segs[name] = bytearray(size)
        elif name not in FakeSeg.segs:
            raise FileNotFoundError(name)
        self.name = name
        self._name = name
        self._data = FakeSeg.segs[name]

    @property
    def buf(self):
        return memoryview(self._data)

    def unlink(self):
        if self.name not in FakeSeg.segs:        # shm_unlink works by name
            raise FileNotFoundError(self.name)
        del FakeSeg.segs[self.name]

    def close(self):
        pass


class Clock:
    """Stands in for the `time` module of cascade.shm.dataset: a wall clock and a monotonic clock with another origin."""
    t = 1_000_000

    @classmethod
    def time_ns(cls):
        cls.t += 1000
        return cls.t

    @classmethod
    def time(cls):
        return cls.time_ns() / 1e9

    @classmethod
    def monotonic_ns(cls):
        return cls.time_ns() + 7 * 10 ** 17

    @classmethod
    def monotonic(cls):
        return cls.monotonic_ns() / 1e9


class GateLock:
    """Stands in for Manager.pageout_one.  A page-out job thread stops at its FIRST acquisition until released."""

    def __init__(self):
        self.real = threading.RLock()
        self.gated: dict[int, dict] = {}      # thread ident -> {"reached": Event, "go": Event, "passed": bool}

    def __enter__(self):
        g = self.gated.get(threading.get_ident())
        if g is not None and not g["passed"]:
            g["passed"] = True
            g["reached"].set()
            g["go"].wait()
        self.real.acquire()
        return self

    def __exit__(self, *a):
        self.real.release()
        return False

    # threading.Lock API used nowhere else in Manager for pageout_one


class _StopServing(BaseException):
    pass


class ServerFront:
    """The real cascade.shm.server.LocalServer request loop over a scripted socket: one encoded request in, one encoded
    response out (so the wire encoding of shm/api.py and the dispatch / error capture of server.py are part of the binding)."""

    def __init__(self, manager):
        front = self
        self.inq: list[bytes] = []
        self.out: list[bytes] = []

        class Sock:
            def recvfrom(self, n):
                if not front.inq:
                    raise _StopServing
                return front.inq.pop(0), ("client", 1)

            def sendto(self, b, addr):
                front.out.append(b)

            def close(self):
                pass

        self.srv = SRV.LocalServer.__new__(SRV.LocalServer)
        self.srv.sock = Sock()
        self.srv.manager = manager

    def call(self, comm):
        self.inq.append(API.ser(comm))
        try:
            self.srv.start()
        except _StopServing:
            pass
        return API.deser(self.out.pop(0))


class Job:
    def __init__(self, kind, key, shmid, size, cb):
        self.kind, self.key, self.shmid, self.size, self.cb = kind, key, shmid, size, cb
        self.thread: threading.Thread | None = None
        self.gate: dict | None = None
        self.phase = "queued"


class Driver:
    """One real Manager under test + the environment the spec leaves to the schedule."""
    together_runs = 0

    def __init__(self, sizes: dict[str, int], cap: int, fast_disk: bool = False, prefix: str = "t", configured: int | None = None):
        self.sizes, self.cap, self.fast_disk = sizes, cap, fast_disk
        FakeSeg.segs = {}
        Clock.t = 1_000_000
        self._old = (DSM.get_capacity, DSM.SharedMemory, DSM.time, DISK.SharedMemory, DISK.multiprocessing)
        # `configured`: the store is configured with more than /dev/shm offers (= cap); it has to work with what there is
        DSM.get_capacity = (lambda: 10 ** 15) if configured is None else (lambda: cap)
        DSM.SharedMemory = FakeSeg
        DSM.time = Clock
        DISK.SharedMemory = FakeSeg
        DISK.multiprocessing = types.SimpleNamespace(resource_tracker=types.SimpleNamespace(unregister=lambda *a: None))
        DISK.open = _failing_open
        self.m = DSM.Manager(prefix, cap if configured is None else configured)        # the executor passes "sCasc" + its host name
        self.m.pageout_one = GateLock()
        self.front = ServerFront(self.m)
        self.jobs: list[Job] = []
        d = self.m.disk
        self.key_of_shmid: dict[str, str] = {}
        if fast_disk:
            # "fast disk": the job runs to its end inside the submit, i.e. while the server is still inside page_out_at_least
            d.page_out = lambda shmid, cb: self.m.disk._page_out(shmid, cb)
        else:
            d.page_out = lambda shmid, cb: self.jobs.append(Job("out", self.key_of_shmid[shmid], shmid, 0, cb))
        d.page_in = lambda shmid, size, cb: self.jobs.append(Job("in", self.key_of_shmid[shmid], shmid, size, cb))
        self.readers: dict[str, list[tuple[str, int]]] = {k: [] for k in sizes}     # key -> [(rdid, ts)]
        self.written: dict[str, bytes] = {}     # ghost: bytes the writer of the current incarnation wrote
        self.gen: dict[str, int] = {k: 0 for k in sizes}
        self.shmid: dict[str, str] = {}

    def close(self):
        for j in self.jobs:
            if j.gate is not None:
                j.gate["go"].set()
            if j.thread is not None:
                j.thread.join(2)
        try:
            self.m.disk.atexit()
        except Exception:
            pass
        DSM.get_capacity, DSM.SharedMemory, DSM.time, DISK.SharedMemory, DISK.multiprocessing = self._old

    # ---- actions (names and arguments as in Shm.tla's `last`)
    def apply(self, last: tuple) -> Any:
        act = last[0]
        m = self.m
        if act == "Add":
            k = last[1]
            resp = self.front.call(API.AllocateRequest(key=k, l=self.sizes[k], deser_fun=f"deser-{k}"))
            shmid, err = resp.shmid, resp.error
            if not err:
                self.shmid[k] = shmid
                self.key_of_shmid[shmid] = k
                self.gen[k] += 1
                self.readers[k] = []
                try:
                    FakeSeg(shmid, create=True, size=self.sizes[k])     # the client's AllocatedBuffer(create=True)
                except FileExistsError:
                    pass
            return err or "ok"
        if act == "CloseWrite":
            k = last[1]
            ds = m.datasets.get(k)
            if ds is not None and ds.status == DSM.DatasetStatus.created:
                b = bytes([(self.gen[k] * 7 + ord(k[0])) % 251 + 1]) * self.sizes[k]      # differs per incarnation, never zero
                if ds.shmid in FakeSeg.segs:
                    FakeSeg.segs[ds.shmid][:] = b          # the writer's bytes, through its own mapping
                self.written[k] = b
            resp = self.front.call(API.CloseCallback(key=k, rdid=""))
            return "error" if resp.error else "ok"
        if act == "Get":
            k = last[1]
            resp = self.front.call(API.GetRequest(key=k))
            if isinstance(resp, API.OkResponse):          # the server captured an exception
                return ("error",)
            shmid, l, rdid, deser, err = resp.shmid, resp.l, resp.rdid, resp.deser_fun, resp.error
            if err:
                return (err,)
            self.readers[k].append((rdid, Clock.t))
            ok_meta = (l == self.sizes[k] and deser == f"deser-{k}" and shmid == self.shmid[k])
            return ("ok", self.segkind(k), ok_meta)
        if act == "CloseRead":
            k, which = last[1], last[2]
            now = Clock.t
            cands = [r for r in self.readers[k] if (now - r[1] > DSM.STALE_READ) == (which == "stale")]
            if not cands:
                return "no-such-reader"
            r = cands[0]
            resp = self.front.call(API.CloseCallback(key=k, rdid=r[0]))
            if resp.error:
                return "error"
            self.readers[k].remove(r)
            if k not in m.datasets:
                self.readers[k] = []
            return "ok"
        if act == "AskFree":
            return self.front.call(API.FreeSpaceRequest()).free_space
        if act == "AskStatus":
            resp = self.front.call(API.DatasetStatusRequest(key=last[1]))
            return "error" if isinstance(resp, API.OkResponse) else resp.status.name
        if act == "Purge":
            self.front.call(API.PurgeRequest(key=last[1]))
            if last[1] not in m.datasets:
                self.readers[last[1]] = []
            return "ok"
        if act == "AtExit":
            m.atexit()
            for k in self.sizes:
                if k not in m.datasets:
                    self.readers[k] = []
            return None
        if act == "GoStale":
            Clock.t += STALE_NS
            return None
        if act == "OutHalf1":
            k, want = last[1], last[2]
            j = next(j for j in self.jobs if j.kind == "out" and j.key == k and j.phase == "queued")
            gate = {"reached": threading.Event(), "go": threading.Event(), "passed": False}
            j.gate = gate

            def run():
                self.m.pageout_one.gated[threading.get_ident()] = gate
                if j.inject:
                    _FAIL_THREADS.add(threading.get_ident())
                try:
                    self.m.disk._page_out(j.shmid, j.cb)
                finally:
                    _FAIL_THREADS.discard(threading.get_ident())
                    self.m.pageout_one.gated.pop(threading.get_ident(), None)
                gate["reached"].set()

            # inject a failure only when the spec's failure is not already explained by a missing segment
            j.inject = want == "fail" and j.shmid in FakeSeg.segs
            j.thread = threading.Thread(target=run, daemon=True)
            j.thread.start()
            if not gate["reached"].wait(5):
                raise RuntimeError("page-out job neither reached the lock nor finished")
            j.phase = "half"
            return None
        if act == "OutHalf2":
            k = last[1]
            j = next(j for j in self.jobs if j.kind == "out" and j.key == k and j.phase == "half")
            j.gate["go"].set()
            j.thread.join(5)
            if j.thread.is_alive():
                raise RuntimeError("page-out job did not finish")
            self.jobs.remove(j)
            if k not in self.m.datasets:
                self.readers[k] = []
            return None
        if act == "InDone":
            k, want = last[1], last[2]
            j = next(j for j in self.jobs if j.kind == "in" and j.key == k)
            self.jobs.remove(j)
            if want == "fail" and not (j.shmid in FakeSeg.segs):
                # _page_in creates the segment before opening the file: the blank segment is a leftover of the failed job
                _FAIL_THREADS.add(threading.get_ident())
                try:
                    self.m.disk._page_in(j.shmid, j.size, j.cb)
                finally:
                    _FAIL_THREADS.discard(threading.get_ident())
            else:
                self.m.disk._page_in(j.shmid, j.size, j.cb)
            if k not in self.m.datasets:
                self.readers[k] = []
            return None
        raise ValueError(act)

    def page_in_together(self, keys: list[str]) -> None:
        """The successful page-in jobs of `keys` run at the same time on the reader pool, their reads interleaved chunk by chunk."""
        jobs = [next(j for j in self.jobs if j.kind == "in" and j.key == k) for k in keys]
        barrier = threading.Barrier(len(jobs))

        def run(j):
            _LOCKSTEP[threading.get_ident()] = barrier
            try:
                self.m.disk._page_in(j.shmid, j.size, j.cb)
            finally:
                _LOCKSTEP.pop(threading.get_ident(), None)

        ths = [threading.Thread(target=run, args=(j,), daemon=True) for j in jobs]
        for t in ths:
            t.start()
        for t in ths:
            t.join(10)
        if any(t.is_alive() for t in ths):
            raise RuntimeError("concurrent page-in jobs did not finish")
        for j in jobs:
            self.jobs.remove(j)
        for k in keys:
            if k not in self.m.datasets:
                self.readers[k] = []

    # ---- projection
    def segkind(self, k: str) -> str:
        sid = self.shmid.get(k)
        if sid is None or sid not in FakeSeg.segs:
            return "none"
        b = bytes(FakeSeg.segs[sid])
        if k in self.written and b == self.written[k]:
            return "good"
        if b == bytes(len(b)):
            return "blank"
        return "bad"

    def filekind(self, k: str) -> str:
        sid = self.shmid.get(k)
        if sid is None:
            return "none"
        try:
            b = open(f"{self.m.disk.root.name}/{sid}", "rb").read()
        except FileNotFoundError:
            return "none"
        if k in self.written and b == self.written[k]:
            return "good"
        if b == bytes(len(b)):
            return "blank"
        return "bad"

    def project(self) -> dict:
        m = self.m
        now = Clock.t
        st, fresh, stale, cstale, reads, delayed = {}, {}, {}, {}, {}, {}
        for k in self.sizes:
            ds = m.datasets.get(k)
            if ds is None:
                st[k], fresh[k], stale[k], cstale[k], reads[k], delayed[k] = "absent", 0, 0, False, 0, False
                continue
            st[k] = ds.status.name
            fresh[k] = sum(1 for ts in ds.ongoing_reads.values() if now - ts <= DSM.STALE_READ)
            stale[k] = len(ds.ongoing_reads) - fresh[k]
            cstale[k] = ds.status == DSM.DatasetStatus.created and now - ds.created > DSM.STALE_CREATE
            reads[k] = 0 if ds.retrieved_first == 0 else (1 if ds.retrieved_first == ds.retrieved_last else 2)
            delayed[k] = ds.delayed_purge
        return {"st": st, "fresh": fresh, "stale": stale, "cstale": cstale, "reads": reads, "delayed": delayed,
                "free": m.free_space, "lockAll": m.pageout_all.locked(), "count": m.pageout_count,
                "jobs": sorted([j.kind, j.key, j.phase] for j in self.jobs),
                "seg": {k: self.segkind(k) for k in self.sizes}, "file": {k: self.filekind(k) for k in self.sizes}}


_FAIL_THREADS: set[int] = set()
_LOCKSTEP: dict[int, threading.Barrier] = {}      # thread -> barrier shared by the page-in jobs that run at the same time


class _LockstepFile:
    """A file of the page directory read by one of several concurrent page-in jobs: after every read the job waits until its
    peers have read too, i.e. the reads of the jobs interleave chunk by chunk (a schedule the 4-thread reader pool can produce)."""

    def __init__(self, f, barrier):
        self.f, self.barrier = f, barrier

    def _sync(self):
        try:
            self.barrier.wait(timeout=2)
        except threading.BrokenBarrierError:
            pass

    def read(self, *a):
        r = self.f.read(*a)
        self._sync()
        return r

    def readinto(self, b):
        r = self.f.readinto(b)
        self._sync()
        return r

    def __enter__(self):
        return self

    def __exit__(self, *a):
        self.f.close()
        return False

    def __getattr__(self, name):
        return getattr(self.f, name)


def _failing_open(*a, **k):
    """Stands in for `open` inside cascade.shm.disk: fails only in threads marked for an injected failure."""
    if threading.get_ident() in _FAIL_THREADS:
        raise OSError("injected disk failure")
    import builtins
    f = builtins.open(*a, **k)
    b = _LOCKSTEP.get(threading.get_ident())
    return _LockstepFile(f, b) if b is not None and "r" in (a[1] if len(a) > 1 else k.get("mode", "r")) else f


# ---- the specification's state in the same shape
def spec_projection(s: dict) -> dict:
    def kind(v, k):
        if v == ():
            return "none"
        if v == ("blank",):
            return "blank"
        return "good" if v[1] == s["content"][k] else "bad"

    keys = sorted(s["st"])
    return {"st": dict(s["st"]), "fresh": dict(s["fresh"]), "stale": dict(s["stale"]), "cstale": dict(s["cstale"]),
            "reads": dict(s["reads"]), "delayed": dict(s["delayed"]), "free": s["free"], "lockAll": s["lockAll"],
            "count": s["count"],
            "jobs": sorted(["out" if j["kind"] == "outfail" else j["kind"], j["k"], j["phase"]] for j in s["jobs"]),
            "seg": {k: kind(s["seg"][k], k) for k in keys}, "file": {k: kind(s["file"][k], k) for k in keys}}


def expected_answer(last: tuple):
    act = last[0]
    if act == "AskFree":
        return last[1]
    if act == "AskStatus":
        return last[2]
    if act in ("Add", "CloseWrite", "Purge"):
        return last[2]
    if act == "CloseRead":
        return last[3]
    if act == "Get":
        return last[2]
    return None


def replay(behaviour: list[tuple[str, dict]], sizes: dict[str, int], cap: int, fast_disk: bool = False, prefix: str = "t",
           configured: int | None = None) -> dict:
    """Returns {'steps': n, 'mismatch': None | {...}, 'observed': [real projections]}.
    fast_disk: behaviours of Shm!FastDiskSpec; the real page-out jobs run synchronously inside the submit, the spec's job steps
    have no real counterpart and states are compared whenever the spec has no page-out job pending."""
    d = Driver(sizes, cap, fast_disk, prefix, configured)
    observed = []
    together: list[str] = []      # keys of consecutive successful InDone steps: their jobs run concurrently at the last of them
    try:
        steps = list(enumerate(behaviour[1:], start=2))
        for pos, (i, (label, s)) in enumerate(steps):
            last = s["last"]
            exp = spec_projection(s)
            if last[0] == "InDone" and last[2] == "ok" and last[1] not in together:
                nxt = steps[pos + 1][1][1]["last"] if pos + 1 < len(steps) else ("",)
                more = nxt[0] == "InDone" and nxt[2] == "ok" and nxt[1] != last[1] and nxt[1] not in together
                if more or together:
                    together.append(last[1])
                    if more:
                        observed.append(dict(observed[-1]) if observed else {})
                        continue
                    try:
                        d.page_in_together(together)
                    except Exception as e:
                        return {"steps": i - 1, "mismatch": {"step": i, "action": list(last), "harness_error": repr(e)[:300]},
                                "observed": observed}
                    together = []
                    last = ("InDoneTogether",)
                    Driver.together_runs += 1
            if fast_disk and last[0] in ("OutHalf1", "OutHalf2"):
                for k in sizes:
                    if k not in d.m.datasets:
                        d.readers[k] = []
                if any(j["kind"] in ("out", "outfail") for j in s["jobs"]):
                    observed.append(dict(observed[-1]))       # (keeps observed[i] aligned with behaviour step i)
                    continue
                last = ("FastDiskDone",)
            try:
                ans = d.apply(last) if last[0] not in ("FastDiskDone", "InDoneTogether") else None
            except Exception as e:  # the harness could not perform the step
                return {"steps": i - 1, "mismatch": {"step": i, "action": list(last), "harness_error": repr(e)[:300]},
                        "observed": observed}
            got = d.project()
            got["act"] = [str(a) for a in last[:3]]
            # attributes of pending jobs that cannot be observed from outside (which half credits) come from the spec
            got["jobs_full"] = [["out" if j["kind"] == "outfail" else j["kind"], j["k"], j["phase"], bool(j["credit"]),
                                 j["kind"]] for j in s["jobs"]]
            # `blank` vs `good` for a key whose writer has not closed is not observable through content: normalise
            diffs = {}
            ea = expected_answer(last)
            if last[0] == "Get":
                if ans[0] != ea:
                    diffs["answer"] = [ea, ans[0]]
                elif ea == "ok":
                    want_kind = "none" if last[3] == () else "blank" if last[3] == ("blank",) else \
                        ("good" if last[3][1] == s["content"][last[1]] else "bad")
                    if ans[1] != want_kind:
                        diffs["reader_sees"] = [want_kind, ans[1]]
                    if not ans[2]:
                        diffs["get_metadata"] = ["size/deser_fun/shmid of the key", "different"]
                got["got_answer"] = ans[0]
                got["reader_sees"] = ans[1] if len(ans) > 1 else "n/a"
            elif ea is not None and ans != ea:
                diffs["answer"] = [ea, ans]
            pending_out = fast_disk and any(j["kind"] in ("out", "outfail") for j in s["jobs"])
            for f in exp:
                if exp[f] != got[f] and not pending_out:
                    diffs[f] = [exp[f], got[f]]
            observed.append(dict(observed[-1]) if pending_out and observed else got)
            if diffs:
                return {"steps": i - 1, "mismatch": {"step": i, "action": list(map(str, last)), "diffs": diffs},
                        "observed": observed}
        return {"steps": len(behaviour) - 1, "mismatch": None, "observed": observed}
    finally:
        d.close()
