"""Feed a scripted message sequence to the REAL worker entrypoint() and record what it does."""
from __future__ import annotations

import types

import cascade.executor.runner.entrypoint as EP
import cascade.executor.runner.memory as MEM
import cascade.executor.serde as serde
from cascade.executor.msg import DatasetPublished, DatasetPurge, TaskFailure, TaskSequence, WorkerShutdown
from cascade.executor.runner.memory import ds2shmid
from cascade.low.core import DatasetId, JobInstance, Task2TaskEdge, TaskDefinition, TaskInstance, WorkerId
from cascade.low.views import param_source


def _c(a, b=None):
    return ("c", a, b)


def _p():
    return "p"


class Done(BaseException):
    pass


def make_job() -> JobInstance:
    fc, fp = TaskDefinition.func_enc(_c), TaskDefinition.func_enc(_p)
    td = lambda f: TaskDefinition(func=f, environment=[], input_schema={}, output_schema={"0": "Any"})
    ti = lambda f: TaskInstance(definition=td(f), static_input_kw={}, static_input_ps={})
    edges = [Task2TaskEdge(source=DatasetId("p1", "0"), sink_task="c", sink_input_kw=None, sink_input_ps=0),
             Task2TaskEdge(source=DatasetId("p2", "0"), sink_task="c", sink_input_kw=None, sink_input_ps=1),
             Task2TaskEdge(source=DatasetId("p1", "0"), sink_task="c2", sink_input_kw=None, sink_input_ps=0)]
    return JobInstance(tasks={"p1": ti(fp), "p2": ti(fp), "c": ti(fc), "c2": ti(fc)}, edges=edges)


JOB = None


def run_sequence(seq: list[str]) -> dict:
    global JOB
    if JOB is None:
        JOB = make_job()
    job = JOB
    w = WorkerId("h0", "w0")
    log: list = []
    store: dict[str, list] = {}

    def message(m: str):
        if m.startswith("ts_"):
            t = m[3:]
            return TaskSequence(worker=w, tasks=[t], publish={DatasetId(t, "0")})
        d = DatasetId(m.split("_")[1], "0")
        if m.startswith("pub_"):
            # the dataset arrives on the host, then it is announced
            b, fn = serde.ser_output(("value-of", d.task), "Any")
            store[ds2shmid(d)] = [bytearray(b), fn]
            return DatasetPublished(origin="h0", ds=d, transmit_idx=1)
        store.pop(ds2shmid(d), None)
        return DatasetPurge(ds=d)

    script = list(seq)

    class Sock:
        def bind(self, a):
            pass

        def recv(self):
            if not script:
                raise Done
            return serde.ser_message(message(script.pop(0)))

    class Buf:
        def __init__(s, key, l=0, create=False, df=""):
            if create:
                store[key] = [bytearray(l), df]
            elif key not in store:
                raise KeyError("shm: no dataset " + key)
            s.key, s.deser_fun = key, store[key][1]

        def view(s):
            return memoryview(store[s.key][0])

        def close(s):
            pass

    old = (EP.zmq, EP.callback, MEM.callback, MEM.shm_client, EP.execute_sequence, MEM.Memory.provide, EP.logging.config.dictConfig)
    EP.zmq = types.SimpleNamespace(Context=lambda: types.SimpleNamespace(socket=lambda kind: Sock()), PULL=0)

    def cb(addr, m):
        if isinstance(m, TaskFailure):
            log.append(["taskfailure", m.task or ""])

    EP.callback, MEM.callback = cb, cb
    MEM.shm_client = types.SimpleNamespace(allocate=lambda key, l, deser_fun: Buf(key, l, True, deser_fun), get=lambda key: Buf(key))
    EP.logging.config.dictConfig = lambda c: None
    o_es, o_prov = old[4], old[5]

    def es(ts, memory, pckg, rc):
        log.append(["exec", ts.tasks[0]])
        return o_es(ts, memory, pckg, rc)

    def prov(self, inputId, annotation):
        if inputId not in self.local:
            log.append(["provide", inputId.task])
        return o_prov(self, inputId, annotation)

    EP.execute_sequence = es
    MEM.Memory.provide = prov
    rc = EP.RunnerContext(workerId=w, job=job, callback="cb", param_source=param_source(job.edges))
    try:
        EP.entrypoint(rc)
    except Done:
        pass
    except Exception as e:
        log.append(["raise", "double task sequence" if "double task sequence" in str(e) else repr(e)[:60]])
    finally:
        EP.zmq, EP.callback, MEM.callback, MEM.shm_client, EP.execute_sequence, MEM.Memory.provide, EP.logging.config.dictConfig = old
    # the spec logs the loads of an execution before the exec entry; the code calls execute_sequence first: normalise
    return {"log": _reorder(log)}


def _reorder(log: list) -> list:
    out = []
    i = 0
    while i < len(log):
        if log[i][0] == "exec":
            j = i + 1
            loads = []
            while j < len(log) and log[j][0] == "provide":
                loads.append(log[j])
                j += 1
            out += sorted(loads) + [log[i]]
            i = j
        else:
            out.append(log[i])
            i += 1
    return out
