"""Concurrent clients of one real shm server (cascade.shm.server.LocalServer over UDP, real cascade.shm.client, real
segments): several threads of one process - as the data server's thread pool does - allocate, write, read back and purge
datasets under their OWN keys at the same time.  The capacity is never binding and keys are disjoint per client, so each
client's history, taken alone, must be the sequential behaviour spec/Shm.tla prescribes for its keys: Add -> granted,
CloseWrite -> ok, Get -> granted with exactly the bytes and the decoding function written under THAT key.

Prints one JSON object {"ops": n, "errors": [...]}.
usage: python -m harness.drive.shm_clients <port> <prefix> <threads> <rounds>
"""
from __future__ import annotations

import json
import sys
import threading
import time
import warnings

warnings.filterwarnings("ignore")


def main() -> int:
    port, prefix, nthreads, rounds = int(sys.argv[1]), sys.argv[2], int(sys.argv[3]), int(sys.argv[4])
    late_s = float(sys.argv[5]) if len(sys.argv) > 5 else 0.0
    import logging
    logging.disable(logging.CRITICAL)
    import cascade.shm.api as api
    import cascade.shm.client as client
    from cascade.shm.server import LocalServer

    server = LocalServer(port, prefix, 64 * 1024 * 1024)
    if late_s:
        # one answer of the server (the grant of a read of key "late") reaches its client `late_s` seconds late
        real_respond, done = server.respond, []

        def respond(comm, address):
            if isinstance(comm, api.GetResponse) and comm.deser_fun == "deser.of.late" and not comm.error and not done:
                done.append(1)
                threading.Timer(late_s, real_respond, (comm, address)).start()
                return
            real_respond(comm, address)

        server.respond = respond
    st = threading.Thread(target=server.start, daemon=True)
    st.start()
    api.publish_client_port(port)
    client.ensure()
    errors: list[str] = []
    ops = [0]
    lock = threading.Lock()
    barrier = threading.Barrier(nthreads)     # (the late reader does not take part in it)

    def note(msg: str) -> None:
        with lock:
            if len(errors) < 20:
                errors.append(msg)

    def worker(t: int) -> None:
        for i in range(rounds):
            key = f"c{t}r{i}"
            size = 1 + (t * 7 + i * 3) % 61
            payload = bytes([(t * 31 + i) % 251 + 1]) * size
            fn = f"deser.of.{key}"
            try:
                if i % 8 == 0:
                    try:
                        barrier.wait(timeout=30)      # only a means to make the clients collide; a slow peer is no error
                    except threading.BrokenBarrierError:
                        pass
                buf = client.allocate(key, size, fn)
                buf.view()[:size] = payload
                buf.close()
                rb = client.get(key)
                got, gfn, gl = bytes(rb.view()), rb.deser_fun, rb.l
                rb.close()
                if got != payload or gfn != fn or gl != size:
                    note(f"client {t}: key {key} written {payload[:4]!r}x{size} with {fn}, read {got[:4]!r}x{gl} with {gfn}")
                if i % 2 == 0:
                    client.purge(key)
                with lock:
                    ops[0] += 4
            except Exception as e:
                note(f"client {t}: {type(e).__name__}: {str(e)[:120]} at key {key}")

    def late_reader() -> None:
        # a read whose grant arrives late, a purge during that read, the reader closes: the dataset must be gone afterwards
        try:
            buf = client.allocate("late", 8, "deser.of.late")
            buf.view()[:8] = b"latelate"
            buf.close()
            rb = client.get("late")
            ok = bytes(rb.view()) == b"latelate"
            client.purge("late")
            rb.close()
            time.sleep(0.2)
            st_after = client.status("late")
            if not ok or st_after != api.DatasetStatus.not_present:
                note(f"late answer: bytes ok={ok}; after purge during the read and the reader's close the dataset is {st_after.name}")
        except Exception as e:
            note(f"late answer: {type(e).__name__}: {str(e)[:120]}")

    ths = [threading.Thread(target=worker, args=(t,), daemon=True) for t in range(nthreads)]
    if late_s:
        ths.append(threading.Thread(target=late_reader, daemon=True))
    for th in ths:
        th.start()
    # no fixed time limit (the machine may be busy): a client counts as stalled when NOBODY has completed a request for 45 s
    last_ops, last_change = -1, time.time()
    while any(th.is_alive() for th in ths):
        time.sleep(0.2)
        with lock:
            now_ops = ops[0]
        if now_ops != last_ops:
            last_ops, last_change = now_ops, time.time()
        elif time.time() - last_change > 45:
            break
    stalled = [i for i, th in enumerate(ths) if th.is_alive()]
    if stalled:
        note(f"clients {stalled} made no progress for 45 s (a request was never answered)")
    free = None
    try:
        if not stalled:
            # everything that was not purged is still accounted for
            free = client.get_free_space()
            client.shutdown()
    except Exception as e:
        note(f"teardown: {type(e).__name__}: {e}")
    try:
        server.manager.atexit()
    except Exception:
        pass
    print(json.dumps({"ops": ops[0], "errors": errors, "stalled": stalled, "free": free}), flush=True)
    return 0


if __name__ == "__main__":
    import os
    rc = main()
    os._exit(rc)


def run_tier(ctx, pid: str) -> None:
    """Called from the C07 and C09 checks: runs the concurrent clients in a subprocess and reports interference."""
    import glob
    import os
    import subprocess

    from ..common import ROOT, MachineryError
    from ..props.c05 import _free_port_base

    prefix = f"sCascq{os.getpid() % 100000}"
    nthreads, rounds = (6, 150) if ctx.quick else (8, 1500)
    out = None
    for attempt in range(2):
        port = _free_port_base(10)
        p = subprocess.run([sys.executable, "-W", "ignore", "-m", "harness.drive.shm_clients", str(port), prefix + str(attempt), str(nthreads),
                            str(rounds), "6.5" if pid == "C09" else "0"], cwd=ROOT, stdout=subprocess.PIPE, stderr=subprocess.PIPE, text=True, timeout=3600)
        for f in glob.glob(f"/dev/shm/{prefix}*"):
            try:
                os.unlink(f)
            except OSError:
                pass
        lines = [l for l in p.stdout.splitlines() if l.startswith("{")]
        if lines:
            out = json.loads(lines[-1])
            break
        if "Address already in use" not in p.stderr:
            raise MachineryError("concurrent shm clients: no result\n" + p.stderr[-1500:])
    if out is None:
        raise MachineryError("concurrent shm clients: no free port")
    ctx.coverage["concurrent_client_requests"] = out["ops"]
    ctx.coverage["concurrent_clients"] = nthreads
    if out["errors"]:
        ctx.violate("clients:concurrent_clients_interfere",
                    f"{nthreads} threads using the real shm client against one real shm server, each on its own keys, do not see the "
                    f"sequential behaviour of their keys: {out['errors'][:4]}", {"observed": out}, clause="concurrent_clients_interfere")
