"""P2 binding for spec/Acked.tla: replay TLC behaviours into the REAL ReliableSender / Listener and the REAL endpoint
loops (Bridge.recv_events, Executor.recv_loop) over an in-memory lossy network and a virtual clock.

Seams (harness process only): comms.get_context, comms.zmq (Poller / socket constants), comms.time,
comms.max_retries_per_message; Bridge and Executor are created with __new__ + attributes (no process is spawned);
executor.callback records what the executor hands to its workers.
"""
from __future__ import annotations

import pickle
import types
from typing import Any

import cascade.executor.bridge as BR
import cascade.executor.comms as C
import cascade.executor.executor as EX
from cascade.executor.msg import (Ack, DatasetId, DatasetPublished, DatasetPurge, DatasetTransmitPayload,
                                  DatasetTransmitPayloadHeader, ExecutorRegistration, Syn, TaskSequence)
from cascade.executor.serde import des_message, ser_message
from cascade.low.core import Environment, WorkerId

CTRL, EXEC = "tcp://ctrl:1", "tcp://h0:1"
ADDR = {"ctrl": CTRL, "exec": EXEC}
GRACE_MS = 800


class Stop(BaseException):
    """Ends one iteration of an endpoint loop (raised by the fake poller at the second timed poll)."""


class Raised(BaseException):
    """The endpoint's loop reacted to an exception of the acknowledged layer (shutdown / terminate was entered)."""


class Clock:
    """Stands in for the `time` module of the code under test: a wall clock and a monotonic clock that advance together but
    have different origins (as the real ones do), so that stamps of one must not be compared with the other."""
    now = 10 ** 12
    MONO_ORIGIN = 10 ** 12 - 5 * 10 ** 9       # the monotonic clock started five seconds ago

    @classmethod
    def time_ns(cls):
        return cls.now

    @classmethod
    def time(cls):
        return cls.now / 1e9

    @classmethod
    def monotonic_ns(cls):
        return cls.now - cls.MONO_ORIGIN

    @classmethod
    def monotonic(cls):
        return (cls.now - cls.MONO_ORIGIN) / 1e9

    perf_counter_ns = monotonic_ns
    perf_counter = monotonic

    @staticmethod
    def sleep(seconds):
        return None

    @classmethod
    def since(cls, stamp: int) -> int:
        """nanoseconds elapsed since `stamp`, whichever of the two clocks it was read from (their ranges are far apart): the
        harness does not prescribe which clock the code under test uses, only that it uses one consistently"""
        return (cls.monotonic_ns() if stamp < cls.now // 2 else cls.now) - stamp


class Net:
    def __init__(self):
        self.flight: dict[str, list[tuple[bytes, ...]]] = {}     # frames on their way to an address
        self.inbox: dict[str, list[tuple[bytes, ...]]] = {}      # frames the PULL socket of that address will return


class FakeSocket:
    def __init__(self, net: Net):
        self.net, self.addr = net, None

    def bind(self, addr):
        self.addr = addr
        self.net.inbox.setdefault(addr, [])

    def connect(self, addr):
        self.addr = addr

    def set(self, *a):
        pass

    def send_multipart(self, frames):
        self.net.flight.setdefault(self.addr, []).append(tuple(bytes(f) for f in frames))

    def send(self, b):
        self.send_multipart((b,))

    def recv_multipart(self):
        return list(self.net.inbox[self.addr].pop(0))


class FakePoller:
    budget = 1      # timed polls allowed before Stop

    def __init__(self):
        self.sock = None

    def register(self, sock, flags=0):
        self.sock = sock

    def poll(self, timeout=None):
        if self.sock.net.inbox.get(self.sock.addr):
            return [(self.sock, 1)]
        if timeout is None or timeout > 0:
            if FakePoller.budget <= 0:
                raise Stop
            FakePoller.budget -= 1
        return []


class P:  # stub child process
    exitcode = None
    pid = 1

    def is_alive(self):
        return True

    def join(self, *a):
        pass

    def kill(self):
        pass


class NeverBreach:
    def step(self):
        pass

    def is_breach(self):
        return 0

    def elapsed_ms(self):
        return 0


class World:
    """Controller endpoint (real Bridge) + one executor endpoint (real Executor), wired through Net."""

    def __init__(self, R: int, same_payload: bool = False):
        # same_payload: every data message of an endpoint has the SAME content (two purges of one dataset, two equal commands):
        # messages are told apart by their Syn only, as the protocol does
        self.same_payload = same_payload
        self.net = Net()
        net = self.net
        self._old = (C.get_context, C.zmq, C.time, C.max_retries_per_message, EX.callback)
        C.get_context = lambda: types.SimpleNamespace(socket=lambda kind: FakeSocket(net))
        C.zmq = types.SimpleNamespace(Poller=FakePoller, PUSH=1, PULL=2, POLLIN=1, LINGER=17)
        C.time = Clock
        C.max_retries_per_message = R
        Clock.now = 10 ** 12
        self.to_workers: list[Any] = []
        EX.callback = lambda addr, m: self.to_workers.append(m)
        self.w = WorkerId("h0", "w0")
        # controller
        b = BR.Bridge.__new__(BR.Bridge)
        b.mlistener = C.Listener(CTRL)
        b.heartbeat_checker = {"h0": NeverBreach()}
        b.transmit_idx_counter = 0
        b.sender = C.ReliableSender(CTRL, GRACE_MS)
        b.sender.add_host("h0", EXEC)
        b.sender.add_host("data.h0", "tcp://h0:2")
        b.environment = Environment(workers={})
        self.b = b
        self.raised = {"ctrl": False, "exec": False}

        def b_shutdown():
            self.raised["ctrl"] = True
            raise Raised

        b.shutdown = b_shutdown
        # executor
        e = EX.Executor.__new__(EX.Executor)
        e.host = "h0"
        e.workers = {self.w: P()}
        e.datasets = set()
        e.heartbeat_watcher = NeverBreach()
        e.terminating = False
        e.mlistener = C.Listener(EXEC)
        e.sender = C.ReliableSender(EXEC, GRACE_MS)
        e.sender.add_host("controller", CTRL)
        e.shm_process, e.data_server = P(), P()
        e.daddress = "tcp://h0:2"
        e.registration = ExecutorRegistration(host="h0", maddress=EXEC, daddress="tcp://h0:2", workers=[])

        def e_terminate():
            self.raised["exec"] = True
            e.terminating = True
            raise Raised

        e.terminate = e_terminate
        self.e = e
        self.delivered = {"ctrl": [], "exec": []}

    def close(self):
        C.get_context, C.zmq, C.time, C.max_retries_per_message, EX.callback = self._old

    # ---- frames
    @staticmethod
    def kind(frames) -> tuple:
        m0 = des_message(frames[0])
        if isinstance(m0, Syn):
            return ("data", m0.idx)
        if isinstance(m0, Ack):
            return ("ack", m0.idx)
        return ("other", type(m0).__name__)

    def bag(self, e: str) -> dict:
        out: dict = {}
        for fr in self.net.flight.get(ADDR[e], []):
            k = self.kind(fr)
            out[k] = out.get(k, 0) + 1
        return out

    def _find(self, e: str, f: tuple):
        for fr in self.net.flight.get(ADDR[e], []):
            if self.kind(fr) == (f[0], f[1]):
                return fr
        raise LookupError(f"no frame {f} in flight to {e}")

    # ---- actions
    def apply(self, last: tuple) -> None:
        act = last[0]
        if act == "Send":
            e, i = last[1], last[2]
            if self.same_payload:
                i = 0
            if e == "ctrl":
                self.b.task_sequence(TaskSequence(worker=self.w, tasks=[f"t{i}"], publish=set()))
            else:
                self.e.to_controller(DatasetPublished(origin=self.w, ds=DatasetId(f"t{i}", "0"), transmit_idx=None))
        elif act == "Tick":
            Clock.now += (GRACE_MS + 1) * 1_000_000
        elif act == "Age":
            Clock.now += 60 * 1_000_000_000
        elif act == "Drop":
            e, f = last[1], last[2]
            self.net.flight[ADDR[e]].remove(self._find(e, f))
        elif act == "Dup":
            e, f = last[1], last[2]
            self.net.flight[ADDR[e]].append(self._find(e, f))
        elif act == "Iter":
            e, f = last[1], last[2]
            if f[0] != "none":
                fr = self._find(e, f)
                self.net.flight[ADDR[e]].remove(fr)
                self.net.inbox[ADDR[e]].append(fr)
            FakePoller.budget = 1
            try:
                if e == "ctrl":
                    evs = self.b.recv_events()
                    self.delivered["ctrl"] += [int(ev.ds.task[1:]) for ev in evs]
                else:
                    n0 = len(self.to_workers)
                    self.e.recv_loop()
                    # (recv_loop only returns when terminating)
            except Stop:
                pass
            except Raised:
                pass
            except ValueError:
                # Bridge.recv_events re-raises after shutdown(); our shutdown stub aborts earlier, so this is unexpected
                self.raised["ctrl"] = True
            if e == "exec":
                self.delivered["exec"] = [int(m.tasks[0][1:]) for m in self.to_workers if isinstance(m, TaskSequence)]
        else:
            raise ValueError(act)

    # ---- projection
    def project(self) -> dict:
        now = Clock.now
        out = {"sidx": {}, "inflight": {}, "net": {}, "acked": {}, "delivered": {}, "raised": dict(self.raised)}
        for e, sender, lst in (("ctrl", self.b.sender, self.b.mlistener), ("exec", self.e.sender, self.e.mlistener)):
            out["sidx"][e] = sender.idx
            out["inflight"][e] = {i: [r.remaining, Clock.since(r.at) > sender.resend_grace] for i, r in sender.inflight.items()}
            out["net"][e] = {f"{k[0]}:{k[1]}": n for k, n in sorted(self.bag(e).items())}
            out["acked"][e] = acked_view(lst)
            out["delivered"][e] = list(self.delivered[e])
        return out


def acked_view(listener):
    """The Syns a Listener remembers, as sorted idx values - or None when the library represents them in some other way than a
    collection of Syn (the memory of seen Syns is internal; what it must achieve is judged on deliveries and acknowledgements)."""
    try:
        return sorted(s.idx for s in list(listener.acked))
    except Exception:
        return None


def _fun(x) -> dict:
    """A TLA+ function as printed by TLC: dict, or a tuple when its domain is 1..n, or () when empty."""
    if isinstance(x, dict):
        return x
    return {i + 1: v for i, v in enumerate(x)}


def spec_projection(s: dict) -> dict:
    out = {"sidx": dict(s["sidx"]), "inflight": {}, "net": {}, "acked": {}, "delivered": {}, "raised": dict(s["raised"])}
    for e in ("ctrl", "exec"):
        infl = s["inflight"][e]
        out["inflight"][e] = {i: [r["rem"], r["stale"]] for i, r in _fun(infl).items()}
        nb = s["net"][e]
        out["net"][e] = {f"{k[0]}:{k[1]}": n for k, n in sorted(_fun(nb).items())}
        out["acked"][e] = sorted(s["acked"][e])
        out["delivered"][e] = list(s["delivered"][e])
    return out


def replay(behaviour: list[tuple[str, dict]], R: int, same_payload: bool = False) -> dict:
    w = World(R, same_payload)
    try:
        for i, (label, s) in enumerate(behaviour[1:], start=2):
            last = s["last"]
            try:
                w.apply(last)
            except LookupError as e:
                return {"steps": i - 1, "mismatch": {"step": i, "action": _js(last), "harness_error": repr(e)}}
            got, exp = w.project(), spec_projection(s)
            if same_payload:      # contents are indistinguishable: how many were delivered is what can be compared
                for e_ in ("ctrl", "exec"):
                    got["delivered"][e_], exp["delivered"][e_] = len(got["delivered"][e_]), len(exp["delivered"][e_])
            # once an endpoint has raised, its own further bookkeeping (failure report, shutdown messages) is outside the model
            diffs = {}
            for f in exp:
                for e in ("ctrl", "exec"):
                    if exp[f][e] != got[f][e] and not (f == "acked" and got[f][e] is None):
                        if got["raised"][e] or got["raised"]["exec" if e == "ctrl" else "ctrl"]:
                            if f != "raised":
                                continue
                        diffs[f"{f}.{e}"] = [exp[f][e], got[f][e]]
            if diffs:
                return {"steps": i - 1, "mismatch": {"step": i, "action": _js(last), "diffs": _js(diffs)}}
            if any(got["raised"].values()):
                return {"steps": i - 1, "mismatch": None, "ended": "raised"}
        return {"steps": len(behaviour) - 1, "mismatch": None}
    finally:
        w.close()


def _js(o):
    if isinstance(o, dict):
        return {str(k): _js(v) for k, v in o.items()}
    if isinstance(o, (list, tuple, set, frozenset)):
        return [_js(x) for x in o]
    return o


# ---------------------------------------------------------------------------------------------------------------
# malformed-frame catalogue: the real Listener._recv_one on every shape of multipart message
# ---------------------------------------------------------------------------------------------------------------
def classify_shapes(shapes: list[list[str]]) -> list[dict]:
    net = Net()
    old = (C.get_context, C.zmq, C.time)
    C.get_context = lambda: types.SimpleNamespace(socket=lambda kind: FakeSocket(net))
    C.zmq = types.SimpleNamespace(Poller=FakePoller, PUSH=1, PULL=2, POLLIN=1, LINGER=17)
    C.time = Clock
    ds = DatasetId("t", "0")
    hdr = DatasetTransmitPayloadHeader(confirm_address="tcp://src:2", confirm_idx=5, ds=ds, deser_fun="cloudpickle.loads")
    msg = DatasetPurge(ds)
    part = {"syn": lambda k: ser_message(Syn(100 + k, "tcp://peer:9")), "hdr": lambda k: pickle.dumps(hdr),
            "msg": lambda k: ser_message(msg), "raw": lambda k: b"\x00\x01 not a pickle"}
    out = []
    try:
        for k, shape in enumerate(shapes):
            for seen in (False, True):
                addr = f"tcp://l{k}{int(seen)}:1"
                lst = C.Listener(addr)
                net.flight["tcp://peer:9"] = []
                if seen and shape and shape[0] == "syn":
                    # make the Syn a seen one the way a sender would: a well-formed message with that Syn was received before
                    net.inbox[addr].append((ser_message(Syn(100 + k, "tcp://peer:9")), ser_message(msg)))
                    lst._recv_one(0)
                frames = tuple(part[p](k) for p in shape)
                net.inbox[addr].append(frames)
                net.flight["tcp://peer:9"] = []
                try:
                    r = lst._recv_one(0)
                    if r is None:
                        res = "none"
                    elif isinstance(r, DatasetTransmitPayload):
                        res = "payload" if (r.header == hdr and bytes(r.value) == frames[-1]) else "payload_corrupt"
                    else:
                        res = "msg" if r == msg else "other:" + type(r).__name__
                except Exception:
                    res = "error"
                acks = [des_message(f[0]) for f in net.flight["tcp://peer:9"]]
                ack = bool(acks) and all(isinstance(a, Ack) and a.idx == 100 + k for a in acks)
                out.append({"shape": shape, "seen": seen, "ack": ack, "res": res})
    finally:
        C.get_context, C.zmq, C.time = old
    return out


def multi_sender(cases: list) -> list[dict]:
    """Frames from several senders (each with its own address and its own idx counter) into ONE real Listener."""
    net = Net()
    old = (C.get_context, C.zmq, C.time)
    C.get_context = lambda: types.SimpleNamespace(socket=lambda kind: FakeSocket(net))
    C.zmq = types.SimpleNamespace(Poller=FakePoller, PUSH=1, PULL=2, POLLIN=1, LINGER=17)
    C.time = Clock
    out = []
    try:
        for k, seq in enumerate(cases):
            addr = f"tcp://multi{k}:1"
            lst = C.Listener(addr)
            delivered, acks = [], []
            for sender, idx in seq:
                saddr = f"tcp://sender{sender}:1"
                net.flight[saddr] = []
                msg = DatasetPurge(DatasetId(f"{sender}", str(idx)))
                net.inbox[addr].append((ser_message(Syn(idx, saddr)), ser_message(msg)))
                FakePoller.budget = 1
                try:
                    for m in lst.recv_messages(0):
                        delivered.append([m.ds.task, int(m.ds.output)])
                except Exception as e:
                    delivered.append(["error", repr(e)[:40]])
                for s2 in ("A", "B", "D"):
                    for fr in net.flight.get(f"tcp://sender{s2}:1", []):
                        a = des_message(fr[0])
                        acks.append([s2, a.idx] if isinstance(a, Ack) else [s2, "not-an-ack"])
                    net.flight[f"tcp://sender{s2}:1"] = []
            out.append({"delivered": delivered, "acks": acks})
    finally:
        C.get_context, C.zmq, C.time = old
    return out
