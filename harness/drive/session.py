"""P2 binding for spec/Session.tla: the REAL Bridge.__init__ (registration loop) and Bridge.shutdown run in a thread
whose poller blocks until the behaviour feeds the next frame (or lets the poll time out); executors are simulated at the
frame level with the real serde."""
from __future__ import annotations

import threading
import types

import cascade.executor.bridge as BR
import cascade.executor.comms as C
from cascade.executor.msg import Ack, ExecutorExit, ExecutorRegistration, ExecutorShutdown, Syn, Worker
from cascade.executor.serde import des_message, ser_message
from cascade.low.core import WorkerId

from .acked import Clock, FakeSocket, Net

CTL = "tcp://ctrl:1"
GRACE_MS = 800


def maddr(h): return f"tcp://{h}:1"


class World:
    def __init__(self, hosts: list[str]):
        self.hosts = hosts
        self.net = Net()
        net = self.net
        self.cv = threading.Condition()
        self.idle = False          # the bridge thread is parked in poll()
        self.feed = None           # "frame" | "timeout"
        world = self

        class BlockingPoller:
            def register(self, sock, flags=0):
                self.sock = sock

            def poll(self, timeout=None):
                if net.inbox.get(self.sock.addr):
                    return [(self.sock, 1)]
                if timeout == 0:
                    return []
                with world.cv:
                    world.idle = True
                    world.cv.notify_all()
                    while world.feed is None:
                        world.cv.wait(10)
                    f, world.feed = world.feed, None
                    world.idle = False
                if f == "stop":
                    raise SystemExit
                return [(self.sock, 1)] if net.inbox.get(self.sock.addr) else []

        self._old = (C.get_context, C.zmq, C.time, BR.time)
        C.get_context = lambda: types.SimpleNamespace(socket=lambda kind: FakeSocket(net))
        C.zmq = types.SimpleNamespace(Poller=BlockingPoller, PUSH=1, PULL=2, POLLIN=1, LINGER=17)
        C.time = Clock
        BR.time = Clock
        Clock.now = 10 ** 12
        self.bridge = None
        self.error = None
        self.phase = "registering"
        self.exec = {h: "up" for h in hosts}
        self.idx = {h: 0 for h in hosts}
        self.gave_up = False
        self.thread = threading.Thread(target=self._init, daemon=True)
        self.thread.start()
        self._wait_idle()

    def _init(self):
        try:
            self.bridge = BR.Bridge.__new__(BR.Bridge)
            self.bridge.__init__(CTL, len(self.hosts))
        except SystemExit:
            pass
        except Exception as e:
            self.error = repr(e)
        finally:
            with self.cv:
                self.cv.notify_all()

    def _shutdown(self):
        try:
            self.bridge.shutdown()
        except SystemExit:
            pass
        except Exception as e:
            self.error = repr(e)
        finally:
            with self.cv:
                self.cv.notify_all()

    def _wait_idle(self):
        with self.cv:
            self.cv.wait_for(lambda: self.idle or not self.thread.is_alive(), 10)
        if self.thread.is_alive() and not self.idle:
            raise RuntimeError("bridge thread neither parked nor finished")

    def _feed(self, what: str):
        with self.cv:
            self.feed = what
            self.cv.notify_all()
        # wait until the thread parked again or ended
        with self.cv:
            self.cv.wait_for(lambda: (self.idle and self.feed is None) or not self.thread.is_alive(), 10)

    def close(self):
        if self.thread.is_alive():
            with self.cv:
                self.feed = "stop"
                self.cv.notify_all()
            self.thread.join(5)
        C.get_context, C.zmq, C.time, BR.time = self._old

    # ---- frames
    def kind(self, to, fr):
        m0 = des_message(fr[0])
        if isinstance(m0, Ack):
            return ("ack", self._host_of_ack(m0.idx))
        m1 = des_message(fr[1])
        if isinstance(m1, ExecutorRegistration):
            return ("reg", m1.host)
        if isinstance(m1, ExecutorShutdown):
            return ("shut", next(h for h in self.hosts if maddr(h) == to))
        if isinstance(m1, ExecutorExit):
            return ("exit", m1.host)
        return ("other", type(m1).__name__)

    def _host_of_ack(self, idx):
        rec = self.shut_idx.get(idx)
        return rec if rec is not None else "?"

    def bag(self):
        self.shut_idx = {i: r.host for i, r in self.bridge.sender.inflight.items()} if self.bridge and hasattr(self.bridge, "sender") else {}
        self.shut_idx.update(getattr(self, "_acked_idx", {}))
        out = {}
        for to, frs in self.net.flight.items():
            for fr in frs:
                k = self.kind(to, fr)
                if k[0] == "ack" and to != CTL:
                    continue          # acks of registrations going back to executors are not modelled
                out[f"{k[0]}:{k[1]}"] = out.get(f"{k[0]}:{k[1]}", 0) + 1
        return dict(sorted(out.items()))

    def _take(self, to, want):
        for fr in self.net.flight.get(to, []):
            if self.kind(to, fr) == want:
                self.net.flight[to].remove(fr)
                return fr
        raise LookupError(f"frame {want} not in flight to {to}")

    # ---- actions
    def apply(self, last):
        act = last[0]
        if act == "Register":
            h = last[1]
            reg = ExecutorRegistration(host=h, maddress=maddr(h), daddress=f"tcp://{h}:2",
                                       workers=[Worker(worker_id=WorkerId(h, "w0"), cpu=1, gpu=0, memory_mb=1)])
            self.net.flight.setdefault(CTL, []).append((ser_message(Syn(self.idx[h], maddr(h))), ser_message(reg)))
            self.idx[h] += 1
        elif act in ("CtrlRegister", "CtrlIgnoreReg"):
            fr = self._take(CTL, ("reg", last[1]))
            self.net.inbox[CTL].append(fr)
            if act == "CtrlRegister":
                self._feed("frame")
                if not self.thread.is_alive() and self.error is None:
                    self.phase = "running"
            else:
                msgs = self.bridge.mlistener.recv_messages(0)      # the controller loop's recv_events ignores registrations
                assert all(isinstance(m, ExecutorRegistration) for m in msgs)
        elif act == "StartShutdown":
            self.bag()
            self.thread = threading.Thread(target=self._shutdown, daemon=True)
            self.phase = "shutting"
            self.thread.start()
            self._wait_idle()
            if not self.thread.is_alive():
                self.phase = "ended"
        elif act == "ExecShutdown":
            h = last[1]
            fr = self._take(maddr(h), ("shut", h))
            syn = des_message(fr[0])
            self._acked_idx = getattr(self, "_acked_idx", {})
            self._acked_idx[syn.idx] = h
            self.net.flight.setdefault(CTL, []).append((ser_message(Ack(syn.idx)),))
            self.net.flight[CTL].append((ser_message(Syn(self.idx[h], maddr(h))), ser_message(ExecutorExit(h))))
            self.idx[h] += 1
            self.exec[h] = "gone"
        elif act == "CtrlShutIter":
            f = last[1]
            if f[0] == "none":
                self._feed("timeout")
            else:
                fr = self._take(CTL, (f[0], f[1]))
                self.net.inbox[CTL].append(fr)
                self._feed("frame")
            if not self.thread.is_alive():
                self.phase = "ended"
        elif act == "Tick":
            Clock.now += (GRACE_MS + 1) * 1_000_000
        elif act == "GiveUp":
            Clock.now += 181 * 1_000_000_000
            self._feed("timeout")
            if not self.thread.is_alive():
                self.phase = "ended"
                self.gave_up = True
        elif act in ("Drop", "Dup"):
            f = last[1]
            to = CTL if f[0] in ("reg", "exit", "ack") else maddr(f[1])
            self.bag()
            for fr in self.net.flight.get(to, []):
                if self.kind(to, fr) == (f[0], f[1]):
                    if act == "Drop":
                        self.net.flight[to].remove(fr)
                    else:
                        self.net.flight[to].append(fr)
                    break
            else:
                raise LookupError(f"frame {f} not in flight")
        else:
            raise ValueError(act)

    def project(self):
        b = self.bridge
        now = Clock.now
        known = sorted(h for h in b.sender.hosts if not h.startswith("data.")) if hasattr(b, "sender") else []
        env = [w.host for w in b.environment.workers] if hasattr(b, "environment") else []
        un = {h: "none" for h in self.hosts}
        if hasattr(b, "sender"):
            for i, r in b.sender.inflight.items():
                if r.clazz == "ExecutorShutdown" and r.host in b.sender.hosts:
                    un[r.host] = "stale" if Clock.since(r.at) > b.sender.resend_grace else "fresh"
        if self.phase == "ended":
            un = {h: "none" for h in un}
        return {"phase": self.phase, "known": known, "env": env, "exec": dict(self.exec), "unacked": un, "net": self.bag(),
                "gaveUp": self.gave_up, "error": self.error}


def spec_projection(s):
    net = s["net"]
    bag = {}
    if isinstance(net, dict):
        for k, n in net.items():
            bag[f"{k[0]}:{k[1]}"] = n
    un = {h: v for h, v in s["unacked"].items()}
    # the record of a host that already exited is kept by the real sender but can never be re-sent: not compared
    for h in un:
        if h not in s["known"]:
            un[h] = "none"
    if s["phase"] == "ended":
        un = {h: "none" for h in un}
    return {"phase": s["phase"], "known": sorted(s["known"]), "env": list(s["env"]), "exec": dict(s["exec"]), "unacked": un,
            "net": dict(sorted(bag.items())), "gaveUp": s["gaveUp"], "error": None}


def replay(behaviour, hosts):
    w = World(hosts)
    try:
        for i, (label, s) in enumerate(behaviour[1:], start=2):
            last = s["last"]
            try:
                w.apply(last)
            except (LookupError, RuntimeError) as e:
                return {"steps": i - 1, "mismatch": {"step": i, "action": _js(last), "harness_error": repr(e)[:200]}}
            got, exp = w.project(), spec_projection(s)
            diffs = {f: [exp[f], got[f]] for f in exp if exp[f] != got[f]}
            if diffs:
                return {"steps": i - 1, "mismatch": {"step": i, "action": _js(last), "diffs": _js(diffs)}}
        return {"steps": len(behaviour) - 1, "mismatch": None}
    finally:
        w.close()


def _js(o):
    if isinstance(o, dict):
        return {str(k): _js(v) for k, v in o.items()}
    if isinstance(o, (list, tuple, set, frozenset)):
        return [_js(x) for x in (sorted(o, key=str) if isinstance(o, (set, frozenset)) else o)]
    return o
