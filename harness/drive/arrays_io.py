"""Transport between the TLA+ array model ([shape, data], rationals <<num, den>>) and real arrays (C15, C13).

Nothing here knows what a result should be: `encode` reads a float back as the exact small rational it stands for,
`call_backend` maps a case record of spec/Arrays.tla onto the call of the real backend function it names.
"""
from __future__ import annotations

from fractions import Fraction

import numpy as np
import xarray as xr

MAX_DEN = 4096
TOL = 1e-9


class NotRational(Exception):
    pass


def rat(x, squared: bool = False) -> list[int]:
    """A float as [num, den]; with squared=True the value logged is sign(x)*x^2 (std is compared squared)."""
    x = float(x)
    if x != x or x in (float("inf"), float("-inf")):
        raise NotRational(f"not finite: {x}")
    if squared:
        x = x * abs(x)
    if x == int(x) and abs(x) < 2 ** 31:
        return [int(x), 1]
    f = Fraction(x).limit_denominator(MAX_DEN)
    if abs(float(f) - x) > TOL * max(1.0, abs(x)):
        raise NotRational(f"{x!r} is not a rational with denominator <= {MAX_DEN}")
    if abs(f.numerator) >= 2 ** 31 or f.denominator >= 2 ** 31:
        raise NotRational(f"{x!r} does not fit TLC integers")
    return [f.numerator, f.denominator]


def encode(value, squared: bool = False) -> dict:
    """numpy array / DataArray / scalar -> {"shape": [...], "data": [[num, den], ...]} (row-major)."""
    dims = [str(d) for d in value.dims] if isinstance(value, xr.DataArray) else None
    if isinstance(value, (xr.DataArray, xr.Dataset)):
        value = value.values
    a = np.asarray(value)
    if a.dtype == object:
        raise NotRational(f"object array {a!r}"[:120])
    out = {"shape": [int(s) for s in a.shape], "data": [rat(v, squared) for v in a.reshape(-1)], "dtype": str(a.dtype)}
    if dims is not None:
        out["dims"] = dims
    return out


DTYPES = {"f8": np.float64, "bool": np.bool_, "i1": np.int8,
          "int8": np.int8, "uint8": np.uint8, "float32": np.float32, "float64": np.float64}


def as_numpy(arg: dict, dt: str = "f8"):
    if not arg["shape"]:
        return float(arg["data"][0])            # a scalar operand is a python number (fluent passes `other` like that)
    return np.array(arg["data"], dtype=np.int64).astype(DTYPES[dt]).reshape(arg["shape"])


def as_xarray(arg: dict, dt: str = "f8"):
    if not arg["shape"]:
        return float(arg["data"][0])
    return xr.DataArray(as_numpy(arg, dt), dims=[f"d{i}" for i in range(len(arg["shape"]))])


def _variadic(backends, op: str, arrs: list, axis: int, is_xr: bool):
    f = getattr(backends, op)
    if op == "stack":
        return f(*arrs, dim="new", axis=axis) if is_xr else f(*arrs, axis=axis)
    if op == "concat":
        return f(*arrs, dim=f"d{axis}") if is_xr else f(*arrs, axis=axis)
    return f(*arrs)


class NotInBackendApi(Exception):
    """The backend's API cannot express the call (the xarray backend names the dimension, a name has no sign)."""


# kinds whose axis the xarray backend takes as a dimension NAME (a name has no sign)
XR_AXIS_BY_NAME = ("single", "concat")


def _mixed_rank_args(case: dict, is_xr: bool) -> list:
    """Arguments of different rank (kinds b*): genuine arrays also for 0-d; for xarray the dimensions of an argument are
    named by their position in the broadcast (= largest) shape, which is how NumPy's trailing alignment reads by name."""
    rank = max(len(a["shape"]) for a in case["args"])
    out = []
    for a in case["args"]:
        arr = np.array(a["data"], dtype=np.float64).reshape(a["shape"])
        out.append(xr.DataArray(arr, dims=[f"d{rank - len(a['shape']) + i}" for i in range(len(a["shape"]))]) if is_xr else arr)
    return out


def call_backend(backends, case: dict, wrap):
    """Run the backend call a case of Arrays.tla describes; `wrap` is as_numpy or as_xarray."""
    is_xr = wrap is as_xarray
    k, op, axis = case["k"], case["op"], case["axis"]
    if k in ("bstack", "bmulti", "bbin"):
        arrs = _mixed_rank_args(case, is_xr)
        if k == "bstack":
            return _variadic(backends, "stack", arrs, axis, is_xr)
        return getattr(backends, op)(*arrs)
    arrs = [wrap(a, case.get("dt", "f8")) for a in case["args"]]
    if k in ("multik", "batchedk"):
        kw = {"dim": f"d{axis}"} if is_xr else {"axis": axis}          # the keyword each backend documents
        f = getattr(backends, op)
        if k == "multik":
            return f(*arrs, **kw)
        inner, pos = [], 0
        for n in case["parts"]:
            b = arrs[pos:pos + n]
            pos += n
            inner.append(b[0] if n == 1 else f(*b, **kw))
        return f(*inner, **kw)
    if k == "sbin":
        num, den = case["idx"]
        kind, left = case["parts"]
        scalar = bool(num) if kind == 0 else int(num) if kind == 1 else num / den       # a genuine python bool / int / float
        return getattr(backends, op)(scalar, arrs[0]) if left else getattr(backends, op)(arrs[0], scalar)
    if is_xr and axis < 0 and k in XR_AXIS_BY_NAME:
        raise NotInBackendApi(k)
    if k == "multi":
        return getattr(backends, op)(*arrs)
    if k == "all":
        return getattr(backends, op)(arrs[0])
    if k == "single":
        return getattr(backends, op)(arrs[0], dim=f"d{axis}") if is_xr else getattr(backends, op)(arrs[0], axis=axis)
    if k in ("stack", "concat"):
        return _variadic(backends, op, arrs, axis, is_xr)
    if k == "take1":
        return backends.take(arrs[0], case["idx"][0], dim=axis)
    if k == "taken":
        return backends.take(arrs[0], list(case["idx"]), dim=axis)
    if k == "bin":
        return getattr(backends, op)(arrs[0], arrs[1])
    if k == "batched":
        inner, pos = [], 0
        for n in case["parts"]:
            b = arrs[pos:pos + n]
            pos += n
            inner.append(b[0] if n == 1 else _variadic(backends, op, b, axis, is_xr))     # a single argument is handed on
        return _variadic(backends, op, inner, axis, is_xr)
    raise ValueError(f"unknown case kind {k}")
