"""C13 transport: build the programs spec/Fluent.tla enumerates with the real fluent API, evaluate every intermediate
Action.graph() with a reference interpreter (topological evaluation of the payload tuples through the real backends) and
log the denotation (dims, labels, one array per node) before and after each step.  No expectation lives here."""
from __future__ import annotations

import functools

import numpy as np

from .arrays_io import encode


def _vector(vals):
    return np.array(vals, dtype=np.float64)


def build_source(src: dict):
    """src = {dims, shape, nocoords, coords: [[int..]..], vals: [[int..]..]} -> Action whose node k yields vals[k]."""
    from earthkit.workflows.fluent import from_source

    shape = tuple(src["shape"])
    payloads = np.empty(shape, dtype=object)
    for k, idx in enumerate(np.ndindex(*shape)):
        payloads[idx] = functools.partial(_vector, [float(v) for v in src["vals"][k]])
    coords = None if src["nocoords"] else {d: list(c) for d, c in zip(src["dims"], src["coords"])}
    return from_source(payloads, dims=list(src["dims"]), coords=coords)


class Interpreter:
    """Evaluates nodes of fluent graphs; results are cached per node object (graphs of later steps share earlier nodes)."""

    def __init__(self):
        self.cache: dict[int, object] = {}
        self.keep: list = []

    def node(self, node):
        key = id(node)
        if key in self.cache:
            return self.cache[key]
        func, args, kwargs = node.payload
        ins = {name: out for name, out in node.inputs.items()}

        def value(out):
            res = self.node(out.parent)
            return res[out.parent.outputs.index(out.name)] if len(out.parent.outputs) > 1 else res

        a = [value(ins[x]) if isinstance(x, str) and x in ins else x for x in args]
        r = func(*a, **kwargs)
        if len(node.outputs) > 1:
            r = list(r)
        self.cache[key] = r
        self.keep.append(node)
        return r

    def action(self, action) -> np.ndarray:
        from earthkit.workflows.graph import Output

        graph = action.graph()                      # the property is about Action.graph(): walk it, then read the sinks
        known = {id(n) for n in graph.nodes()}
        out = np.empty(action.nodes.shape, dtype=object)
        for idx in np.ndindex(*action.nodes.shape):
            n = action.nodes.data[idx]
            if isinstance(n, Output):
                if id(n.parent) not in known:
                    raise RuntimeError("node of the action is not in Action.graph()")
                res = self.node(n.parent)
                out[idx] = res[n.parent.outputs.index(n.name)] if len(n.parent.outputs) > 1 else res
            else:
                if id(n) not in known:
                    raise RuntimeError("node of the action is not in Action.graph()")
                out[idx] = self.node(n)
        return out


def denote(interp: Interpreter, action, squared: bool = False) -> dict:
    nodes = action.nodes
    vals = interp.action(action)
    return {"dims": [str(d) for d in nodes.dims],
            "coords": [[str(v) for v in nodes[d].values] for d in nodes.dims],
            "val": [encode(v, squared) for v in vals.reshape(-1)]}


def first(*args):
    """A user payload for reduce(): order sensitive and batchable (the first of the batch firsts is the first)."""
    return args[0]


first.batchable = True  # the marker Action.reduce looks at


def _add(action, k):
    return action.add(k)


def apply_op(action, o: dict, other):
    """Map an operation record of Fluent.tla onto the fluent call it names."""
    from earthkit.workflows import backends
    from earthkit.workflows.fluent import Payload

    op, dim, n, keep, axis = o["op"], o["dim"], o["n"], o["keep"], o["axis"]
    if op in ("sum", "prod", "min", "max", "mean", "std"):
        return getattr(action, op)(dim, batch_size=n, keep_dim=keep)
    if op == "rmean":
        return action.reduce(Payload(backends.mean), dim=dim, batch_size=n, keep_dim=keep)
    if op == "rfirst":
        return action.reduce(Payload(first), dim=dim, batch_size=n, keep_dim=keep)
    if op == "concatenate":
        return action.concatenate(dim, batch_size=n, keep_dim=keep)
    if op == "stack":
        return action.stack(dim, batch_size=n, keep_dim=keep, axis=axis)
    if op == "flatten":
        return action.flatten(dim, axis=axis)
    if op == "map":
        return action.map(lambda x, k=float(n): x * k)
    if op == "mapeach":
        payloads = np.empty(action.nodes.shape, dtype=object)
        for k, idx in enumerate(np.ndindex(*action.nodes.shape)):
            payloads[idx] = (lambda x, k=float(k): x + k)
        return action.map(payloads)
    if op in ("add", "subtract", "multiply", "divide", "power"):
        return getattr(action, op)(float(n))
    if op in ("add_a", "subtract_a", "multiply_a", "divide_a"):
        return getattr(action, op[:-2])(other)
    if op == "expand":
        return action.expand((dim, list(o["cvals"])) if o["cvals"] else dim, internal_dim=o["idim"], dim_size=n, axis=axis)
    if op == "expandsel":
        return action.expand((dim, list(o["cvals"])) if o["cvals"] else dim, internal_dim=(o["idim"], list(o["ivals"])), axis=axis)
    if op == "transform":
        return action.transform(_add, [(float(p),) for p in o["ivals"]], (dim, list(o["cvals"])) if o["cvals"] else dim, axis=axis)
    if op == "select":
        return action.select({dim: o["ivals"][0]}, drop=keep)
    if op == "selectl":
        return action.select({dim: list(o["ivals"])})
    if op == "isel":
        return action.isel({dim: o["ivals"][0]}, drop=keep)
    if op == "isell":
        return action.isel({dim: list(o["ivals"])})
    if op == "broadcast":
        return action.broadcast(other)
    if op == "join":
        return action.join(other, dim)
    if op == "joinc":
        return action.join(other, (dim, list(o["cvals"])))
    raise ValueError(f"unknown operation {op}")


def run_program(prog: dict) -> list[dict]:
    """One record per executed step: {"a": denotation, "a2": denotation | {"none": true}, "b": denotation | {"error", "etype"}}.
    A program stops at the first step that fails."""
    interp = Interpreter()
    action = build_source(prog["src"])
    steps = []
    a = denote(interp, action)
    for o in prog["ops"]:
        other, a2 = None, {"none": True}
        if "none" not in o["other"]:
            other = build_source(o["other"])
            a2 = denote(interp, other)
        try:
            result = apply_op(action, o, other)
            b = denote(interp, result, squared=o["op"] == "std")
        except Exception as e:  # noqa: BLE001 - whatever the operation or the evaluation of its graph raises is the outcome
            steps.append({"a": a, "a2": a2, "b": {"error": f"{type(e).__name__}: {e}"[:200], "etype": type(e).__name__}})
            break
        steps.append({"a": a, "a2": a2, "b": b})
        action, a = result, b
    return steps
