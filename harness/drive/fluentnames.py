"""C14 transport: JSON program(s) -> real fluent API calls -> JSON log of node names / payload identities / snapshots.

Nothing here decides anything: spec/FluentNames.tla!Post judges the log.
"""
from __future__ import annotations

import functools

import numpy as np

from earthkit.workflows.fluent import Action, from_source
from earthkit.workflows.graph import Node as BaseNode
from earthkit.workflows.graph.nodes import Output


# ---------------------------------------------------------------- the callables of the domain
def _defs():
    def f(x):
        return x + 1

    f1 = f

    def f(x):  # noqa: F811  (a different function with the same __name__)
        return x - 1

    return f1, f


def _sdefs():
    def s():
        return 1

    s1 = s

    def s():  # noqa: F811
        return 2

    return s1, s


def g(a, x):
    return a + x


def h(a):
    return a


def bat(*xs):
    return sum(xs)


bat.batchable = True


def payloads() -> dict:
    """Fresh Payload objects of one case; every operation of the case (and both builds) is handed the same object."""
    from earthkit.workflows.fluent import Payload

    return {"pdef1": Payload(CALL["def1"]), "pbat": Payload(bat), "pargs": Payload(g, [1])}


_d1, _d2 = _defs()
_s1, _s2 = _sdefs()
CALL = {
    "lam1": lambda x: x + 1, "lam2": lambda x: x * 2, "def1": _d1, "def2": _d2,
    "par1": functools.partial(g, 1), "par1b": functools.partial(g, 1), "par2": functools.partial(g, 2),
    "slam1": lambda: 1, "slam2": lambda: 2, "sdef1": _s1, "sdef2": _s2,
    "spar1": functools.partial(h, 1), "spar2": functools.partial(h, 2),
}


def srcA0():
    return 0


def srcA1():
    return 1


def srcB0():
    return 5


def srcB1():
    return 6


def srcE0():
    return 10


def srcE1():
    return 11


def srcE2():
    return 12


def srcE3():
    return 13


def srcD0():
    return 7


def srcD1():
    return 8


class Registry:
    """object identity -> small integer (objects are kept alive so that id() stays unique)."""

    def __init__(self):
        self.ids: dict[int, int] = {}
        self.keep: list = []

    def __call__(self, obj) -> int:
        if id(obj) not in self.ids:
            self.ids[id(obj)] = len(self.keep) + 1
            self.keep.append(obj)
        return self.ids[id(obj)]


class Run:
    def __init__(self, funcs: Registry, shared: dict | None = None, base: int = 0):
        self.shared = shared or {}
        self.base = base            # node identities of the two builds of a case are kept apart
        self.node_id = Registry()
        self.funcs = funcs
        self.actions: list[tuple[str, Action]] = []     # every action that exists, in creation order
        self.steps: list[dict] = []
        self._last: list | None = None
        self.finals: list = []          # the resulting action of each program

    # ---- facts about objects
    def ident(self, n) -> str:
        if isinstance(n, Output):
            return f"{self.node_id(n.parent)}.{n.name}"
        return str(self.node_id(n))

    def snap(self, key: str, a: Action) -> list:
        da = a.nodes
        coords = sorted([str(k), [str(d) for d in c.dims], [str(v) for v in np.atleast_1d(c.values).tolist()]]
                        for k, c in da.coords.items())
        flat = np.atleast_1d(da.values).flatten().tolist()
        return [key, [str(d) for d in da.dims], coords, [self.ident(n) for n in flat], [self.payload(n) for n in flat]]

    def payload(self, n) -> str:
        """The payload of a node as it is NOW, by value (callable identity, args, kwargs)."""
        func, args, kwargs = (n.parent if isinstance(n, Output) else n).payload
        return f"{self.funcs(func)}|{list(args)!r}|{sorted(kwargs.items())!r}"

    def snaps(self) -> list:
        return [self.snap(k, a) for k, a in self.actions]

    def add(self, key: str, a: Action) -> Action:
        if not any(x is a for _, x in self.actions):
            self.actions.append((key, a))
        return a

    # ---- the environment
    def env(self, refs: set[str]) -> dict[str, Action]:
        """The actions of the environment that the case refers to (and what they are made from); A and B always."""
        A = from_source([srcA0, srcA1], dims=["x"], coords={"x": [0, 1]})
        B = from_source([srcB0, srcB1], dims=["x"], coords={"x": [5, 6]})
        e = {"A": A, "B": B}
        if "D" in refs:
            e["D"] = from_source([[srcD0], [srcD1]], dims=["x", "y"], coords={"x": [0, 1], "y": [7]})
        if "A2" in refs:
            e["A2"] = A.map(CALL["par1"])
        if "B2" in refs:
            e["B2"] = B.map(CALL["par2"])
        if "Y" in refs:         # a generator source: one node with three outputs, spread over the dimension y
            e["Y"] = from_source([srcD0], yields=("y", [0, 1, 2]), dims=["x"], coords={"x": [0]})
        if "S1" in refs:        # source arrays whose elements share the payload (same callable object, same static arguments)
            e["S1"] = from_source([srcA0, srcA0, srcA0], dims=["x"], coords={"x": [0, 1, 2]})
        if "S2" in refs:
            e["S2"] = from_source([[srcA0, srcA0], [srcA0, srcA1]], dims=["x", "y"], coords={"x": [0, 1], "y": [0, 1]})
        if "S3" in refs:
            e["S3"] = from_source([CALL["spar1"], functools.partial(h, 1), CALL["spar2"]], dims=["x"], coords={"x": [0, 1, 2]})
        if "E" in refs:
            e["E"] = from_source([srcE0, srcE1, srcE2, srcE3], dims=["x"], coords={"x": [0, 1, 2, 3]})
        if any(r[:1] in ("F", "G", "Z") for r in refs):          # slices that keep the selected label as a scalar coordinate
            F = from_source([[srcE0, srcE1], [srcE2, srcE3]], dims=["m", "x"], coords={"m": [0, 1], "x": [0, 1]})
            e.update({"F": F, "F0": F.select(m=0), "F1": F.select(m=1), "F0i": F.isel(m=0), "F1i": F.isel(m=1),
                      "G0": F.select(x=0), "G1": F.select(x=1), "Z0": F.select(m=0).select(x=0), "Z1": F.select(m=1).select(x=1)})
        for k, a in e.items():
            self.add(k, a)
        return e

    # ---- one operation, with snapshots of everything that existed before it
    def step(self, op: dict, cur: Action | None, e: dict[str, Action]) -> Action | None:
        # nothing runs between two steps: the snapshot taken after the previous step (incl. its result) is this step's `before`
        before = self._last if self._last is not None and len(self._last) == len(self.actions) else self.snaps()
        n_before = len(self.actions)
        res, raised = None, False
        try:
            res = self.apply(op, cur, e)
        except Exception:
            raised = True
        if res is not None:
            self.add(f"r{len(self.actions)}", res)
        self._last = self.snaps()
        self.steps.append({"op": op["k"], "raised": raised, "before": before, "after": self._last[:n_before]})
        return res

    def apply(self, op: dict, cur: Action | None, e: dict[str, Action]) -> Action:
        k, d = op["k"], op["d"]
        if k == "source":
            return from_source([CALL[op["f"]]], dims=["x"], coords={"x": [0]})
        if k == "from":
            return e[op["o"]]
        if k == "joinz":
            return cur.join(e[op["o"]], "z", match_coord_values=True)
        if k == "reduce":
            return cur.reduce(CALL[op["f"]], dim=d)
        if k == "reduce_p":     # the SAME Payload object every time
            return cur.reduce(self.shared[op["f"]], dim=d, batch_size=op["v"])
        if k == "map_p":
            return cur.map(self.shared[op["f"]])
        if k == "dup_add":      # the same sub-expression twice, as two sets of node objects
            return cur.map(CALL[op["f"]]).add(cur.map(CALL[op["f"]]))
        if k == "norm":         # batched mean and std both build the batched sum
            return cur.subtract(cur.mean(d, batch_size=op["v"])).divide(cur.std(d, batch_size=op["v"]))
        if k == "map":
            return cur.map(CALL[op["f"]])
        if k == "addc":
            return cur.add(op["v"])
        if k in ("sum", "mean"):
            return getattr(cur, k)(d)
        if k in ("sum_kw", "mean_kw"):
            return getattr(cur, k[:-3])(d, backend_kwargs={"p": op["v"]})
        if k == "concatenate_kw":
            return cur.concatenate(d, backend_kwargs={"p": op["v"]})
        if k == "expand_i":
            return cur.expand("e", op["v"], dim_size=2)
        if k == "sum_keep":
            return cur.sum(d, keep_dim=True)
        if k in ("add", "subtract", "multiply", "divide", "power"):
            return getattr(cur, k)(e[op["o"]])
        if k == "join_match":
            return cur.join(e[op["o"]], "z", match_coord_values=True)
        if k == "join_nomatch":
            return cur.join(e[op["o"]], "z")
        if k == "join_x":
            return cur.join(e[op["o"]], "x")
        if k == "broadcast":
            return cur.broadcast(e[op["o"]])
        if k == "select":
            return cur.select({d: cur.nodes.coords[d].values[0].item()})
        if k == "isel":
            return cur.isel({d: 0})
        if k == "concatenate":
            return cur.concatenate(d)
        if k in ("stack", "flatten"):      # default backend_kwargs on purpose
            return getattr(cur, k)(d, axis=op["v"])
        if k == "expand":
            return cur.expand(d, 0, dim_size=op["v"])
        if k == "transform":
            return cur.transform(lambda a, v: a.add(v), [(i + 1,) for i in range(op["v"])], d)
        raise ValueError(k)

    def program(self, ops: list[dict], start: str, e: dict[str, Action]) -> list[str]:
        cur = e.get(start)
        for op in ops:
            if op["k"] == "source" and op["d"] == "one_call":
                continue    # handled by sources()
            cur = self.step(op, cur, e)
            if cur is None:
                break
        self.finals.append(cur)
        return [] if cur is None else [str(getattr(n, "name", n.parent.name if isinstance(n, Output) else "?"))
                                       for n in np.atleast_1d(cur.nodes.values).flatten().tolist()]

    def sources(self, case: dict) -> list[list[str]]:
        f1, f2 = case["p"][0]["f"], case["q"][0]["f"]
        if case["p"][0]["d"] == "one_call":
            before = self.snaps()
            a = from_source([CALL[f1], CALL[f2]], dims=["x"], coords={"x": [0, 1]})
            for _ in range(2):
                self.steps.append({"op": "source", "raised": False, "before": before, "after": before})
            self.add("s", a)
            return [[str(n.name) for n in a.nodes.values.flatten().tolist()]]
        return [self.program(case["p"], "", {}), self.program(case["q"], "", {})]

    # ---- every node object reachable from any action
    def nodes(self, roots: list | None = None) -> list[dict]:
        """Descriptions of every node object reachable from all actions (or from the given root nodes)."""
        seen: dict[int, BaseNode] = {}
        stack = list(roots) if roots is not None else []
        for _, a in (self.actions if roots is None else []):
            for n in np.atleast_1d(a.nodes.values).flatten().tolist():
                stack.append(n.parent if isinstance(n, Output) else n)
        while stack:
            n = stack.pop()
            if id(n) in seen:
                continue
            seen[id(n)] = n
            stack.extend(i.parent for i in n.inputs.values())
        out = []
        for n in seen.values():
            func, args, kwargs = n.payload
            out.append({"name": str(n.name), "fname": str(getattr(func, "__name__", "")), "fid": self.funcs(func),
                        "args": repr(list(args)), "kwargs": repr(sorted(kwargs.items())), "id": self.base + self.node_id(n),
                        "ins": [[str(iname), self.base + self.node_id(i.parent), str(i.name)] for iname, i in n.inputs.items()],
                        "inputs": [f"{iname}={i.parent.name}.{i.name}" for iname, i in n.inputs.items()]})
        return sorted(out, key=lambda d: (d["name"], d["fid"], d["args"], d["kwargs"], d["inputs"], d["id"]))


def union(run: Run, how: str, actions: list) -> tuple[list[dict], list[dict], list[str]]:
    """The node descriptions of the given actions before the union, and those of the union graph."""
    from earthkit.workflows import Cascade

    roots = []
    for a in actions:
        roots += [n.parent if isinstance(n, Output) else n for n in np.atleast_1d(a.nodes.values).flatten().tolist()]
    if how == "single":     # a Cascade made from ONE action: the last one
        actions = actions[-1:]
        roots = [n.parent if isinstance(n, Output) else n for n in np.atleast_1d(actions[0].nodes.values).flatten().tolist()]
    pre = run.nodes(roots)
    if how in ("from_actions", "single"):
        c = Cascade.from_actions(actions)
    elif how == "add":
        c = Cascade.from_actions(actions[:1])
        for a in actions[1:]:
            c = c + Cascade.from_actions([a])
    else:
        c = Cascade.from_actions(actions[:1])
        for a in actions[1:]:
            c += Cascade.from_actions([a])
    names, seen, stack = [], set(), list(c._graph.sinks)      # every node object of the Cascade's graph, by identity
    while stack:
        n = stack.pop()
        if id(n) not in seen:
            seen.add(id(n))
            names.append(str(n.name))
            stack.extend(i.parent for i in n.inputs.values())
    return pre, run.nodes(list(c._graph.sinks)), names


FUNCS = Registry()      # callable identity -> small integer, stable over the whole run (names are compared across cases)


def observe(case: dict) -> dict:
    funcs = FUNCS
    builds, nodes, steps = [], [], []
    pres, unis, uninames = [], [], []
    shared = payloads()
    refs = {op["o"] for op in list(case["p"]) + list(case["q"])} | {case["start"]}
    for b in range(2):                      # two independent builds of the same case
        run = Run(funcs, shared, (b + 1) * 100000)
        if case["kind"] == "sources":
            names = run.sources(case)
        else:
            e = run.env(refs)
            names = [run.program(case["p"], case["start"], e)]
            if case["q"]:
                names.append(run.program(case["q"], case["start"], e))
        builds.append(names)
        nodes += run.nodes()    # before a union: de-duplication rewires the nodes in place
        if case.get("union"):   # the union of the source and of what the programs built (de-duplicates, in place)
            pre, uni, un = union(run, case["union"], [e[case["start"]]] + [a for a in run.finals if a is not None])
            pres += pre
            unis += uni
            uninames.append(un)
        steps += run.steps
    # the same node may be listed by both builds only if it is the same description
    uniq = []
    for n in nodes:
        if n not in uniq:
            uniq.append(n)
    res = {"nodes": uniq, "build1": builds[0], "build2": builds[1], "steps": steps}
    if case.get("union"):
        res["pre"], res["uni"] = pres, unis
        res["uninames"] = uninames[0]       # of the first build (each build has its own node objects)
        res["uninames2"] = uninames[1]
    return res
