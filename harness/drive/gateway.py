"""P2 binding for spec/Gateway.tla: replay TLC behaviours into the REAL JobRouter through the real
handle_controller / handle_fe with scripted sockets carrying real serialised reports and real JSON requests."""
from __future__ import annotations

import base64
import types
import uuid

import orjson

import cascade.gateway.api as api
import cascade.gateway.router as R
import cascade.gateway.server as S
from cascade.controller.report import ControllerReport, serialize
from cascade.low.core import DatasetId


PROGS = ["10.00", "50.00", "10.00", "50.00", "90.00"]      # keep in sync with harness/props/c18.py


class Sock:
    def __init__(self):
        self.inq: list[bytes] = []
        self.out: list[bytes] = []

    def recv(self):
        return self.inq.pop(0)

    def send(self, b):
        self.out.append(b)

    def bind_to_random_port(self, base):
        return 4242


class Poller:
    def __init__(self):
        self.registered: list = []

    def register(self, s, flags=0):
        self.registered.append(s)

    def unregister(self, s):
        self.registered.remove(s)      # raises like zmq if unknown


def request(m) -> bytes:
    d = m.model_dump(mode="json")
    d["clazz"] = type(m).__name__
    return orjson.dumps(d)


class World:
    def __init__(self):
        self._old = (R.get_context, R._spawn_subprocess)
        self._old_uuid = R.uuid
        R.get_context = lambda: types.SimpleNamespace(socket=lambda kind: Sock())
        R._spawn_subprocess = lambda spec, addr, job_id: None
        self.poller = Poller()
        self.router = R.JobRouter(self.poller)
        self.fe = Sock()
        self.ids: list[str] = []          # slot k (1-based) -> real job id

    def close(self):
        R.get_context, R._spawn_subprocess = self._old
        R.uuid = self._old_uuid

    def jid(self, slot: int) -> str:
        return self.ids[slot - 1] if slot <= len(self.ids) else "unknown-" + str(slot)

    def fe_call(self, m):
        self.fe.inq.append(request(m))
        S.handle_fe(self.fe, self.router)
        rd = orjson.loads(self.fe.out.pop(0))
        return rd

    def apply(self, last: tuple):
        act = last[0]
        if act == "Submit":
            # the identifier source repeats the most recently issued identifier last[2] times before it yields a new one
            clash = last[2] if len(last) > 2 else 0
            script = [uuid.UUID(self.ids[-1])] * clash if self.ids else []
            real_uuid4 = uuid.uuid4
            R.uuid = types.SimpleNamespace(uuid4=lambda: script.pop(0) if script else real_uuid4())
            spec = api.JobSpec(benchmark_name="x", envvars={}, job_instance=None, workers_per_host=1, hosts=1, use_slurm=False)
            rd = self.fe_call(api.SubmitJobRequest(job=spec))
            if rd["error"] is not None or rd["job_id"] in self.ids:
                return {"fresh": False}
            self.ids.append(rd["job_id"])
            return {"fresh": True}
        if act == "Report":
            _, j, status, ts, res = last
            st = None if status == "none" else ("Shutdown" if status == "shutdown" else PROGS[ts - 1])
            results = [] if res == () else [(DatasetId("t", res[0]), REAL[res[1]])]
            rep = ControllerReport(self.jid(j), st, ts, results)
            sock = self.router.jobs[self.jid(j)].socket
            sock.inq.append(serialize(rep))
            S.handle_controller(sock, self.router)
            return None
        if act == "AskProgress":
            ids = sorted(last[1])
            rd = self.fe_call(api.JobProgressRequest(job_ids=[self.jid(j) for j in ids]))
            if rd["error"] is not None:
                return {"ok": False, "prog": {}}
            back = {v: k + 1 for k, v in enumerate(self.ids)}
            return {"ok": True, "prog": {back[k]: v for k, v in rd["progresses"].items()}}
        if act == "AskResult":
            rd = self.fe_call(api.ResultRetrievalRequest(job_id=self.jid(last[1]), dataset_id=DatasetId("t", last[2])))
            if rd["error"] is not None:
                return {"ok": False, "bytes": "<none>"}
            return {"ok": True, "bytes": _decode(rd["result"])}
        raise ValueError(act)

    def project(self, JobSlot: int, DS: list[str]) -> dict:
        out = {"n": len(self.ids), "progress": {}, "results": {}, "closed": {}}
        for k in range(1, JobSlot + 1):
            if k <= len(self.ids):
                job = self.router.jobs[self.ids[k - 1]]
                out["progress"][k] = job.progress
                out["results"][k] = {d: _sym(job.results[DatasetId("t", d)]) if DatasetId("t", d) in job.results else "<none>" for d in DS}
                out["closed"][k] = job.socket not in self.poller.registered
            else:
                out["progress"][k], out["results"][k], out["closed"][k] = "0.00", {d: "<none>" for d in DS}, False
        return out


# The spec's symbolic payloads stand for real binary payloads: every byte value, all three base64 padding shapes,
# and bytes whose standard base64 text contains '+' and '/' (round-4 seed C18d: url-safe alphabet on the server side,
# standard alphabet in cascade.gateway.api.decoded_result).
REAL = {"x": b"\xfb\xff\xfe" + bytes(range(256)) + b"\xff\xe0>?", "y": b"\x00plain\xff\xfe", "e": b""}   # "e": a legal, empty result
SYM = {v: k for k, v in REAL.items()}


def _sym(b: bytes) -> str:
    return SYM.get(bytes(b), "<corrupt:" + bytes(b)[:12].hex() + ">")


def _decode(text) -> str:
    # exactly what the library's own client does (gateway.api.decoded_result): base64.b64decode of the text field
    try:
        return _sym(base64.b64decode(text))
    except Exception as e:
        return f"<undecodable:{type(e).__name__}>"


def _fun(x):
    if isinstance(x, dict):
        return x
    return {i + 1: v for i, v in enumerate(x)}


def replay(behaviour, JobSlot: int, DS: list[str]) -> dict:
    w = World()
    try:
        for i, (label, s) in enumerate(behaviour[1:], start=2):
            last = s["last"]
            try:
                ans = w.apply(last)
            except Exception as e:      # an exception escaping a handler = the gateway's serve loop would die
                return {"steps": i - 1, "mismatch": {"step": i, "action": _js(last), "diffs": {"handler_raised": ["no exception", repr(e)[:200]]}}}
            got = w.project(JobSlot, DS)
            exp = {"n": s["n"], "progress": {k: v for k, v in _fun(s["progress"]).items()},
                   "results": {k: dict(v) for k, v in _fun(s["results"]).items()}, "closed": dict(_fun(s["closed"]))}
            diffs = {f: [exp[f], got[f]] for f in exp if exp[f] != got[f]}
            if last[0] == "Submit" and not ans["fresh"]:
                diffs["job_id_reused_or_error"] = ["fresh id", "not fresh"]
            if last[0] == "AskProgress":
                want = last[2]
                w2 = {"ok": want["ok"], "prog": dict(_fun(want["prog"]))}
                if w2 != ans:
                    diffs["progress_answer"] = [w2, ans]
            if last[0] == "AskResult":
                want = {"ok": last[3]["ok"], "bytes": last[3]["bytes"]}
                if want != ans:
                    diffs["result_answer"] = [want, ans]
            if diffs:
                return {"steps": i - 1, "mismatch": {"step": i, "action": _js(last), "diffs": _js(diffs)}}
        return {"steps": len(behaviour) - 1, "mismatch": None}
    finally:
        w.close()


def _js(o):
    if isinstance(o, dict):
        return {str(k): _js(v) for k, v in o.items()}
    if isinstance(o, (list, tuple, set, frozenset)):
        return [_js(x) for x in (sorted(o, key=str) if isinstance(o, (set, frozenset)) else o)]
    return o
