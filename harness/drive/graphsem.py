"""C11 transport: JSON case -> real Node/Graph objects -> real transformation -> JSON dump of the resulting objects.

Nothing here decides anything: spec/GraphSem.tla!Post judges the dumps.
"""
from __future__ import annotations

from earthkit.workflows.graph import Graph, Node
from earthkit.workflows.graph.copy import copy_graph
from earthkit.workflows.graph.deduplicate import deduplicate_nodes
from earthkit.workflows.graph.expand import expand_graph
from earthkit.workflows.graph.fuse import fuse_nodes
from earthkit.workflows.graph.nodes import Output
from earthkit.workflows.graph.rename import rename_nodes
from earthkit.workflows.graph.split import split_graph


def build(gj: dict) -> tuple[Graph, list[Node]]:
    """Fresh objects per case (several transformers mutate their argument)."""
    nodes: list[Node] = []
    for n in gj["nodes"]:
        inputs = {iname: nodes[p - 1].get_output(o) for iname, p, o in n["inputs"]}
        nodes.append(Node(n["name"], list(n["outputs"]), dict(n["payload"]), **inputs))
    return Graph([nodes[s - 1] for s in gj["sinks"]]), nodes


class Walker:
    """Dump Node objects reachable from the given sinks, by object identity (never through serialise / names)."""

    def __init__(self):
        self.ids: dict[int, int] = {}
        self.keep: list[Node] = []      # keeps the objects alive so that id() stays unique
        self.table: list[dict] = []

    def visit(self, root) -> int:
        if id(root) in self.ids:
            return self.ids[id(root)]
        stack = [root]
        while stack:
            n = stack.pop()
            if id(n) in self.ids:
                continue
            self.ids[id(n)] = len(self.table) + 1
            self.keep.append(n)
            self.table.append({"_n": n})
            for inp in getattr(n, "inputs", {}).values():
                if isinstance(inp, Output) and id(inp.parent) not in self.ids:
                    stack.append(inp.parent)
        return self.ids[id(root)]

    def finish(self) -> list[dict]:
        out = []
        for row in self.table:
            n = row["_n"]
            ins = []
            for iname, inp in getattr(n, "inputs", {}).items():
                if isinstance(inp, Output):
                    ins.append([str(iname), self.ids[id(inp.parent)], str(inp.name)])
                else:   # something that is not a node output was wired in
                    ins.append([str(iname), 0, "not an Output: " + repr(inp)[:60]])
            pl = getattr(n, "payload", None)
            out.append({"name": str(getattr(n, "name", "?")), "payload": pl if isinstance(pl, dict) else {"k": "none"},
                        "outputs": [str(o) for o in getattr(n, "outputs", [])], "inputs": ins})
        return out


def dump(g: Graph) -> dict:
    w = Walker()
    sinks = [w.visit(s) for s in g.sinks]
    return {"nodes": w.finish(), "sinks": sinks}


def fusion_callback(policy: str):
    """The fusion callbacks of the domain.  A fused node records, in its payload, which payloads it composes and how."""

    def cb(parent: Node, pout: str, child: Node, cin: str):
        if policy == "never" or cin not in child.inputs:
            return None
        if policy == "linear" and not (len(child.inputs) == 1 and pout == Node.DEFAULT_OUTPUT and len(parent.outputs) == 1):
            return None
        others = {k: v for k, v in child.inputs.items() if k != cin}
        pin = {k: f"{cin}/{k}" for k in parent.inputs}
        payload = {"k": "fused", "pp": parent.payload, "po": pout, "pouts": list(parent.outputs),
                   "pin": [[k, v] for k, v in pin.items()], "cp": child.payload, "ci": cin, "cin": [[k, k] for k in others]}
        inputs = {pin[k]: v for k, v in parent.inputs.items()}
        inputs.update(others)
        if policy == "inplace":      # "replace the current node and its parent": the parent object is recycled
            parent.name = f"{parent.name}+{child.name}"
            parent.payload, parent.outputs, parent.inputs = payload, list(child.outputs), inputs
            return parent
        n = Node(f"{parent.name}+{child.name}", list(child.outputs), payload)
        n.inputs = inputs
        return n

    return cb


def apply(case: dict) -> dict:
    op = case["op"]
    g, nodes = build(case["g"])
    if op == "copy":
        return {"g": dump(copy_graph(g))}
    if op == "rename":
        fn = (lambda n: "a." + n) if case["fn"] == "prefix" else (lambda n: "a")
        return {"g": dump(rename_nodes(fn, g))}
    if op == "fuse":
        return {"g": dump(fuse_nodes(fusion_callback(case["cb"]), g))}
    if op == "dedup":
        r1 = deduplicate_nodes(g)
        d1 = dump(r1)             # dumped before the second application (which mutates again)
        return {"g": d1, "g2": dump(deduplicate_nodes(r1))}
    if op == "split":
        index = {id(n): i for i, n in enumerate(nodes)}
        parts, cuts = split_graph(lambda n: case["key"][index[id(n)]], g)
        w = Walker()
        plist = [[k, [w.visit(s) for s in pg.sinks]] for k, pg in parts.items()]
        return {"nodes": w.finish(), "parts": plist,
                "cuts": [{"name": c.name, "sk": c.source_key, "sn": c.source_node, "so": c.source_output,
                          "dk": c.dest_key, "dn": c.dest_node, "di": c.dest_input} for c in cuts]}
    if op in ("expand", "expand2"):
        from earthkit.workflows.graph.rename import join_namespaced

        sub, _ = build(case["sub"])
        x = nodes[case["x"] - 1]
        if case.get("pre") == "ns":          # nodes are renamed in place: x stays the node to expand, now called "ns.<name>"
            g = join_namespaced(ns=g)
        imap = None if case["imapNone"] else {a: b for a, b in case["imap"]}
        omap = None if case["omapNone"] else {a: b for a, b in case["omap"]}

        def expander(node: Node):
            if node is not x:
                return None
            return sub if (imap is None and omap is None) else (sub, imap, omap)

        r1 = expand_graph(expander, g)
        if op == "expand":
            return {"g": dump(r1)}
        d1 = dump(r1)                        # dumped before the second expansion (which renames / rewires in place)
        sub2, _ = build(case["sub2"])
        x2name = f"{x.name}.{case['x2']}"    # the documented name of the spliced node
        imap2 = None if case["imap2None"] else {a: b for a, b in case["imap2"]}
        omap2 = None if case["omap2None"] else {a: b for a, b in case["omap2"]}
        return {"g": d1, "g2": dump(expand_graph(lambda n: (sub2, imap2, omap2) if n.name == x2name else None, r1))}
    raise ValueError(op)
