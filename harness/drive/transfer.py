"""P2 binding for spec/Transfer.tla: replay TLC behaviours into two REAL DataServer objects and a real Listener standing
for the controller, over the in-memory network of drive/acked.py, dict-backed shm stores holding real bytes, controllable
thread-pool futures and a virtual clock.  The purge handler runs in a thread that really blocks in wait() until the
behaviour completes the running futures."""
from __future__ import annotations

import pickle
import threading
import types
from concurrent.futures import Future

import cascade.executor.comms as C
import cascade.executor.data_server as DS
from cascade.executor.msg import (Ack, DatasetId, DatasetPublished, DatasetPurge, DatasetTransmitCommand,
                                  DatasetTransmitFailure, DatasetTransmitPayload, DatasetTransmitPayloadHeader, Syn)
from cascade.executor.runner.memory import ds2shmid
from cascade.executor.serde import des_message, ser_message

from .acked import Clock, FakePoller, FakeSocket, Net, Stop, acked_view

GRACE_MS = 4000
CTL = "tcp://ctrl:1"


def daddr(h): return f"tcp://{h}:2"
def maddr(h): return f"tcp://{h}:1"


class Conflict(Exception):
    pass


class Store:
    """dict-backed stand-in for cascade.shm.client on one host."""

    def __init__(self):
        self.data: dict[str, list] = {}      # key -> [bytearray, deser_fun, ready]

    def client(self):
        st = self

        class Buf:
            def __init__(s, key, l=None, deser_fun=None, create=False):
                if create:
                    if key in st.data:
                        raise DS.shm_client.ConflictError
                    st.data[key] = [bytearray(l), deser_fun, False]
                elif key not in st.data or not st.data[key][2]:
                    raise ValueError("shm: no such dataset " + key)
                s.key, s.create, s.deser_fun = key, create, st.data[key][1]

            def view(s):
                return memoryview(st.data[s.key][0])

            def close(s):
                if s.create:
                    st.data[s.key][2] = True

        return types.SimpleNamespace(allocate=lambda key, l, deser_fun: Buf(key, l, deser_fun, True), get=lambda key: Buf(key),
                                     purge=lambda key: st.data.pop(key, None), ConflictError=DS.shm_client.ConflictError,
                                     AllocatedBuffer=Buf)


class Pool:
    def __init__(self):
        self.pending: list[tuple[Future, object, object]] = []

    def submit(self, fn, arg):
        f = Future()
        self.pending.append((f, fn, arg))
        return f


ORIG = lambda d: (f"bytes-of-{d}".encode() * 3, f"deser.{d}")


class World:
    def __init__(self, hosts: list[str], dsets: list[str], initial: dict[str, list[str]]):
        self.net = Net()
        net = self.net
        self.hosts, self.dsets = hosts, dsets
        self._old = (C.get_context, C.zmq, C.time, DS.time_ns, DS.wait, DS.shm_client, DS.shm_api.publish_client_port,
                     DS.logging.config.dictConfig)
        C.get_context = lambda: types.SimpleNamespace(socket=lambda kind: FakeSocket(net))
        C.zmq = types.SimpleNamespace(Poller=FakePoller, PUSH=1, PULL=2, POLLIN=1, LINGER=17)
        C.time = Clock
        Clock.now = 10 ** 12
        DS.time_ns = Clock.time_ns
        DS.shm_api.publish_client_port = lambda p: None
        DS.logging.config.dictConfig = lambda c: None
        self.cond = threading.Condition()
        self.waiting: dict[str, bool] = {h: False for h in hosts}
        DS.wait = self._wait
        self.store = {h: Store() for h in hosts}
        self.srv: dict[str, DS.DataServer] = {}
        self.pool: dict[str, Pool] = {}
        self.loop_thread: dict[str, threading.Thread | None] = {h: None for h in hosts}
        self.crashed: set[str] = set()
        self.thread_host: dict[int, str] = {}
        for h in hosts:
            s = DS.DataServer(maddr(h), daddr(h), h, 0, {})
            s.ds_proc_tp.shutdown(wait=False)
            self.pool[h] = Pool()
            s.ds_proc_tp = self.pool[h]
            s.cap = 1000
            self.srv[h] = s
            net.flight.setdefault(maddr(h), [])
            for d in initial.get(h, []):
                b, fn = ORIG(d)
                self.store[h].data[ds2shmid(DatasetId("t", d))] = [bytearray(b), fn, True]
        self.ctl = C.Listener(CTL)
        self.fetched: list = []
        self.announced: list = []
        self.failures: set[str] = set()
        self.cmds: dict[int, DatasetTransmitCommand] = {}
        # the controller side that numbers the commands: a real Bridge object (no sockets) whose transmit()/fetch() build them;
        # Transfer.tla identifies a command by its idx, so the numbers the Bridge hands out must be pairwise different
        import cascade.executor.bridge as BR
        self.bridge_out: list = []
        fake_sender = types.SimpleNamespace(hosts={"data." + h: (None, daddr(h)) for h in hosts},
                                            send=lambda to, m: self.bridge_out.append((to, m)), add_host=lambda *a: None)
        saved = BR.Listener, BR.ReliableSender
        BR.Listener, BR.ReliableSender = (lambda url: types.SimpleNamespace(address=CTL)), (lambda addr, grace: fake_sender)
        try:
            self.bridge = BR.Bridge(CTL, 0)       # the real constructor, no executors to wait for
        finally:
            BR.Listener, BR.ReliableSender = saved
        self.bridge_idx: set[int] = set()

    def close(self):
        # let every loop thread that is still blocked in wait() run to its end against THIS world's store
        for h in self.hosts:
            t = self.loop_thread[h]
            if isinstance(t, threading.Thread) and t.is_alive():
                DS.shm_client = self.store[h].client()
                with self.cond:
                    for f, _, _ in self.pool[h].pending:
                        if not f.done():
                            f.cancel()
                    self.cond.notify_all()
                t.join(10)
        (C.get_context, C.zmq, C.time, DS.time_ns, DS.wait, DS.shm_client, DS.shm_api.publish_client_port,
         DS.logging.config.dictConfig) = self._old

    # wait() as seen by a loop thread: block until the behaviour has completed the futures
    def _wait(self, fs, return_when=None):
        fs = list(fs)
        h = self.thread_host.get(threading.get_ident())
        with self.cond:
            while not all(f.done() for f in fs):
                if h is None:
                    raise RuntimeError("wait() on unfinished futures outside a loop thread")
                self.waiting[h] = True
                self.cond.notify_all()
                self.cond.wait(10)
            if h is not None:
                self.waiting[h] = False
        return set(fs), set()

    # ---- frames
    def kind(self, to: str, frames) -> tuple:
        m0 = des_message(frames[0]) if len(frames) != 3 else des_message(frames[0])
        host_of = {daddr(h): h for h in self.hosts}
        host_of[CTL] = "ctrl"
        if isinstance(m0, Syn) and len(frames) == 3:
            hdr = pickle.loads(frames[1])
            b, fn = ORIG(hdr.ds.output)
            v = "orig" if (bytes(frames[2]) == b and hdr.deser_fun == fn) else "corrupt"
            return ("payload", host_of[to], host_of[m0.addr], m0.idx, hdr.ds.output, v)
        if isinstance(m0, Ack):
            return ("ack", host_of[to], m0.idx)
        if isinstance(m0, DatasetTransmitCommand):
            return ("cmd", host_of[to], m0.idx)
        if isinstance(m0, DatasetPurge):
            return ("purge", host_of[to], m0.ds.output)
        return ("other", type(m0).__name__)

    def spec_kind(self, f: dict) -> tuple:
        k = f["k"]
        if k == "payload":
            return ("payload", f["to"], f["from"], f["idx"], f["ds"], f["v"])
        if k == "ack":
            return ("ack", f["to"], f["idx"])
        if k == "cmd":
            return ("cmd", f["to"], f["idx"])
        return ("purge", f["to"], f["ds"])

    def _addr(self, host: str) -> str:
        return CTL if host == "ctrl" else daddr(host)

    def _find(self, f: dict):
        want = self.spec_kind(f)
        to = self._addr(f["to"])
        for fr in self.net.flight.get(to, []):
            if self.kind(to, fr) == want:
                return to, fr
        raise LookupError(f"frame {want} not in flight")

    def _drain_announcements(self):
        for h in self.hosts:
            for fr in self.net.flight.get(maddr(h), []):
                m = des_message(fr[0])
                if isinstance(m, DatasetPublished):
                    self.announced.append((h, m.ds.output, m.transmit_idx))
                elif isinstance(m, DatasetTransmitFailure):
                    self.failures.add("send_failed_not_in_store" if "->" in m.detail else m.detail[:40])
            self.net.flight[maddr(h)] = []

    def _iterate(self, h: str):
        """one iteration of the real recv_loop of host h (ends at the second timed poll)"""
        DS.shm_client = self.store[h].client()
        FakePoller.budget = 1
        try:
            self.srv[h].recv_loop()
        except Stop:
            pass
        except Exception as e:        # the loop re-raises: the data server process dies
            self.crashed.add(h)
            self.failures.add("crashed:" + h)

    # ---- actions
    def apply(self, last: tuple, cmds: list[dict]):
        act = last[0]
        if act == "Issue":
            i = last[1]
            c = cmds[i - 1]
            ds = DatasetId("t", c["ds"])
            if c["k"] == "p":
                self.net.flight.setdefault(daddr(c["src"]), []).append((ser_message(DatasetPurge(ds)),))
            else:
                del self.bridge_out[:]
                if c["k"] == "x":
                    self.bridge.transmit(ds, c["src"], c["tgt"])
                else:
                    self.bridge.fetch(ds, c["src"])
                (to, real), = self.bridge_out
                want = DatasetTransmitCommand(source=c["src"], target=c["tgt"] if c["k"] == "x" else "controller",
                                              daddress=self._addr(c["tgt"]) if c["k"] == "x" else CTL, ds=ds, idx=real.idx)
                if to != "data." + c["src"] or real != want:
                    self.failures.add("bridge_built_wrong_command")
                if real.idx in self.bridge_idx:
                    self.failures.add("bridge_reused_command_idx")
                self.bridge_idx.add(real.idx)
                # the data servers see the command under the spec's number (the position in the scenario)
                cmd = DatasetTransmitCommand(source=real.source, target=real.target, daddress=real.daddress, ds=real.ds, idx=i)
                self.net.flight.setdefault(daddr(c["src"]), []).append((ser_message(cmd),))
        elif act == "Tick":
            Clock.now += (GRACE_MS + 1) * 1_000_000
        elif act in ("Drop", "Dup"):
            to, fr = self._find(last[1])
            if act == "Drop":
                self.net.flight[to].remove(fr)
            else:
                self.net.flight[to].append(fr)
        elif act == "SendDone" or act == "StoreDone":
            h, idx = last[1], last[2]
            want = "send_payload" if act == "SendDone" else "store_payload"
            ent = None
            for e in self.pool[h].pending:
                f, fn, arg = e
                i = arg.idx if isinstance(arg, DatasetTransmitCommand) else arg.header.confirm_idx
                if fn.__name__ == want and i == idx and not f.done():
                    ent = e
                    break
            if ent is None:
                raise LookupError(f"no pending {want} future {idx} at {h}")
            f, fn, arg = ent
            DS.shm_client = self.store[h].client()
            try:
                f.set_result(fn(arg))
            except Exception as e:
                f.set_exception(e)
            self.pool[h].pending.remove(ent)
            # (the loop thread, if any, is parked inside wait(): registering the result now or after the wait is the same)
            self.srv[h].maybe_clean()
            with self.cond:
                self.cond.notify_all()
        elif act == "Loop":
            h, f = last[1], last[2]
            if f["k"] == "none":
                self._iterate(h)
            else:
                to, fr = self._find(f)
                self.net.flight[to].remove(fr)
                self.net.inbox[to].append(fr)
                if f["k"] == "purge" and not any(not fu.done() for fu, _, _ in self.pool[h].pending):
                    # nothing is running: the spec still takes two steps (block, finish); run the iteration at PurgeFinish
                    self.loop_thread[h] = "deferred"
                elif f["k"] == "purge":
                    t = threading.Thread(target=self._loop_thread, args=(h,), daemon=True)
                    self.loop_thread[h] = t
                    with self.cond:
                        t.start()
                        # until the thread blocks in wait() or finishes
                        self.cond.wait_for(lambda: self.waiting[h] or not t.is_alive(), 10)
                    if not t.is_alive():
                        self.loop_thread[h] = None     # nothing was running: the purge completed at once
                else:
                    self._iterate(h)
        elif act == "PurgeFinish":
            h = last[1]
            t = self.loop_thread[h]
            if t == "deferred":
                self.loop_thread[h] = None
                self._iterate(h)
            elif t is not None:
                DS.shm_client = self.store[h].client()
                with self.cond:
                    self.cond.notify_all()
                t.join(10)
                if t.is_alive():
                    raise RuntimeError("purge handler did not finish")
                self.loop_thread[h] = None
        elif act == "CtlRecv":
            to, fr = self._find(last[1])
            self.net.flight[to].remove(fr)
            self.net.inbox[to].append(fr)
            for m in self.ctl.recv_messages(0):
                if isinstance(m, DatasetTransmitPayload):
                    b, fn = ORIG(m.header.ds.output)
                    self.fetched.append((m.header.ds.output, "orig" if bytes(m.value) == b and m.header.deser_fun == fn else "corrupt",
                                         m.header.confirm_idx))
        else:
            raise ValueError(act)
        self._drain_announcements()

    def _loop_thread(self, h: str):
        self.thread_host[threading.get_ident()] = h
        try:
            self._iterate(h)
        finally:
            self.thread_host.pop(threading.get_ident(), None)
            with self.cond:
                self.waiting[h] = False
                self.cond.notify_all()

    # ---- projection
    def project(self) -> dict:
        now = Clock.now
        out = {"store": {}, "awaiting": {}, "futs": {}, "acks": {}, "invalid": {}, "seen": {}, "blocked": {}}
        for h in self.hosts:
            s = self.srv[h]
            st = {}
            for d in self.dsets:
                e = self.store[h].data.get(ds2shmid(DatasetId("t", d)))
                b, fn = ORIG(d)
                st[d] = "none" if e is None else ("orig" if bytes(e[0]) == b and e[1] == fn and e[2] else "dead")
            out["store"][h] = st
            out["awaiting"][h] = {i: [c.ds.output, "ctrl" if c.target == "controller" else c.target,
                                      "inprog" if at <= 0 else ("stale" if Clock.since(at) > GRACE_MS * 1_000_000 else "fresh")]
                                  for i, (c, at) in s.awaiting_confirmation.items()}
            out["futs"][h] = sorted(["send" if fn.__name__ == "send_payload" else "store",
                                     a.idx if isinstance(a, DatasetTransmitCommand) else a.header.confirm_idx]
                                    for f, fn, a in self.pool[h].pending if not f.done())
            out["acks"][h] = sorted(s.acks)
            out["invalid"][h] = sorted(d.output for d in s.invalid)
            out["seen"][h] = acked_view(s.dlistener)
            out["blocked"][h] = self.loop_thread[h] is not None
        out["seen"]["ctrl"] = acked_view(self.ctl)
        bag: dict = {}
        for to, frs in self.net.flight.items():
            if to.endswith(":1") and to != CTL:
                continue
            for fr in frs:
                k = "|".join(map(str, self.kind(to, fr)))
                bag[k] = bag.get(k, 0) + 1
        out["net"] = dict(sorted(bag.items()))
        out["announced"] = [list(a) for a in self.announced]
        out["fetched"] = [list(a) for a in self.fetched]
        out["failures"] = sorted(self.failures)
        return out


def _fun(x):
    return x if isinstance(x, dict) else {i + 1: v for i, v in enumerate(x)}


def spec_projection(s: dict, w: World) -> dict:
    out = {"store": {}, "awaiting": {}, "futs": {}, "acks": {}, "invalid": {}, "seen": {}, "blocked": {}}
    for h in w.hosts:
        out["store"][h] = dict(s["store"][h])
        out["awaiting"][h] = {i: [a["ds"], a["tgt"], a["at"]] for i, a in _fun(s["awaiting"][h]).items()}
        out["futs"][h] = sorted([f["k"], f["idx"]] for f in s["futs"][h])
        out["acks"][h] = sorted(s["acks"][h])
        out["invalid"][h] = sorted(s["invalid"][h])
        out["seen"][h] = sorted(s["seen"][h])
        out["blocked"][h] = s["blocked"][h] != ""
    out["seen"]["ctrl"] = sorted(s["seen"]["ctrl"])
    bag = {}
    for f, n in _fun(s["net"]).items():
        fd = dict(f) if not isinstance(f, dict) else f
        bag["|".join(map(str, w.spec_kind(fd)))] = n
    out["net"] = dict(sorted(bag.items()))
    out["announced"] = [list(a) for a in s["announced"]]
    out["fetched"] = [list(a) for a in s["fetched"]]
    out["failures"] = sorted(s["failures"])
    return out


def replay(behaviour, hosts, dsets, initial, cmds) -> dict:
    w = World(hosts, dsets, initial)
    try:
        for i, (label, s) in enumerate(behaviour[1:], start=2):
            last = s["last"]
            try:
                w.apply(last, cmds)
            except (LookupError, RuntimeError) as e:
                return {"steps": i - 1, "mismatch": {"step": i, "action": _js(last), "harness_error": repr(e)[:300]}}
            got, exp = w.project(), spec_projection(s, w)
            for h_, v_ in got["seen"].items():          # representation of the seen-Syn memory unknown: not compared
                if v_ is None:
                    got["seen"][h_] = exp["seen"][h_]
            diffs = {f: [exp[f], got[f]] for f in exp if exp[f] != got[f]}
            if diffs:
                return {"steps": i - 1, "mismatch": {"step": i, "action": _js(last), "diffs": _js(diffs)}}
        return {"steps": len(behaviour) - 1, "mismatch": None}
    finally:
        w.close()


def _js(o):
    if isinstance(o, dict):
        return {str(k): _js(v) for k, v in o.items()}
    if isinstance(o, (list, tuple, set, frozenset)):
        return [_js(x) for x in (sorted(o, key=str) if isinstance(o, (set, frozenset)) else o)]
    return o
