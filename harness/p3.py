"""Binding pattern P3 (enumerate / execute / validate) for the function-like properties.

  pass 1  TLC evaluates the spec's domain definition and writes every case as JSON          (spec!Generate)
  pass 2  the harness runs the REAL function on every case and writes {result | error}      (python)
  pass 3  TLC loads cases + results and evaluates the spec's post-condition on every pair   (spec!Judge)
          printing  "B|<index>|{names of violated clauses}"  for the pairs that fail.

Both the generator and the oracle are the TLA+ specification; Python only transports.
"""
from __future__ import annotations

import json
import os
import re
import time
from pathlib import Path

from . import tlc
from .common import Ctx, MachineryError

WRAP = """---- MODULE {name} ----
EXTENDS {base}
{defs}
VARIABLE z__
Init__ == z__ = 0{initc}
Next__ == UNCHANGED <<z__{varsc}>>
Inv__ == {op}
====
"""


def _defs(defs: str) -> str:
    return "\n".join(l for l in defs.splitlines() if not l.startswith("\\* @"))


def _initc(defs: str) -> str:
    """A spec with VARIABLES: put `\\* @init Init` and `\\* @vars vars` lines into `defs`."""
    for l in defs.splitlines():
        if l.startswith("\\* @init "):
            return " /\\ " + l[len("\\* @init "):].strip()
    return ""


def _varsc(defs: str) -> str:
    for l in defs.splitlines():
        if l.startswith("\\* @vars "):
            return ", " + l[len("\\* @vars "):].strip()
    return ""


def _run(ctx: Ctx, base: str, op: str, consts: dict[str, str], env: dict[str, str], tag: str, modules: list[str],
         timeout: int = 1800, heap: str = "6g", defs: str = "") -> tlc.TlcResult:
    name = f"P3_{tag}"
    cfg = tlc.cfg_text(init="Init__", next_="Next__", constants=consts, invariants=["Inv__"])
    d = tlc.stage(ctx.scratch, f"p3_{base}_{tag}", modules, {f"{name}.tla": WRAP.format(name=name, base=base, op=op, defs=_defs(defs), initc=_initc(defs), varsc=_varsc(defs)),
                                                              f"{name}.cfg": cfg})
    r = tlc.check(d, name, workers=1, timeout=timeout, env=env, deadlock=False, heap=heap, light=False)
    if "Inv__" in r.violated:
        # the invariant is a conjunction of (ok \/ PrintT(...)): PrintT returns TRUE, so a violation means an evaluation problem
        raise MachineryError(f"TLC could not evaluate {base}!{op}:\n{r.out[-3000:]}")
    tlc.require_clean(r, f"{base}!{op}")
    return r


def generate(ctx: Ctx, base: str, consts: dict[str, str], modules: list[str] | None = None, tag: str = "gen",
             op: str = "Generate", env: dict[str, str] | None = None, defs: str = "") -> tuple[Path, list]:
    cases = ctx.scratch / f"{base}_{tag}_cases.json"
    e = {"CASES_FILE": str(cases)}
    e.update(env or {})
    _run(ctx, base, op, consts, e, tag, modules or [base], defs=defs)
    if not cases.exists():
        raise MachineryError(f"{base}!{op} wrote no cases")
    return cases, json.loads(cases.read_text())


def judge_chunked(ctx: Ctx, base: str, consts: dict[str, str], cases: list, results: list, chunk: int = 2500, workers: int = 4,
                  env: dict[str, str] | None = None, **kw) -> dict[int, set[str]]:
    """`judge` for per-case post-conditions over large case lists: chunks judged by concurrent TLC runs, indices mapped back."""
    from concurrent.futures import ThreadPoolExecutor

    def one(k: int) -> dict[int, set[str]]:
        cf, rf = ctx.scratch / f"{base}_chunk{k}_cases.json", ctx.scratch / f"{base}_chunk{k}_results.json"
        cf.write_text(json.dumps(cases[k:k + chunk]))
        rf.write_text(json.dumps(results[k:k + chunk]))
        e = dict(env or {})
        e = {key: (str(cf) if val == "@cases" else val) for key, val in e.items()}
        part = judge(ctx, base, consts, cf, rf, tag=f"judge_c{k}", env=e, **kw)
        return {k + i: names for i, names in part.items()}

    bad: dict[int, set[str]] = {}
    with ThreadPoolExecutor(max_workers=workers) as tp:
        for part in tp.map(one, range(0, len(cases), chunk)):
            bad.update(part)
    if getattr(ctx, "guard_tripped", None) and not bad:
        raise MachineryError(f"{ctx.guard_tripped}; no violation among the executed cases, the rest was not examined")
    return bad


def _rss_gb() -> float:
    try:
        return int(open("/proc/self/statm").read().split()[1]) * os.sysconf("SC_PAGE_SIZE") / 2**30
    except Exception:
        return 0.0


def execute(ctx: Ctx, cases: list, cases_file: Path, fn, every: int = 20) -> tuple[list, list]:
    """Pass 2 with a resource guard: runs fn(case) for every case; if the process grows beyond VERIF_RSS_LIMIT_GB (default 6) or
    the pass exceeds VERIF_EXEC_BUDGET_S (default 300 s quick / 3600 s thorough) the remaining cases are NOT run, the cases file is
    cut to the executed prefix and judged as usual: a code change that makes the library leak or crawl shows its wrong answers in
    the prefix (VIOLATION); if the prefix is clean, `judge` raises a machinery failure instead of reporting a pass."""
    limit = float(os.environ.get("VERIF_RSS_LIMIT_GB", "6"))
    budget = float(os.environ.get("VERIF_EXEC_BUDGET_S", "300" if ctx.quick else "3600"))
    out_limit = float(os.environ.get("VERIF_RESULT_LIMIT_MB", "96" if ctx.quick else "2048")) * 2**20
    t0, base_rss, results, out_bytes = time.time(), _rss_gb(), [], 0
    for i, c in enumerate(cases):
        if i % every == 0 and i and (_rss_gb() - base_rss > limit or time.time() - t0 > budget or out_bytes > out_limit):
            why = (f"resource guard after {i}/{len(cases)} cases: rss {_rss_gb():.1f} GB (+{_rss_gb() - base_rss:.1f}), {time.time() - t0:.0f} s, "
                   f"{out_bytes / 2**20:.0f} MB of results")
            ctx.log(why)
            ctx.coverage["resource_guard"] = why
            ctx.guard_tripped = why
            cases = cases[:i]
            cases_file.write_text(json.dumps(cases))
            break
        results.append(fn(c))
        try:
            out_bytes += len(json.dumps(results[-1], default=str))
        except Exception:
            pass
    return cases, results


_B = re.compile(r'^"B\|(\d+)\|(.*)"$')


def judge(ctx: Ctx, base: str, consts: dict[str, str], cases: Path, results: Path, modules: list[str] | None = None,
          tag: str = "judge", op: str = "Judge", env: dict[str, str] | None = None, defs: str = "") -> dict[int, set[str]]:
    e = {"CASES_FILE": str(cases), "RESULTS_FILE": str(results)}
    e.update(env or {})
    r = _run(ctx, base, op, consts, e, tag, modules or [base], defs=defs)
    bad: dict[int, set[str]] = {}
    for line in r.out.splitlines():
        m = _B.match(line)
        if m:
            bad[int(m.group(1))] = set(re.findall(r'\\"([^"\\]*)\\"', m.group(2)))
    if getattr(ctx, "guard_tripped", None) and not bad and tag in ("judge",):
        raise MachineryError(f"{ctx.guard_tripped}; no violation among the executed cases, the rest was not examined")
    return bad
