"""Binding pattern P3 (enumerate / execute / validate) for the function-like properties.

  pass 1  TLC evaluates the spec's domain definition and writes every case as JSON          (spec!Generate)
  pass 2  the harness runs the REAL function on every case and writes {result | error}      (python)
  pass 3  TLC loads cases + results and evaluates the spec's post-condition on every pair   (spec!Judge)
          printing  "B|<index>|{names of violated clauses}"  for the pairs that fail.

Both the generator and the oracle are the TLA+ specification; Python only transports.
"""
from __future__ import annotations

import json
import re
from pathlib import Path

from . import tlc
from .common import Ctx, MachineryError

WRAP = """---- MODULE {name} ----
EXTENDS {base}
{defs}
VARIABLE z__
Init__ == z__ = 0{initc}
Next__ == UNCHANGED <<z__{varsc}>>
Inv__ == {op}
====
"""


def _defs(defs: str) -> str:
    return "\n".join(l for l in defs.splitlines() if not l.startswith("\\* @"))


def _initc(defs: str) -> str:
    """A spec with VARIABLES: put `\\* @init Init` and `\\* @vars vars` lines into `defs`."""
    for l in defs.splitlines():
        if l.startswith("\\* @init "):
            return " /\\ " + l[len("\\* @init "):].strip()
    return ""


def _varsc(defs: str) -> str:
    for l in defs.splitlines():
        if l.startswith("\\* @vars "):
            return ", " + l[len("\\* @vars "):].strip()
    return ""


def _run(ctx: Ctx, base: str, op: str, consts: dict[str, str], env: dict[str, str], tag: str, modules: list[str],
         timeout: int = 1800, heap: str = "6g", defs: str = "") -> tlc.TlcResult:
    name = f"P3_{tag}"
    cfg = tlc.cfg_text(init="Init__", next_="Next__", constants=consts, invariants=["Inv__"])
    d = tlc.stage(ctx.scratch, f"p3_{base}_{tag}", modules, {f"{name}.tla": WRAP.format(name=name, base=base, op=op, defs=_defs(defs), initc=_initc(defs), varsc=_varsc(defs)),
                                                              f"{name}.cfg": cfg})
    r = tlc.check(d, name, workers=1, timeout=timeout, env=env, deadlock=False, heap=heap, light=False)
    if "Inv__" in r.violated:
        # the invariant is a conjunction of (ok \/ PrintT(...)): PrintT returns TRUE, so a violation means an evaluation problem
        raise MachineryError(f"TLC could not evaluate {base}!{op}:\n{r.out[-3000:]}")
    tlc.require_clean(r, f"{base}!{op}")
    return r


def generate(ctx: Ctx, base: str, consts: dict[str, str], modules: list[str] | None = None, tag: str = "gen",
             op: str = "Generate", env: dict[str, str] | None = None, defs: str = "") -> tuple[Path, list]:
    cases = ctx.scratch / f"{base}_{tag}_cases.json"
    e = {"CASES_FILE": str(cases)}
    e.update(env or {})
    _run(ctx, base, op, consts, e, tag, modules or [base], defs=defs)
    if not cases.exists():
        raise MachineryError(f"{base}!{op} wrote no cases")
    return cases, json.loads(cases.read_text())


_B = re.compile(r'^"B\|(\d+)\|(.*)"$')


def judge(ctx: Ctx, base: str, consts: dict[str, str], cases: Path, results: Path, modules: list[str] | None = None,
          tag: str = "judge", op: str = "Judge", env: dict[str, str] | None = None, defs: str = "") -> dict[int, set[str]]:
    e = {"CASES_FILE": str(cases), "RESULTS_FILE": str(results)}
    e.update(env or {})
    r = _run(ctx, base, op, consts, e, tag, modules or [base], defs=defs)
    bad: dict[int, set[str]] = {}
    for line in r.out.splitlines():
        m = _B.match(line)
        if m:
            bad[int(m.group(1))] = set(re.findall(r'\\"([^"\\]*)\\"', m.group(2)))
    return bad
