"""C15: spec/Arrays.tla enumerates arrays/axes/indices/partitions and judges the values the real array backends return
(numpy arrays and the same data as xarray.DataArray), and decides in the model which functions may be marked batchable (P3)."""
from __future__ import annotations

import json

from .. import p3
from ..common import CaseTimeout, guarded
from ..drive import arrays_io as aio

LEVEL = "exploration"


def run(ctx):
    from earthkit.workflows import backends
    from earthkit.workflows.backends import Backend

    consts = ({"MaxArgs": "3", "PoolSize": "3", "Wide": "FALSE", "BatchArgs": "4"} if ctx.quick else
              {"MaxArgs": "4", "PoolSize": "4", "Wide": "TRUE", "BatchArgs": "6"})
    cases_file, cases = p3.generate(ctx, "Arrays", consts, env={"PASS": "generate"})
    ctx.log(f"{len(cases)} cases generated")

    # the marker as the library exposes it: attribute `batchable` on the functions of backends.Backend,
    # reached through the module level __getattr__ (this is what fluent.reduce looks at)
    marked = sorted(n for n in dir(Backend) if not n.startswith("_")
                    and getattr(getattr(backends, n), "batchable", False) is True)
    mf = ctx.scratch / "c15_marks.json"
    mf.write_text(json.dumps(marked))

    def one(case, wrap):
        try:
            try:
                value = guarded(lambda: aio.call_backend(backends, case, wrap), 5.0)
            except CaseTimeout:                 # a stall of the machine is not a verdict: once more, with more time
                value = guarded(lambda: aio.call_backend(backends, case, wrap), 60.0)
            return aio.encode(value, squared=case["op"] == "std")
        except aio.NotInBackendApi:
            return {"skip": True}
        except (Exception, CaseTimeout) as e:
            return {"error": f"{type(e).__name__}: {e}"[:200], "etype": type(e).__name__}

    cases, results = p3.execute(ctx, cases, cases_file, lambda c: {"np": one(c, aio.as_numpy), "xr": one(c, aio.as_xarray)})
    rf = ctx.scratch / "c15_results.json"
    rf.write_text(json.dumps(results))
    env = {"MARKS_FILE": str(mf)}
    bad = p3.judge(ctx, "Arrays", consts, cases_file, rf, env={**env, "PASS": "judge"})
    ctx.log("values judged")
    badm = p3.judge(ctx, "Arrays", consts, cases_file, rf, env={**env, "PASS": "marks"}, op="JudgeMarks", tag="marks")

    ctx.log("marker set judged")
    kinds: dict[str, int] = {}
    for c in cases:
        kinds[c["k"]] = kinds.get(c["k"], 0) + 1
    nontrivial = sum(1 for c in cases if len(c["args"]) > 1 or len(c["args"][0]["data"]) > 1)
    ctx.coverage.update({
        "evaluations": sum(1 for r in results for b in ("np", "xr") if "skip" not in r[b]) + 1, "distinct_nontrivial": nontrivial, "exhaustive": True,
        "cases_by_kind": kinds, "marked_batchable_in_library": marked,
        "rule": "spec/Arrays.tla!Cases enumerated by TLC: sum/prod/min/max/mean/std/var over 2.."
                f"{consts['MaxArgs']} arrays (shapes (1),(2),(3),(2,2){',(2,3)' if not ctx.quick else ''}; shape (1): all of "
                f"-2..3 for pairs and -2,0,3 for longer lists, other shapes {consts['PoolSize']} arrays each), the same functions on one array with no axis and with every "
                "axis, stack at every axis, concat along every axis (also 1-D arrays of different lengths), take with every "
                "integer index and with index sequences, add/subtract/multiply/divide/pow on equal shapes and with a scalar, "
                "and f(f(b1),..,f(bk)) through the implementation for every composition 1<k<n (all float64); plus dtype bool "
                "(entries 0/1) and int8 (entries 100,127,-128,2): sum/prod/min/max/mean over 2..3 arrays, int8 add/multiply "
                "(wrap modulo 256), batched sum/prod/min/max; plus NEGATIVE axis/dim (-1..-rank; stack: -1..-(rank+1)) for the "
                "one-array reductions, stack, concat, take with integer and sequence indices (normalised by the spec as "
                "NumPy does) - on the array-API backend for all of them, on the xarray backend for take and stack (its "
                "reductions/concat name the dimension); plus arguments of MIXED RANK (0-d, 1-d, 2-d broadcastable, families "
                "(),(2),(2,2) and (),(3),(2,3), every ordered list of 2..3 with two different ranks): stack at every axis "
                "-(R+1)..R on both backends, add/subtract/multiply on both, sum/prod/min/max/mean on the xarray backend (the "
                "array-API backend does not define them for ragged arguments), reference NumPy on the broadcast arguments, "
                "xarray results compared by dimension NAME with the new dimension at the requested position; plus take with "
                "negative (-1, -n), repeated and out-of-range (n, n+1, -n-1) indices, scalar and sequence, every axis from both "
                "ends, on both backends - an out-of-range index must raise IndexError as NumPy does; plus array (op) PYTHON "
                "SCALAR (True, 2, 9, 0.5, 2.0; scalar on the right and on the left) for add/subtract/multiply/divide/pow over "
                "dtypes bool, int8, uint8, float32, float64, judged on RESULT DTYPE (NumPy 2 weak-scalar promotion) and values "
                "(int8/uint8 wrap modulo 256); plus sum/prod/min/max/mean/std/var over 2..3 arrays WITH an explicit axis= "
                "(array-API) / dim= (xarray) keyword, every axis: as HEAD behaves the reduction stays across the arguments, and "
                "the marked functions stay batchable when the keyword is passed to the inner and outer calls; "
                "each case evaluated on numpy "
                "arrays and on DataArrays; non-trivial = more than one element involved; batchability of each variadic "
                f"function decided by TLC on 1..{consts['BatchArgs']} arguments, every composition into consecutive batches",
        "clauses": ["raised", "shape_differs", "value_differs", "index_error_not_raised", "dtype_differs", "dims_differ", "new_dimension_misplaced", "marked_but_not_batchable",
                    "batchable_as_documented_but_not_marked", "documented_as_not_batchable_but_marked",
                    "model_contradicts_documentation"],
    })
    for c in cases[:1] + cases[len(cases) // 2:len(cases) // 2 + 1] + cases[-1:]:
        ctx.sample({"case": c})
    for i, names in sorted(bad.items()):
        # key: backend-independent "<op>:<kind>:<what>" so that one defect seen on both backends is one finding
        ks = sorted({n.split(":", 1)[1] for n in names})
        ctx.violate("post:" + "+".join(ks), f"backends.{cases[i-1]['op']} violates {sorted(names)} on {cases[i-1]}",
                    {"case": cases[i - 1], "result": results[i - 1]}, clause="+".join(sorted(names)))
    for names in badm.values():
        for n in sorted(names):
            ctx.violate("marks:" + n, f"batchable marker: {n} (marked in the library: {marked}; the model decides by evaluating "
                        "f(f(b1),..,f(bk)) = f(all) on every composition)", {"marked": marked}, clause=n.split(":")[0])
    ctx.assumptions += [
        "scalar operands: bool array with a bool scalar, int scalars that do not fit the dtype, irrational powers, pow on bool "
        "arrays (NumPy's operator shortcut for exponent 2 differs from np.power) and results float32 cannot hold exactly are "
        "not in the domain; the promotion rule modelled is NumPy 2's (NEP 50), the installed version",
        "dtypes float64, bool and int8 only (uint8 and float32 in the scalar-operand cases); bool (op) bool for the two-argument functions and var/std of int8 are not in the "
        "domain; other dtypes, float rounding, NaN/inf are not claimed (DESIGN.md section 8)",
        "values are exact small integers/rationals; a float is read back as the rational with denominator "
        "<= 4096 within 1e-9",
        "std is compared squared (sign kept); a batch of one argument is handed on unchanged, as fluent.reduce does",
        "mixed-rank arguments: shapes are suffixes of the largest (no size-1 broadcasting, which xarray does not do by name); "
        "the harness names an argument's dimensions by their position in the broadcast shape; concat of arrays of different "
        "rank and array-API multi-argument reductions of ragged arguments have no NumPy value and are not in the domain",
        "xarray objects are DataArrays without coordinates; Dataset and the earthkit FieldList backend are not covered",
    ]
