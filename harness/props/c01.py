"""C01: decided on spec/Cascade.tla (TLC) + trace validation of the real controller (spec/CascadeTrace.tla)."""
from ..cascade_engine import replay as _replay
from ..cascade_engine import report

LEVEL = "model_checking"


def real_clusters(ctx):
    """Sanity tier on real processes: the same jobs on real clusters; values must equal sequential evaluation."""
    import glob
    import json
    import os
    import pickle
    import signal
    import subprocess
    import sys
    import time
    from concurrent.futures import ThreadPoolExecutor

    from ..cascade_model import quick_instances, thorough_instances
    from ..common import ROOT, MachineryError
    from .c05 import _free_port_base, _session_procs

    pool = [i for i in (quick_instances() if ctx.quick else thorough_instances()) if not i.gpu_tasks and i.outs]
    pick = pool[:: max(1, len(pool) // (4 if ctx.quick else 24))][: (4 if ctx.quick else 24)]
    base = _free_port_base(2 * len(pick) * 50 + 60)

    def job(ic):
        name, ob = job1(ic, 0)
        if ob["outcome"] != "ok" and ob.get("phase") == "startup":
            # an executor could not start (a port of its range was taken by another process): once more on another range
            name, ob = job1(ic, 1)
            ob["rerun"] = "startup"
            if ob["outcome"] != "ok" and ob.get("phase") == "startup":
                raise MachineryError(f"real cluster for {name} could not be started twice: {ob}")
        return name, ob

    def job1(ic, attempt):
        k, inst = ic
        k = k + attempt * len(pick)
        tag = f"j{os.getpid() % 10000}n{k}"
        ip = ctx.scratch / f"{tag}.pickle"
        pickle.dump(inst, open(ip, "wb"))
        out = ctx.scratch / f"{tag}.out"
        with open(out, "w") as fo, open(ctx.scratch / f"{tag}.err", "w") as fe:
            p = subprocess.Popen([sys.executable, "-W", "ignore", "-m", "harness.cluster.job_run", str(ip), str(base + k * 50), tag],
                                 cwd=ROOT, stdout=fo, stderr=fe, start_new_session=True)
            try:
                p.wait(60)
            except subprocess.TimeoutExpired:
                pass
        left = 0
        for _ in range(60):
            left = _session_procs(p.pid)
            if left == 0:
                break
            time.sleep(0.2)
        segs = len(glob.glob(f"/dev/shm/sCasc{tag}*"))
        ob = {"outcome": "hang"}
        for line in open(out):
            if line.startswith("RESULT "):
                ob = json.loads(line[7:])
        ob["leftover_procs"], ob["segments"] = left, segs
        try:
            os.killpg(p.pid, signal.SIGKILL)
        except ProcessLookupError:
            pass
        for f in glob.glob(f"/dev/shm/sCasc{tag}*") + glob.glob(f"/tmp/{tag}h*.socket"):
            try:
                os.unlink(f)
            except OSError:
                pass
        return inst.name, ob

    with ThreadPoolExecutor(max_workers=3) as tp:
        results = list(tp.map(job, list(enumerate(pick))))
    for name, ob in results:
        if ob["outcome"] != "ok":
            ctx.violate(f"real_cluster:{ob['outcome']}", f"job {name} on a real cluster: {ob}", {"instance": name, "observed": ob})
        elif not ob.get("values_ok"):
            ctx.violate("real_cluster:values_differ_from_sequential", f"job {name} on a real cluster: {ob}", {"instance": name, "observed": ob})
    ctx.coverage["real_cluster_runs"] = len(results)
    ctx.coverage["real_cluster_instances"] = [n for n, _ in results]
    ctx.coverage["traces_validated_against_impl"] += len(results)


def run(ctx):
    report(ctx, "C01")
    real_clusters(ctx)


def replay(ctx, rep):
    return _replay(ctx, "C01", rep)
