"""C16: spec/Preschedule.tla enumerates the job DAGs and judges cascade.scheduler.graph.precompute's result (P3)."""
from __future__ import annotations

import json

from cascade.low.core import DatasetId, JobInstance, Task2TaskEdge, TaskDefinition, TaskInstance
from cascade.scheduler.graph import precompute

from .. import p3
from ..common import CaseTimeout, guarded

LEVEL = "exploration"


def mkjob(case: dict) -> JobInstance:
    tasks = {}
    for t in case["tasks"]:
        td = TaskDefinition(entrypoint="x.y", environment=[], input_schema={}, output_schema={o: "Any" for o in t["outs"]})
        tasks[t["name"]] = TaskInstance(definition=td, static_input_kw={}, static_input_ps={})
    cnt: dict[str, int] = {}
    edges = []
    for s, o, d in case["edges"]:
        i = cnt.get(d, 0)
        cnt[d] = i + 1
        # alternate positional / keyword parameters (several edges may join the same pair of tasks)
        edges.append(Task2TaskEdge(source=DatasetId(s, o), sink_task=d, sink_input_kw=f"p{i}" if i % 2 else None,
                                   sink_input_ps=None if i % 2 else i))
    return JobInstance(tasks=tasks, edges=edges)


def result_of(case: dict) -> dict:
    try:
        pre = guarded(lambda: precompute(mkjob(case)), 3.0)
    except (Exception, CaseTimeout) as e:  # the property says nothing may go wrong for a well formed DAG
        return {"error": repr(e)[:200]}
    return {
        "components": [{"nodes": list(c.nodes), "sources": list(c.sources), "depth": c.depth,
                        "value": {t: c.value[t] for t in c.nodes},
                        "dist": {a: {b: c.distance_matrix[a][b] for b in c.nodes} for a in c.nodes}} for c in pre.components],
        "edge_o": [[d.task, d.output, sorted(ts)] for d, ts in pre.edge_o.items()],
        "edge_i": [[t, sorted([d.task, d.output] for d in ds)] for t, ds in pre.edge_i.items()],
        "task_o": [[t, sorted(d.output for d in ds)] for t, ds in pre.task_o.items()],
    }


def run(ctx):
    consts = {"MaxN": "4" if ctx.quick else "5", "MaxTwoOut": "3" if ctx.quick else "4"}
    cases_file, cases = p3.generate(ctx, "Preschedule", consts, env={"PASS": "generate"})
    cases, results = p3.execute(ctx, cases, cases_file, result_of)
    rf = ctx.scratch / "c16_results.json"
    rf.write_text(json.dumps(results))
    if len(cases) > 5000:
        bad = p3.judge_chunked(ctx, "Preschedule", consts, cases, results, env={"PASS": "judge"})
    else:
        bad = p3.judge(ctx, "Preschedule", consts, cases_file, rf, env={"PASS": "judge"})
    nontrivial = sum(1 for c in cases if c["edges"])
    ctx.coverage.update({
        "evaluations": len(cases), "distinct_nontrivial": nontrivial, "exhaustive": True,
        "states": len(cases), "transitions": len(cases), "traces_validated_against_impl": len(cases),
        "rule": f"all job DAGs with <= {consts['MaxN']} tasks (edges i<j), two-output tasks and multi-edges up to "
                f"{consts['MaxTwoOut']} tasks, enumerated by TLC from spec/Preschedule.tla!Cases; non-trivial = has an edge; "
                "TLC evaluates Preschedule!Post on every (case, precompute(case)) pair",
        "clauses": ["partition_is_not_the_wcc", "task_listed_twice", "some_task_in_no_component", "not_heaviest_first",
                    "sources_wrong", "depth_wrong", "value_wrong", "distance_wrong", "consumers_wrong", "inputs_wrong",
                    "outputs_wrong", "raised"],
    })
    for c in cases[-3:]:
        ctx.sample({"case": c})
    for i, names in sorted(bad.items()):
        ctx.violate("post:" + "+".join(sorted(names)), f"precompute violates {sorted(names)} on case {cases[i-1]}",
                    {"case": cases[i - 1], "result": results[i - 1]}, clause="+".join(sorted(names)))
    ctx.assumptions += ["bounded domain as stated in `rule`; the python fallback of nearest_common_descendant or coptrs, "
                        "whichever the installation selects, is what is exercised"]
