"""C02: (1) controller half on spec/Cascade.tla (TLC) + trace validation of the real controller (shared engine);
(2) worker half on spec/Worker.tla: every message order up to a bound fed to the real entrypoint(), judged by TLC."""
import json
import logging

from .. import p3
from ..cascade_engine import report

LEVEL = "model_checking"


def worker_half(ctx):
    logging.disable(logging.CRITICAL)
    from ..drive import worker
    consts = {"MaxLen": "5" if ctx.quick else "6"}
    cases_file, cases = p3.generate(ctx, "Worker", consts, env={"PASS": "generate"}, tag="wgen")
    results = [worker.run_sequence(list(c)) for c in cases]
    rf = ctx.scratch / "worker_results.json"
    rf.write_text(json.dumps(results))
    bad = p3.judge(ctx, "Worker", consts, cases_file, rf, env={"PASS": "judge", "JUDGE_CASES": str(cases_file)}, tag="wjudge")
    for i, names in sorted(bad.items()):
        if i == 0:
            ctx.violate("worker_spec:" + "+".join(sorted(names)), "spec/Worker.tla violates its own clause", None)
            continue
        ctx.violate("worker:" + "+".join(sorted(names)), f"real worker entrypoint on message order {cases[i-1]}: {sorted(names)}; log {results[i-1]['log']}",
                    {"messages": cases[i - 1], "observed": results[i - 1]}, clause="+".join(sorted(names)))
    ctx.coverage["worker_message_orders"] = len(cases)
    ctx.coverage["worker_orders_with_deferral"] = sum(1 for c in cases if any(m.startswith("ts_") for m in c) and
                                                      any(c.index(m) < max([c.index(x) for x in c if x.startswith("pub_")] or [-1])
                                                          for m in c if m.startswith("ts_")))
    ctx.sample({"worker_message_order": cases[len(cases) // 2], "observed_log": results[len(cases) // 2]["log"]})


def run(ctx):
    report(ctx, "C02")
    worker_half(ctx)
    # the controller-level engine assumes that a command reaches its executor exactly once; that is what the Listener's memory of
    # seen Syns provides: judged here on the real Listener as well (several senders, long histories)
    from .c06 import replay_part, senders_part
    senders_part(ctx)
    # ... and a sample of the behaviours of spec/Acked.tla (loss, duplication, re-sends) replayed into the real sender/listener pair
    n, _ = replay_part(ctx, 100 if ctx.quick else 600)
    ctx.coverage["acked_behaviours_replayed"] = n
    ctx.coverage["traces_validated_against_impl"] += ctx.coverage["worker_message_orders"]
