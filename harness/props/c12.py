"""C12: spec/GraphSerde.tla enumerates graphs (plain DAGs and small fluent programs) and judges what the three real
round trips (dict, JSON, Cascade dill file) give back (P3). Python builds, runs and dumps; the verdict is TLC's."""
from __future__ import annotations

import ast
import json

import numpy as np

from earthkit.workflows import Cascade, fluent
from earthkit.workflows.graph import Graph, Node, deserialise, from_json, serialise, to_json

from .. import p3
from ..common import CaseTimeout, guarded

LEVEL = "exploration"


# ---- callables used as fluent payloads (module level, so that dill stores them by reference)
def src():
    return 1


def fn(x):
    return x


def fn2(x, y):
    return x


def build_plain(case: dict) -> Graph:
    nodes: dict[str, Node] = {}
    consumed: set[str] = set()
    for nd in case["nodes"]:
        inputs = {}
        for iname, parent, oname in nd["inputs"]:
            inputs[iname] = nodes[parent].get_output(oname)
            consumed.add(parent)
        nodes[nd["name"]] = Node(nd["name"], outputs=list(nd["outs"]), payload=ast.literal_eval(nd["payload"]), **inputs)
    if case.get("sinks", "terminals") == "all":
        return Graph(list(nodes.values()))
    return Graph([n for name, n in nodes.items() if name not in consumed])


def build_fluent(case: dict) -> Graph:
    n = case["n"]
    yields = ("y", list(range(case["yields"]))) if case["yields"] else None
    a = fluent.from_source(np.array([src] * n), yields=yields, dims=["x"])
    first = a
    for op in case["ops"]:
        if op == "map":
            a = a.map(fn)
        elif op == "reduce":
            a = a.reduce(fluent.Payload(fn), dim="x")
        elif op == "add_self":
            a = a.add(a)
        elif op == "scale":
            a = a.multiply(2.0)
        else:
            raise ValueError(op)
    if case.get("union"):
        return Cascade.from_actions([first, a])._graph
    return a.graph()


def penc(p) -> str:
    """Payload -> comparable text: repr for data; callables by qualified name (identity after a by-reference pickle)."""
    if callable(p):
        return f"<callable {getattr(p, '__module__', '?')}.{getattr(p, '__qualname__', repr(p))}>"
    if isinstance(p, tuple):
        return "(" + ", ".join(penc(x) for x in p) + ("," if len(p) == 1 else "") + ")"
    if isinstance(p, list):
        return "[" + ", ".join(penc(x) for x in p) + "]"
    if isinstance(p, dict):
        return "{" + ", ".join(f"{penc(k)}: {penc(v)}" for k, v in p.items()) + "}"
    return repr(p)


def dump(g: Graph) -> list:
    return [{"name": n.name, "outputs": list(n.outputs),
             "inputs": [[iname, s.parent.name, s.name] for iname, s in n.inputs.items()],
             "payload": penc(n.payload)} for n in g.nodes()]


def trip(g: Graph, how, timeout: float = 5.0) -> dict:
    try:
        try:
            back = guarded(how, timeout)
        except CaseTimeout:          # a stalled machine is not a hang: only a second, much longer wait counts
            back = guarded(how, 12 * timeout)
        return {"nodes": dump(back), "eq": bool(back == g)}
    except (Exception, CaseTimeout) as e:
        return {"error": repr(e)[:200]}


def result_of(case: dict, scratch) -> dict:
    try:
        g = build_plain(case) if case["kind"] == "plain" else build_fluent(case)
        orig = dump(g)
    except Exception as e:      # the harness could not even build the case: judged as such by the spec
        return {"error": repr(e)[:200]}
    path = str(scratch / "c12_graph.dill")

    def via_file():
        Cascade(g).serialise(path)
        return Cascade.from_serialised(path)._graph

    return {"orig": orig,
            "dict": trip(g, lambda: deserialise(serialise(g))),
            "json": trip(g, lambda: from_json(to_json(g))),
            "file": trip(g, via_file)}


def judge_env(cases_file) -> dict:
    """The judge pass must not re-run the spec's Generate (TLC evaluates unused constant definitions too)."""
    return {"JUDGE_CASES": str(cases_file), "CASES_FILE": "none"}


def run(ctx):
    consts = {"MaxN": "3", "MaxPayN": "1" if ctx.quick else "2", "MaxRichN": "2" if ctx.quick else "3", "MaxOps": "2" if ctx.quick else "3"}
    cases_file, cases = p3.generate(ctx, "GraphSerde", consts)
    ctx.log(f"{len(cases)} cases")
    cases, results = p3.execute(ctx, cases, cases_file, lambda c: result_of(c, ctx.scratch))
    ctx.log("real code done")
    rf = ctx.scratch / "c12_results.json"
    rf.write_text(json.dumps(results))
    bad = p3.judge(ctx, "GraphSerde", consts, cases_file, rf, env=judge_env(cases_file))
    plain = [c for c in cases if c["kind"] == "plain"]
    nfl = len(cases) - len(plain)
    term_out = sum(1 for c, r in zip(cases, results) if c["kind"] == "plain" and c["nodes"] and c["nodes"][-1]["outs"])
    nontrivial = sum(1 for c in plain if any(nd["inputs"] for nd in c["nodes"])) + nfl
    ctx.coverage.update({
        "evaluations": len(cases), "distinct_nontrivial": nontrivial, "exhaustive": True,
        "plain_graphs": len(plain), "fluent_programs": nfl, "plain_graphs_whose_last_node_has_outputs": term_out,
        "round_trips_per_case": 3,
        "rule": f"spec/GraphSerde.tla!Plain: every DAG with <= {consts['MaxN']} uniquely named nodes (named n1..n3, and again with names "
                f"that coincide with output names 'a'/'b'/'0' rotated, and with input names / serialisation keys), per node one of 5 output "
                f"lists ([], ['0'], ['a'], ['a','b'], ['0','a']; only [], ['0'], ['a','b'] beyond {consts['MaxRichN']} nodes), (graphs of up to 2 nodes also a list of twelve numbered outputs), every graph with a multi-output node also with its "
                f"output lists reversed, inputs x/y each absent or bound to any output of an earlier node, "
                f"payloads rotated through 14 literals (all rotations up to {consts['MaxPayN']} nodes, 1-2 beyond); "
                f"each graph with an edge also with a sink list that names every node (consumed ones included); !Fluent: from_source over 1..3 sources (single/two-output) followed by <= {consts['MaxOps']} of map/reduce/add/"
                "scale, as the action's own graph and as the union Cascade.from_actions([sources, action]); all enumerated by TLC; non-trivial = has an edge or is fluent; TLC evaluates GraphSerde!Post on every "
                "(case, dumps of deserialise(serialise(g)), from_json(to_json(g)), Cascade file round trip)",
        "clauses": [f"{t}_{c}" for t in ("dict", "json", "file") for c in
                    ("raised", "nodes_lost", "nodes_invented", "node_listed_twice", "outputs_differ", "inputs_differ",
                     "payload_differs", "library_eq_disagrees")] + ["graph_built_is_not_the_case", "fluent_graph_too_small",
                                                                    "harness_could_not_build"],
    })
    for c in (plain[len(plain) // 2], cases[-1]):
        ctx.sample({"case": c})
    for i, names in sorted(bad.items()):
        c = cases[i - 1]
        # input class of the failure (part of the stable key): do the nodes nobody consumes declare outputs?
        if c["kind"] == "plain":
            used = {p for nd in c["nodes"] for _, p, _ in nd["inputs"]}
            cls = "terminal_with_outputs" if any(nd["outs"] for nd in c["nodes"] if nd["name"] not in used) else "terminals_output_less"
        else:
            cls = "fluent"
        ctx.violate(f"post:{cls}:" + "+".join(sorted(names)), f"round trip violates {sorted(names)} on case {c}",
                    {"case": c, "result": results[i - 1]}, clause="+".join(sorted(names)))
    ctx.assumptions += ["bounded domain as stated in `rule`; payloads are plain data (repr-comparable) or, for fluent graphs, "
                        "(callable, args, kwargs) tuples whose callables are importable (dill stores them by reference); "
                        "payload objects with their own `serialise` method are outside the domain; the JSON round trip is "
                        "judged only on graphs whose payloads JSON represents faithfully (no tuples, no non-string keys)"]


def replay(ctx, rep) -> int:
    """./check C12 --replay <file>: run the recorded case through the real code again and let TLC judge it."""
    case = rep["replay"]["case"]
    consts = {"MaxN": "3", "MaxPayN": "2", "MaxRichN": "2", "MaxOps": "2"}
    cf = ctx.scratch / "c12_replay_cases.json"
    cf.write_text(json.dumps([case]))
    result = result_of(case, ctx.scratch)
    rf = ctx.scratch / "c12_replay_results.json"
    rf.write_text(json.dumps([result]))
    bad = p3.judge(ctx, "GraphSerde", consts, cf, rf, tag="replay", env=judge_env(cf))
    if bad:
        print(f"VIOLATION property=C12 replay reproduces {sorted(bad[1])}: {json.dumps(result)[:400]}")
        return 1
    print("OK property=C12 replay: the recorded case satisfies the post-condition on this tree")
    return 0
