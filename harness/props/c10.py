"""C10: spec/Lowering.tla enumerates the graphs and judges what graph2job + the runner did with them (P3)."""
from __future__ import annotations

import json
import logging

from .. import p3
from ..common import CaseTimeout, guarded
from ..drive import lowering

LEVEL = "exploration"


def result_of(case: dict) -> dict:
    try:
        return guarded(lambda: lowering.observe(case), 5.0)
    except (Exception, CaseTimeout) as e:   # every graph of the domain is legal: lowering must not fail
        return {"error": repr(e)[:200]}


def run(ctx):
    logging.disable(logging.CRITICAL)       # the runner logs every (expected) task failure with a traceback
    consts = {"MaxN": "3", "MaxIn": "2", "FullStaticsN": "2", "GenOuts": "{2, 3, 10, 11, 12}"} if ctx.quick else \
             {"MaxN": "4", "MaxIn": "2", "FullStaticsN": "3", "GenOuts": "{2, 3, 4, 9, 10, 11, 12, 20, 101}"}
    cases_file, cases = p3.generate(ctx, "Lowering", consts)
    ctx.log(f"{len(cases)} cases")
    cases, results = p3.execute(ctx, cases, cases_file, result_of)
    rf = ctx.scratch / "c10_results.json"
    rf.write_text(json.dumps(results))
    ctx.log("results written")
    bad = p3.judge(ctx, "Lowering", consts, cases_file, rf)
    nontrivial = sum(1 for c in cases if any(n["inputs"] for n in c["nodes"]))
    ctx.coverage.update({
        "evaluations": len(cases), "distinct_nontrivial": nontrivial, "exhaustive": True,
        "tasks_run": sum(len(c["nodes"]) for c in cases),
        "generator_cases": sum(1 for c in cases if any(n["nout"] > 2 for n in c["nodes"])),
        "cases_with_static_none_or_falsy": sum(1 for c in cases if any(a["t"] in ("none", "bool") or (a["t"] == "int" and a["i"] == 0)
                                                   or (a["t"] == "str" and a["s"] == "") for n in c["nodes"]
                                                   for a in list(n["args"]) + [kv[1] for kv in n["kwargs"]])),
        "cases_yielding_none_or_falsy": sum(1 for c in cases if any(y != "t" for n in c["nodes"] for y in n["yvals"])),
        "hand_built_generator_cases": sum(1 for c in cases if any(n["onames"] for n in c["nodes"])),
        "count_mismatch_cases": sum(1 for c in cases if any(n["nout"] != n["yields"] for n in c["nodes"])),
        "rule": "spec/Lowering.tla!Generate: (1) every DAG with <= MaxN nodes (<= MaxIn inputs per node, any pair of upstream "
                "outputs, first/last node with 1 or 2 outputs) x 6 ways of mentioning / not mentioning the inputs among static "
                "positional and keyword arguments (static first, between, after an input name, last, last twice) x static value "
                "in {7, 0, '', 's', None, False} (graphs <= FullStaticsN nodes; {7, None} up to 3 nodes, None above); (2) a generator with N in GenOuts outputs yielding N-1, N, N+1 values, fed "
                f"or not by a source, with no consumer / a consumer of one / of two of its outputs; (3) the same with yielded values None / 0 / '' / False "
                f"(every value, the last value, the surplus value of an N+1 yield, all values of an N-1 yield); (4) hand-built "
                f"(graph.Node) generators whose output names differ in length / are un-padded numbers / differ in case, declared "
                f"in sorted, reversed, rotated order, bound key-sorted as cascade documents; (5) one callable "
                f"OBJECT shared by two nodes (and by all cases of the run) that declare 1 / 2 / 3 / 11 outputs or other output names, in "
                f"both orders; (6) hand-built jobs (TaskBuilder.from_callable + with_values, raw TaskInstance) with keyword / positional edges "
                f"into parameters that also hold a static value (recorded default, 99, None, 0): the upstream value must win; (7) one upstream value (ordinary / None / 0 / '' / False; plain or yielded) consumed by two tasks and by two "
                f"parameters of one task, tasks placed each on its own worker / all on one / consumers together (one real Memory per worker); (8) hand-built generators whose names / output names contain '.', ':', '/', '|' or digits so "
                f"that two datasets coincide when joined, consumed on other workers; constants {consts}; "
                "non-trivial = the graph has an edge; graphs are built with fluent.Node/Payload/Action, lowered by graph2job, "
                "every task run by execute_sequence/run/Memory over a dict-backed shm; TLC evaluates Lowering!Post",
        "clauses": ["tasks_are_not_the_nodes", "edges_are_not_the_inputs", "outputs_are_not_the_declared",
                    "static_arguments_wrong", "callable_received_wrong_arguments", "callable_called_twice",
                    "value_stored_under_wrong_output", "coordinate_bound_to_wrong_value", "count_mismatch_not_reported",
                    "task_failure_without_cause", "raised"],
    })
    for c in cases[:: max(1, len(cases) // 4)][:4]:
        ctx.sample({"case": c})
    for i, names in sorted(bad.items()):
        c = cases[i - 1]
        # input class: which kind of node the clause concerns
        cls = "gen_gt10" if any(n["nout"] > 10 for n in c["nodes"]) else "gen" if any(n["nout"] > 2 for n in c["nodes"]) else "bind"
        if any(n["nout"] != n["yields"] for n in c["nodes"]):
            cls = "yields_" + ("fewer" if any(n["yields"] < n["nout"] for n in c["nodes"]) else "more")
        ctx.violate("post:" + "+".join(sorted(names)) + ":" + cls, f"lowering/running violates {sorted(names)} on case {json.dumps(c)[:500]}",
                    {"case": c, "result": results[i - 1]}, clause="+".join(sorted(names)))
    ctx.assumptions += ["bounded domain as stated in `rule`; inputs are referenced positionally (an input name occurs at most once "
                        "in args; keyword arguments are static, as in the fluent API); callables are pure recording functions whose "
                        "parameters all default to a value outside the domain, so a dropped/defaulted argument is observable",
                        "shm is a dict-backed stand-in (serde and Memory are the real ones, one Memory per worker for all its tasks); "
                        "tasks run one at a time in a topological order"]
