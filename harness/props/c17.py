"""C17: spec/Wire.tla enumerates the messages of every wire/file protocol and judges what the real encoders/decoders
return (P3). Python builds the real objects from the value trees, runs the real code and dumps trees; the verdict is TLC's.

Seams (module attributes, restored afterwards; nothing in /repo is edited):
  cascade.executor.comms.get_socket  -> a socket that records the frames instead of sending them over zmq
  comms.Listener                     -> real `_recv_one`, fed from recorded frames through a stand-in poller
  cascade.gateway.client.zmq         -> a REQ socket whose peer is the real parse_request / serialize_response
  cascade.gateway.router.subprocess  -> Popen does nothing (only the job file written before it matters)
"""
from __future__ import annotations

import dataclasses
import enum
import importlib
import json
import os
import subprocess
import sys
from pathlib import Path

import pydantic

import cascade.benchmarks.__main__ as bench_main
import cascade.controller.report as report
import cascade.executor.comms as comms
import cascade.executor.serde as serde
import cascade.gateway.api as gapi
import cascade.gateway.client as gclient
import cascade.gateway.router as router
import cascade.shm.api as shm_api

from .. import p3
from ..common import CaseTimeout, MachineryError, guarded

LEVEL = "exploration"

NONE = {"t": "none", "v": "", "k": []}


# ---------------------------------------------------------------- transport: value tree <-> real object
def _resolve(q: str):
    mod, name = q.rsplit(".", 1)
    return getattr(importlib.import_module(mod), name)


def build(x: dict, how: str = "ctor"):
    """how = "inplace": pydantic models get only their required fields at construction; the defaulted ones are brought to
    their value on the live object (containers filled in place, scalars assigned) - see spec/Wire.tla."""
    t, v, k = x["t"], x["v"], x["k"]
    if t == "int":
        return int(v)
    if t == "str":
        return v
    if t == "xstr":
        return bytes.fromhex(v).decode("utf-8")
    if t == "bytes":
        return bytes.fromhex(v)
    if t == "none":
        return None
    if t == "bool":
        return v == "True"
    if t == "enum":
        cls, member = v.rsplit(".", 1)
        return _resolve(cls)[member]
    if t == "list":
        return [build(c, how) for c in k]
    if t == "tuple":
        return tuple(build(c, how) for c in k)
    if t == "set":
        return {build(c, how) for c in k}
    if t == "dict":
        return {build(p["k"][0], how): build(p["k"][1], how) for p in k}
    if t == "obj":
        cls = _resolve(v)
        kwargs = {f["v"]: build(f["k"][0], how) for f in k}
        if how != "inplace" or not (isinstance(cls, type) and issubclass(cls, pydantic.BaseModel)):
            return cls(**kwargs)
        later = {n: kwargs.pop(n) for n in list(kwargs) if not cls.model_fields[n].is_required()}
        o = cls(**kwargs)
        for n, val in later.items():
            cur = getattr(o, n)
            if isinstance(cur, list) and isinstance(val, list):
                for item in val:
                    cur.append(item)
            elif isinstance(cur, dict) and isinstance(val, dict):
                for key, item in val.items():
                    cur[key] = item
            else:
                setattr(o, n, val)
        return o
    raise ValueError(t)


def dump(o) -> dict:
    def leaf(t, v):
        return {"t": t, "v": v, "k": []}

    def fields(pairs):
        return [{"t": "field", "v": n, "k": [dump(x)]} for n, x in pairs]

    if o is None:
        return leaf("none", "")
    if isinstance(o, bool):
        return leaf("bool", str(o))
    if isinstance(o, enum.Enum):
        return leaf("enum", f"{type(o).__module__}.{type(o).__qualname__}.{o.name}")
    if isinstance(o, int):
        return leaf("int", str(o))
    if isinstance(o, str):
        return leaf("str", o) if o.isascii() else leaf("xstr", o.encode("utf-8", "surrogatepass").hex())
    if isinstance(o, (bytes, bytearray, memoryview)):
        return leaf("bytes", bytes(o).hex())
    if isinstance(o, list):
        return {"t": "list", "v": "", "k": [dump(x) for x in o]}
    if isinstance(o, tuple):
        return {"t": "tuple", "v": "", "k": [dump(x) for x in o]}
    if isinstance(o, (set, frozenset)):
        return {"t": "set", "v": "", "k": sorted((dump(x) for x in o), key=lambda d: json.dumps(d, sort_keys=True))}
    if isinstance(o, dict):
        return {"t": "dict", "v": "", "k": [{"t": "pair", "v": "", "k": [dump(a), dump(b)]} for a, b in o.items()]}
    q = f"{type(o).__module__}.{type(o).__qualname__}"
    if isinstance(o, pydantic.BaseModel):
        return {"t": "obj", "v": q, "k": fields((n, getattr(o, n)) for n in type(o).model_fields)}
    if dataclasses.is_dataclass(o):
        return {"t": "obj", "v": q, "k": fields((f.name, getattr(o, f.name)) for f in dataclasses.fields(o))}
    if hasattr(o, "__dict__"):
        return {"t": "obj", "v": q, "k": fields(vars(o).items())}
    return leaf("other", repr(o)[:100])


# ---------------------------------------------------------------- seams
class Wire:
    """Records what the real senders hand to their sockets: [(address, [frame, ...])]."""

    def __init__(self):
        self.sent: list[tuple[str, list[bytes]]] = []

    def socket(self, address):
        wire = self

        class _S:
            def send(self, b, *a, **k):
                wire.sent.append((address, [bytes(b)]))

            def send_multipart(self, frames, *a, **k):
                wire.sent.append((address, [bytes(f) for f in frames]))

        return _S()


def listener_with(frames: list[bytes]) -> comms.Listener:
    """A real Listener (its decoding method is what is exercised) whose poller delivers exactly `frames` once."""

    class _Sock:
        def recv_multipart(self):
            return list(frames)

    class _Poller:
        def poll(self, timeout=None):
            return [(_Sock(), 1)]

    l = object.__new__(comms.Listener)
    l.address = "tcp://listener:1"
    l.acked = set()
    l.poller = _Poller()
    return l


class GatewayPeer:
    """The far end of client.request_response: the real parse_request and serialize_response."""

    def __init__(self, response):
        self.response = response
        self.request_bytes = None
        self.parsed = None
        self.response_bytes = None
        self.stage_error = ""       # "dec_request" | "enc_response"

    def zmq_shim(self):
        peer = self

        class _Sock:
            def set(self, *a, **k):
                pass

            def connect(self, url):
                pass

            def send(self, b):
                peer.request_bytes = bytes(b)

            def poll(self, *a, **k):
                return 1

            def recv(self):
                try:
                    peer.parsed = gclient.parse_request(peer.request_bytes)
                except Exception:
                    peer.stage_error = "dec_request"
                    raise
                try:
                    peer.response_bytes = gclient.serialize_response(peer.response)
                except Exception:
                    peer.stage_error = "enc_response"
                    raise
                return peer.response_bytes

        class _Ctx:
            def socket(self, kind):
                return _Sock()

        class _Zmq:
            REQ = 3
            LINGER = 17
            POLLIN = 1
            Context = _Ctx

        return _Zmq


# ---------------------------------------------------------------- the receiving interpreter
def _parts(o):
    return [getattr(o, f.name) for f in dataclasses.fields(o)]


def warm(o) -> None:
    """Hash every hashable part, as the library does when it keeps ids in sets and dicts."""
    if dataclasses.is_dataclass(o) and not isinstance(o, type):
        try:
            hash(o)
        except TypeError:
            pass
        for x in _parts(o):
            warm(x)
    elif isinstance(o, (list, tuple, set, frozenset)):
        for x in o:
            warm(x)
    elif isinstance(o, dict):
        for k, v in o.items():
            warm(k)
            warm(v)


def interchangeable(dec, loc) -> dict:
    """What this interpreter observes about a decoded object against a locally built one of the same description."""
    obs = {"xeq": bool(dec == loc) and bool(loc == dec), "xhash": True, "xfound": True}

    def walk(d, l):
        if type(d) is not type(l):
            return                      # a structural difference is judged on the dumps
        if dataclasses.is_dataclass(l) and not isinstance(l, type):
            try:
                hl = hash(l)
            except TypeError:
                hl = None
            if hl is not None:
                if hash(d) != hl:
                    obs["xhash"] = False
                if d not in {l} or l not in {d} or {d: 1}.get(l) is None or {l: 1}.get(d) is None:
                    obs["xfound"] = False
            for a, b in zip(_parts(d), _parts(l)):
                walk(a, b)
        elif isinstance(l, (list, tuple)):
            for a, b in zip(d, l):
                walk(a, b)
        elif isinstance(l, (set, frozenset)):
            if any(x not in d for x in l) or any(x not in l for x in d):
                obs["xfound"] = False
        elif isinstance(l, dict):
            if any(k not in d for k in l) or any(k not in l for k in d):
                obs["xfound"] = False
            for k in l:
                if k in d:
                    walk(d[k], l[k])

    walk(dec, loc)
    return obs


def helper_main() -> None:
    """`python -m harness.props.c17 --helper`: one request per stdin line {proto, msg, wire}, one answer per stdout line."""
    import logging
    logging.disable(logging.CRITICAL)
    out = os.fdopen(os.dup(1), "w")
    sys.stdout = sys.stderr
    for line in sys.stdin:
        q = json.loads(line)
        a = {"dec": "ok", "back": NONE, "error": "", "xeq": True, "xhash": True, "xfound": True, "seed": os.environ.get("PYTHONHASHSEED")}
        try:
            dec = (serde.des_message if q["proto"] == "exec_xproc" else report.deserialize)(bytes.fromhex(q["wire"]))
            a["back"] = dump(dec)
            a.update(interchangeable(dec, build(q["msg"])))
        except Exception as e:
            a.update(dec="raised", error=_err(e))
        out.write(json.dumps(a) + "\n")
    out.flush()


def remote_decode(cases: list, results: list) -> int:
    """Second half of the *_xproc cases: ONE helper interpreter with another string-hash seed decodes them all."""
    todo = [(c, r) for c, r in zip(cases, results) if "_wire" in r]
    if not todo:
        return 0
    env = dict(os.environ)
    env["PYTHONHASHSEED"] = "4242" if env.get("PYTHONHASHSEED") != "4242" else "4243"
    feed = "".join(json.dumps({"proto": c["proto"], "msg": c["msg"], "wire": r.pop("_wire")}) + "\n" for c, r in todo)
    p = subprocess.run([sys.executable, "-W", "ignore", "-m", "harness.props.c17", "--helper"], input=feed, env=env,
                       cwd=str(Path(__file__).resolve().parents[2]), capture_output=True, text=True, timeout=600)
    answers = [json.loads(l) for l in p.stdout.splitlines() if l.startswith("{")]
    if p.returncode != 0 or len(answers) != len(todo):
        raise MachineryError(f"decoding helper failed (rc={p.returncode}, {len(answers)}/{len(todo)} answers): {p.stderr[-1500:]}")
    if any(a["seed"] != env["PYTHONHASHSEED"] for a in answers):
        raise MachineryError("decoding helper did not run under the other hash seed")
    for (c, r), a in zip(todo, answers):
        r.update(dec=a["dec"], back=a["back"], xeq=a["xeq"], xhash=a["xhash"], xfound=a["xfound"])
        if a["error"]:
            r["error"] = a["error"]
    return len(todo)


# ---------------------------------------------------------------- one case through the real code
def _err(e) -> str:
    return f"{type(e).__name__}: {e}"[:200]


def run_case(c: dict, scratch: Path, n: int) -> dict:
    r = {"built": "ok", "sent": NONE, "sent2": NONE, "enc": "ok", "dec": "skipped", "back": NONE, "back2": NONE,
         "frames": 0, "error": "", "xeq": True, "xhash": True, "xfound": True}
    try:
        m, m2 = build(c["msg"], c.get("how", "ctor")), build(c["msg2"])
        r["sent"], r["sent2"] = dump(m), dump(m2)
    except Exception as e:
        r.update(built="raised", error=_err(e))
        return r
    proto = c["proto"]

    def stage(name, fn):
        """Run one half of the round trip; record which half refused."""
        try:
            return True, guarded(fn, 5.0)
        except (Exception, CaseTimeout) as e:
            r[name] = "raised"
            r["error"] = _err(e)
            return False, None

    if proto in ("exec_xproc", "report_xproc"):
        # encode here, with the ids hashed first; the decoding half runs in the helper interpreter (see remote_decode)
        warm(m)
        ok, b = stage("enc", lambda: (serde.ser_message if proto == "exec_xproc" else report.serialize)(m))
        if ok:
            r["_wire"] = bytes(b).hex()
        return r

    if proto in ("shm", "exec_plain", "report"):
        enc, dec = {"shm": (shm_api.ser, shm_api.deser), "exec_plain": (serde.ser_message, serde.des_message),
                    "report": (report.serialize, report.deserialize)}[proto]
        ok, b = stage("enc", lambda: enc(m))
        if ok:
            ok, back = stage("dec", lambda: dec(b))
            if ok:
                r.update(dec="ok", back=dump(back))
        return r

    if proto.startswith("exec_"):
        wire = Wire()
        old = comms.get_socket
        comms.get_socket = wire.socket
        try:
            def send():
                if proto == "exec_callback":
                    comms.callback("tcp://listener:1", m)
                elif proto == "exec_reliable":
                    s = comms.ReliableSender(m2.addr, 1000)
                    s.add_host("peer", "tcp://listener:1")
                    s.idx = m2.idx
                    s.send("peer", m)
                else:
                    comms.send_data("tcp://listener:1", m, m2)
                (addr, frames), = wire.sent
                wire.sent.clear()
                return frames[1:] if proto == "exec_data_nosyn" else frames

            ok, frames = stage("enc", send)
            if not ok:
                return r
            r["frames"] = len(frames)
            ok, back = stage("dec", lambda: listener_with(frames)._recv_one(0))
            if not ok:
                return r
            r.update(dec="ok", back=dump(back))
            if proto in ("exec_reliable", "exec_data"):
                # the listener answered the Syn through comms.callback: decode that frame with the real listener too
                acks = [fr for addr, fr in wire.sent if addr == m2.addr]
                if len(acks) == 1:
                    ok, ack = stage("dec", lambda: listener_with(acks[0])._recv_one(0))
                    if ok:
                        r["back2"] = dump(ack)
                else:
                    r["back2"] = {"t": "other", "v": f"{len(acks)} frames sent to the Syn's address", "k": []}
            else:
                r["back2"] = r["sent2"] if not wire.sent else {"t": "other", "v": "unexpected extra send", "k": []}
        finally:
            comms.get_socket = old
        return r

    if proto == "gateway":
        peer = GatewayPeer(m2)
        old = gclient.zmq
        gclient.zmq = peer.zmq_shim()
        try:
            try:
                resp = guarded(lambda: gclient.request_response(m, "tcp://gateway:1"), 5.0)
                r.update(dec="ok", back=dump(peer.parsed), back2=dump(resp))
            except (Exception, CaseTimeout) as e:
                r["error"] = _err(e)
                if peer.request_bytes is None or peer.stage_error == "enc_response":
                    r["enc"] = "raised"
                else:
                    r["dec"] = "raised"
        finally:
            gclient.zmq = old
        return r

    if proto == "jobfile":
        # router writes /tmp/<job_id>.json: steer it into the scratch directory
        job_id = "../" + str(scratch.resolve()).lstrip("/") + f"/c17_job_{n}"
        path = f"/tmp/{job_id}.json"

        class _NoPopen:
            def __init__(self, *a, **k):
                pass

        old = router.subprocess

        class _Sub:
            Popen = _NoPopen
            run = staticmethod(lambda *a, **k: None)

        router.subprocess = _Sub
        try:
            ok, _ = stage("enc", lambda: router._spawn_local(gapi.JobSpec(None, {}, m, 1, 1, False), "tcp://gw:1", job_id))
        finally:
            router.subprocess = old
        if ok and os.path.exists(path):
            ok, back = stage("dec", lambda: bench_main.get_job(None, path))
            if ok:
                r.update(dec="ok", back=dump(back))
        elif ok:
            r.update(enc="raised", error="no job file written")
        return r

    raise ValueError(proto)


def judge_env(cases_file) -> dict:
    """The judge pass must not re-run the spec's Generate (TLC evaluates unused constant definitions too)."""
    return {"JUDGE_CASES": str(cases_file), "CASES_FILE": "none"}


def run(ctx):
    consts = {"Rich": "0" if ctx.quick else "1"}
    cases_file, cases = p3.generate(ctx, "Wire", consts)
    ctx.log(f"{len(cases)} cases")
    import logging
    logging.disable(logging.CRITICAL)       # the decoders log every refusal with a traceback
    try:
        results = [run_case(c, ctx.scratch, i) for i, c in enumerate(cases)]
    finally:
        logging.disable(logging.NOTSET)
    ctx.coverage["decoded_in_another_interpreter"] = remote_decode(cases, results)
    rf = ctx.scratch / "c17_results.json"
    rf.write_text(json.dumps(results))
    bad = p3.judge(ctx, "Wire", consts, cases_file, rf, env=judge_env(cases_file))
    per_proto: dict[str, int] = {}
    classes: set[str] = set()
    for c in cases:
        per_proto[c["proto"]] = per_proto.get(c["proto"], 0) + 1
        classes.add(c["msg"]["v"])
        if c["proto"] == "gateway":
            classes.add(c["msg2"]["v"])
    round_tripped = sum(1 for r in results if r["dec"] == "ok")
    ctx.coverage.update({
        "evaluations": len(cases), "distinct_nontrivial": sum(1 for c in cases if c["msg"]["k"]), "exhaustive": True,
        "cases_per_protocol": per_proto, "message_classes": sorted(classes), "message_classes_count": len(classes),
        "round_trips_completed": round_tripped, "built_in_place_cases": sum(1 for c in cases if c.get("how") == "inplace"), "out_of_domain_cases": sum(1 for c in cases if not c["ok"]),
        "rule": "spec/Wire.tla!Cases: every message class of cascade.shm.api (sizes/free space at 0, 1, 255, 256, 2^31-1, 2^31, "
                "2^32-1, 2^32, 2^40, 2^63-1; ASCII keys from empty to 255 characters; every text field of every shm message at 0, 1, 255, 256, 512 characters and, "
                "refusal allowed but no alteration, at 513, 1000, 4000; out-of-domain: -1, 2^64, a non-ASCII key), "
                "every cascade.executor.msg class (host ids 'h0' / 'node-12.cluster' / '10.0.0.7' / 'a.b.c' / "
                "'h:1', worker names 'w0' / 'w10' / 'gpu.0' / '.', dotted dataset ids, indices up to 2^65, optional fields absent/present, empty and non-ASCII texts, "
                "payloads of 0/3/320 bytes) through ser_message, callback, ReliableSender and send_data framing, ControllerReport, "
                "every gateway request/response pair through request_response + parse_request + serialize_response, and job "
                "instances (empty, multi-output, keyword+positional edges, static inputs, serdes, ext_outputs) through the job "
                "file; job files and job-carrying gateway requests additionally with every defaulted pydantic field (serdes, "
                "ext_outputs, entrypoint, func, needs_gpu) filled in on the live object instead of through the constructor; "
                "every executor message and controller report once more encoded here (ids hashed first) and decoded by the real "
                "decoder in a second interpreter with another PYTHONHASHSEED, where it is compared (==, hash, set/dict lookups "
                "both ways) with a locally built message; enumerated by TLC; non-trivial = the message has at least one field; TLC evaluates Wire!Post "
                "(structural equality of value trees) on every (case, result)",
        "clauses": ["in_domain_message_rejected", "decoding_raised", "decoded_message_differs", "decoded_response_differs",
                    "acknowledgement_differs", "wrong_frame_count", "decoded_not_equal_to_local_message",
                    "decoded_hashes_differently", "decoded_not_found_in_local_containers", "out_of_domain_value_altered", "harness_built_other_message",
                    "harness_could_not_build"],
    })
    ctx.sample({"case": next(c for c in cases if c["proto"] == "shm" and c["msg"]["v"].endswith("AllocateRequest"))})
    ctx.sample({"case": next(c for c in cases if c["proto"] == "exec_data")})
    for i, names in sorted(bad.items()):
        c, r = cases[i - 1], results[i - 1]
        cls = c["msg"]["v"].rsplit(".", 1)[-1]
        ctx.violate("post:" + "+".join(sorted(names)) + f":{c['proto']}:{cls}" + (":built_in_place" if c.get("how") == "inplace" else ""),
                    f"{c['proto']} encoding of {cls} violates {sorted(names)}: {r['error'] or 'no exception'}",
                    {"case": c, "result": r}, clause="+".join(sorted(names)))
    ctx.assumptions += ["bounded domain as stated in `rule`; zmq itself is replaced by frame-recording stand-ins (the encoders, "
                        "framing and decoders are the real ones); UDP datagram size limits of the shm transport are not modelled; "
                        "sizes are admitted up to 2^63-1 (the largest capacity a host can have), keys are ASCII"]


def replay(ctx, rep) -> int:
    """./check C17 --replay <file>: run the recorded case through the real code again and let TLC judge it."""
    case = rep["replay"]["case"]
    consts = {"Rich": "0"}
    cf = ctx.scratch / "c17_replay_cases.json"
    cf.write_text(json.dumps([case]))
    result = run_case(case, ctx.scratch, 0)
    remote_decode([case], [result])
    rf = ctx.scratch / "c17_replay_results.json"
    rf.write_text(json.dumps([result]))
    bad = p3.judge(ctx, "Wire", consts, cf, rf, tag="replay", env=judge_env(cf))
    if bad:
        print(f"VIOLATION property=C17 replay reproduces {sorted(bad[1])}: {json.dumps(result)[:400]}")
        return 1
    print("OK property=C17 replay: the recorded case satisfies the post-condition on this tree")
    return 0


if __name__ == "__main__" and "--helper" in sys.argv:
    helper_main()
