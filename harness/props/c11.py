"""C11: spec/GraphSem.tla enumerates (graph, transformation, parameters) and judges the dumped result graphs (P3)."""
from __future__ import annotations

import json
from collections import Counter

from .. import p3
from ..common import CaseTimeout, guarded
from ..drive import graphsem

LEVEL = "exploration"


def result_of(case: dict) -> dict:
    try:
        return guarded(lambda: graphsem.apply(case), 3.0)
    except (Exception, CaseTimeout) as e:   # every case of the domain is a legal call: nothing may go wrong
        return {"error": repr(e)[:200]}


def consts(ctx) -> dict[str, str]:
    if ctx.quick:
        return {"MaxN": "4", "FullN": "3", "MaxIn": "2", "Split3N": "3", "ExpN": "3"}
    return {"MaxN": "5", "FullN": "3", "MaxIn": "2", "Split3N": "3", "ExpN": "4"}


def run(ctx):
    cs = consts(ctx)
    cases_file, cases = p3.generate(ctx, "GraphSem", cs)
    ctx.log(f"{len(cases)} cases", dict(Counter(c["op"] for c in cases)))
    cases, results = p3.execute(ctx, cases, cases_file, result_of)
    rf = ctx.scratch / "c11_results.json"
    rf.write_text(json.dumps(results))
    ctx.log("results written")
    bad = p3.judge(ctx, "GraphSem", cs, cases_file, rf)
    per_op = Counter(c["op"] for c in cases)
    nontrivial = sum(1 for c in cases if any(n["inputs"] for n in c["g"]["nodes"]))
    ctx.coverage.update({
        "evaluations": len(cases), "distinct_nontrivial": nontrivial, "exhaustive": True, "per_transformation": dict(per_op),
        "rule": "spec/GraphSem.tla!Generate: every DAG with <= MaxN nodes (<= MaxIn inputs per node, edges i<j; up to FullN "
                "nodes: one two-output node and multi-edges), terminal nodes with and without outputs, sink lists = the terminal nodes, or (graphs <= FullN nodes, and expand's outer / sub-graphs) every node in both orders / first and last node, names from a pool "
                "sharing characters/prefixes (and all-equal names for dedup; second outputs called 'b' or like an attribute of Node / of the sub-graph proxy: payload, name, inputs, outputs, leaves, output_map, ...), crossed with copy / rename{prefix,const} / "
                "fuse{new,inplace,linear,never callbacks} / dedup{payloads from {1,2}, inputs declared in either order} / split{all key maps} / "
                f"expand{{outer x sub-graph x input map (none = by name, empty, partial, full; sources named like / unlike the inputs) x output map (total, partial with same-name fallback, none) x names incl. dotted names of the expanded node, after join_namespaced, and two-level expansion}}; constants {cs}; non-trivial = the graph has "
                "an edge; TLC evaluates GraphSem!Post on every (case, dump of the real result objects)",
        "clauses": ["sink_terms_differ", "input_is_not_an_output_of_a_result_node", "result_has_a_cycle",
                    "name_is_not_func_of_old_name", "duplicates_left", "not_idempotent", "node_not_in_exactly_one_part",
                    "node_in_part_of_other_key", "cut_edges_are_not_the_cross_part_edges",
                    "rejoined_parts_differ_from_original", "sinks_differ", "consumer_not_wired_to_selected_leaf", "spliced_node_is_not_named_parent_dot_name", "second_level:<clause>",
                    "expanded_sink_has_no_counterpart", "sink_of_result_denotes_nothing_of_the_input", "raised"],
    })
    for c in cases[:: max(1, len(cases) // 5)][:5]:
        ctx.sample({"case": c})
    for i, names in sorted(bad.items()):
        key = "post:" + "+".join(sorted(names))
        ctx.violate(key, f"{cases[i-1]['op']} violates {sorted(names)} on case {json.dumps(cases[i-1])[:600]}",
                    {"case": cases[i - 1], "result": results[i - 1]}, clause="+".join(sorted(names)))
    ctx.assumptions += ["bounded domain as stated in `rule`; payloads are opaque (equality only); the fusion callbacks are the "
                        "harness' own (they record the composition in the fused payload, which the spec unfolds)",
                        "node names are unique within a graph for split and expand (both address nodes by name)"]
