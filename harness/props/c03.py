"""C03: decided on spec/Cascade.tla (TLC) + trace validation of the real controller (spec/CascadeTrace.tla)."""
from ..cascade_engine import replay as _replay
from ..cascade_engine import report

LEVEL = "model_checking"


def run(ctx):
    report(ctx, "C03")


def replay(ctx, rep):
    return _replay(ctx, "C03", rep)
