"""C13: spec/Fluent.tla enumerates fluent programs; each is built with the real API, every intermediate Action.graph() is
evaluated by a reference interpreter through the real backends, and TLC judges the contract of every logged step (P3)."""
from __future__ import annotations

import json

from .. import p3
from ..common import CaseTimeout, MachineryError, guarded
from ..drive import fluent_eval as fe

LEVEL = "exploration"

CHUNK = 4000
ARRAYS_CONSTS = {"MaxArgs": "2", "PoolSize": "1", "Wide": "FALSE", "BatchArgs": "1"}     # Arrays.tla is only the arithmetic here


def run(ctx):
    consts = dict(ARRAYS_CONSTS, Tier='"quick"' if ctx.quick else '"thorough"')
    mods = ["Fluent", "Arrays"]
    cases_file, progs = p3.generate(ctx, "Fluent", consts, modules=mods, op="FGenerate", env={"PASS": "fgenerate"})
    nsteps = sum(len(p["ops"]) for p in progs)
    ctx.log(f"{len(progs)} programs, {nsteps} steps generated")

    # each program's log is kept as a JSON string (millions of small objects make the collector stall for seconds)
    results: list[str] = []
    nexec: list[int] = []
    for p in progs:
        try:
            try:
                steps = guarded(lambda: fe.run_program(p), 20.0)
            except CaseTimeout:                     # a stall of the machine is not a verdict: once more, with more time
                steps = guarded(lambda: fe.run_program(p), 120.0)
        except CaseTimeout as e:
            steps = [{"a": {"dims": [], "coords": [], "val": []}, "a2": {"none": True},
                      "b": {"error": str(e), "etype": "CaseTimeout"}}]
        results.append(json.dumps(steps))
        nexec.append(len(steps))
    executed = sum(nexec)
    ctx.log(f"{executed} steps executed")
    # judged in chunks (one TLC start each) so that the JSON TLC has to hold stays small
    bad: dict[int, set[str]] = {}
    for k, lo in enumerate(range(0, len(progs), CHUNK)):
        cf, rf = ctx.scratch / f"c13_cases_{k}.json", ctx.scratch / f"c13_results_{k}.json"
        cf.write_text(json.dumps(progs[lo:lo + CHUNK]))
        rf.write_text("[" + ",".join(results[lo:lo + CHUNK]) + "]")
        part = p3.judge(ctx, "Fluent", consts, cf, rf, modules=mods, op="FJudge", tag=f"judge{k}", env={"PASS": "fjudge"})
        bad.update({lo + i: names for i, names in part.items()})
    ctx.log("contracts judged")
    no_claim = sum(1 for names in bad.values() if "no_claim" in names)
    bad = {i: names - {"no_claim"} for i, names in bad.items() if names - {"no_claim"}}
    stray = [i for i, names in bad.items() if "step_not_applicable" in names]
    if stray:
        raise MachineryError(f"Fluent.tla generated a step its own contract cannot be stated for: program {progs[stray[0] - 1]}")

    by_op: dict[str, int] = {}
    for p, ne in zip(progs, nexec):
        for o in p["ops"][:ne]:
            by_op[o["op"]] = by_op.get(o["op"], 0) + 1
    nontrivial = sum(1 for p in progs for o in p["ops"] if o["n"] > 1 or o["keep"] or len(p["ops"]) > 1 or "none" not in o["other"])
    ctx.coverage.update({
        "evaluations": executed, "distinct_nontrivial": nontrivial, "exhaustive": True,
        "programs": len(progs), "steps_generated": nsteps, "programs_with_a_step_outside_the_model": no_claim, "steps_by_operation": by_op,
        "depths": sorted({len(p["ops"]) for p in progs}),
        "rule": "spec/Fluent.tla!Programs enumerated by TLC: every operation with every parameter (reductions "
                "sum/prod/min/max/mean/std/reduce(mean)/reduce(first)/concatenate/stack/flatten over every dimension, batch sizes 0..n+1, "
                "keep_dim both ways, every backend axis; map with one payload and with an array of payloads; scalar and "
                "action arithmetic; expand/transform at every position, str and Coord forms; select/isel scalar and list, "
                "drop both ways; join along an existing / a new dimension; broadcast against 4 other actions) on node arrays "
                "(2),(3),(4),(2,2),(2,3) with and without coordinates - explicit labels ascending, DESCENDING and SHUFFLED (30,10,20) - "
                "holding 3-vectors, plus node arrays with a dimension of 11..13 nodes reduced by concatenate/stack/flatten/reduce(first)/sum "
                "un-batched and with 11 per batch (one node with >= 11 inputs); plus (2,3) sources broadcast against an action "
                "holding the same dimensions in the OPPOSITE order (alone / new dimension first / last; the node array becomes a "
                "transposed view) followed by every 'mid' operation, and by two thinned steps (map, scalar arithmetic, expand, "
                "isel, then a reduction); action arithmetic with the operand's dimensions in the opposite order; reduce with an order-sensitive batchable user payload (first argument); plus programs of depth 2"
                f"{'' if ctx.quick else ' and 3'} with thinned parameters on the inner steps; one evaluation = one executed "
                "step whose contract TLC evaluates on the logged (receiver, operand, result) denotations; non-trivial = batched, "
                "keep_dim, second operand or a step after another step",
        "clauses": ["raised", "documented_error_not_raised", "dims", "coords", "values"],
    })
    for p in progs[:1] + progs[len(progs) // 2:len(progs) // 2 + 1] + progs[-1:]:
        ctx.sample({"src": {k: p["src"][k] for k in ("dims", "shape", "nocoords", "coords")},
                    "ops": [{k: v for k, v in o.items() if k != "other"} for o in p["ops"]]})
    for i, names in sorted(bad.items()):
        p, r = progs[i - 1], json.loads(results[i - 1])
        ops = [{k: v for k, v in o.items() if k != "other"} | ({"other_dims": o["other"]["dims"]} if "none" not in o["other"] else {})
               for o in p["ops"]]
        last = r[-1]["b"]
        got = last.get("error") or {"dims": last["dims"], "coords": last["coords"]}
        for n in sorted(names):
            ctx.violate("post:" + n, f"fluent step violates {n}: source dims {p['src']['dims']} shape {p['src']['shape']} "
                        f"{'without' if p['src']['nocoords'] else 'with'} coords, ops {ops}; result {got}",
                        {"program": p, "steps": r}, clause=n)
    ctx.assumptions += [
        "bounded domain as stated in `rule`; sources are numpy float64 3-vectors of small integers (values read back as exact "
        "rationals, std compared squared and only as the last step of a program); no xarray/FieldList payloads, dtypes, "
        "float rounding (DESIGN.md section 8)",
        "readings R1-R8 at the top of spec/Fluent.tla where fluent.py leaves behaviour undocumented (free label of a kept "
        "dimension, free order of dimensions after broadcast / join on a new dimension, positional action arithmetic)",
        "reduced dimensions have size >= 2 (the property's quantifier); scalar (non-dimension) coordinates are not compared",
        "the reference interpreter calls each node's payload once, inputs resolved through Node.inputs, over Action.graph()",
    ]
