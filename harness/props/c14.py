"""C14: spec/FluentNames.tla enumerates fluent programs and judges names / payload identities / operand snapshots (P3)."""
from __future__ import annotations

import json
from collections import Counter

from .. import p3
from ..common import CaseTimeout, guarded
from ..drive import fluentnames

LEVEL = "exploration"


def result_of(case: dict) -> dict:
    try:
        return guarded(lambda: fluentnames.observe(case), 10.0)
    except (Exception, CaseTimeout) as e:   # the interpreter itself failed (exceptions of the fluent API are logged per step)
        return {"error": repr(e)[:200]}


def run(ctx):
    consts = {"Depth2Firsts": '{"par1", "par2", "lam1"}', "SecondOps": '"few"'} if ctx.quick else \
             {"Depth2Firsts": '{"lam1", "lam2", "def1", "def2", "par1", "par1b", "par2"}', "SecondOps": '"all"'}
    cases_file, cases = p3.generate(ctx, "FluentNames", consts)
    ctx.log(f"{len(cases)} cases", dict(Counter(c["kind"] for c in cases)))
    cases, results = p3.execute(ctx, cases, cases_file, result_of)
    rf = ctx.scratch / "c14_results.json"
    rf.write_text(json.dumps(results))
    ctx.log("results written")
    bad = p3.judge(ctx, "FluentNames", consts, cases_file, rf)
    steps = [s for r in results for s in r.get("steps", [])]
    ctx.coverage.update({
        "evaluations": len(cases), "exhaustive": True, "per_kind": dict(Counter(c["kind"] for c in cases)),
        "distinct_nontrivial": sum(1 for c in cases if len(c["p"]) + len(c["q"]) >= 2),
        "operations_executed": len(steps), "operations_that_raised": sum(1 for s in steps if s["raised"]),
        "nodes_named": sum(len(r.get("nodes", [])) for r in results),
        "rule": "spec/FluentNames.tla!Generate: (N) all unordered pairs of programs (one or two of map{two lambdas, two defs "
                "called f, partials with equal/different arguments} / add scalar / sum) over a shared source; (P) the same binary operation with swapped operands (a.op(b) / "
                "b.op(a) for add, subtract, multiply, divide, power) and reduce(f) over the join of three actions in every pair of "
                "orders; (H) one Payload object handed to two operations (reduce over 2 / 4 inputs, batched reduce with uneven "
                "batches, map) and to both builds; (U) unions (Cascade.from_actions, +, +=) of a generator source / a plain source with "
                "the results of two programs whose nodes share a payload and read different outputs of one node, and of two programs that differ only in a callable with an equal __name__; (V) one action containing "
                "the same sub-expression twice (map+add of itself, batched normalisation) made into a Cascade alone / united with its source; (W) one from_source "
                "array whose elements share the payload (1-d, 2-d, equal partials) followed by per-node operations and reductions; (S) pairs of "
                "sources from those callables created by one or two from_source calls; (O) receiver in {A, A.map, D} x one or "
                "two operations from {add, subtract, multiply, divide, power, join (match / no match / along x), broadcast} with "
                "operands whose coordinates differ, and {map, add scalar, sum, sum keep_dim, mean, select, isel, stack, "
                f"concatenate (also on a size-1 dimension), flatten, expand, transform}}; (L) the binary operations between slices made by select / isel of different labels "
                f"(scalar coordinate before / after the remaining dimension, 0-d operands); (T) the same parametrised operation (flatten / stack axis, "
                f"expand internal_dim, sum / mean / concatenate backend kwargs, add scalar) twice from one receiver with different values; constants {consts}; non-trivial = at "
                "least two operations; every case is built twice; TLC evaluates FluentNames!Post on the logged node names, "
                "payload identities (as they are at the end of the case, compared within and across cases) and before/after snapshots "
                "(dims, coords, node identities, node payloads by value) of every pre-existing action",
        "clauses": ["NameInjective:different_lambdas", "NameInjective:different_callables_with_equal_name",
                    "NameInjective:different_inputs", "NameInjective:different_static_arguments",
                    "NameInjective:union_lost_or_rewired_a_computation", "NameInjective:one_name_on_two_nodes_of_a_cascade", "Deterministic",
                    "OperandsIntact:<operation>", "raised", "program_not_executed", "harness_error"],
    })
    for c in cases[:: max(1, len(cases) // 4)][:4]:
        ctx.sample({"case": c})
    for i, names in sorted(bad.items()):
        for name in sorted(names):          # one key per violated clause (a clause names the operation / the kind of collision)
            r = results[i - 1]
            if name.startswith("OperandsIntact:"):
                detail = next(({"op": s["op"], "changed": [[b, a] for b, a in zip(s["before"], s["after"]) if b != a]}
                               for s in r.get("steps", []) if s["before"] != s["after"] and name.endswith(":" + s["op"])), None)
            else:
                detail = r if "error" in r else {"nodes": r["nodes"], "build1": r["build1"], "build2": r["build2"]}
            ctx.violate("post:" + name, f"{name} violated by case {json.dumps(cases[i-1])[:400]}",
                        {"case": cases[i - 1], "detail": detail}, clause=name)
    ctx.assumptions += ["bounded domain as stated in `rule`; 'same callable' is identity of the function object that ends up in "
                        "the payload (functools.partial is unpacked by Payload); static arguments are compared by repr",
                        "operations that raise (e.g. an exact join of different coordinates) are allowed in part (O): the "
                        "operands must be intact afterwards all the same"]
