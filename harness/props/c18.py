"""C18: spec/Gateway.tla model-checked by TLC; TLC behaviours replayed into the real JobRouter / handlers.  The "keeps the newest"
rule is in addition proved inductive for EVERY natural time stamp and every value on the skeleton spec/GatewayNewest.tla
(Apalache), which spec/Gateway.tla refines (TLC, property NewestRefines of the same run)."""
from __future__ import annotations

import json
import logging
import re
import shutil
import subprocess
import sys
import time
from concurrent.futures import ThreadPoolExecutor

from .. import tlc
from ..common import ROOT, MachineryError

LEVEL = "model_checking"


def _listfile(paths):
    """argv cannot carry thousands of paths: write them to a file and pass @file"""
    import tempfile
    f = tempfile.NamedTemporaryFile("w", suffix=".json", delete=False, dir=__import__("os").path.dirname(paths[0]))
    json.dump(paths, f)
    f.close()
    return "@" + f.name

INV = ["TypeOK", "ProgressIsNewest", "ResultsExact", "AnswersFaithful", "NewestInv"]
# refinement: Gateway.tla implements the unbounded skeleton spec/GatewayNewest.tla (stamps 1..k for Nat, initial last_seen 0 for -1)
MC_REFINE = """---- MODULE MC ----
EXTENDS Gateway
Newest == INSTANCE GatewayNewest WITH Job <- J, Stamp <- TS, Before <- 0, Val <- {ProgOf(t) : t \\in TS}, Started <- Started,
            StoresLastSeen <- StoresLastSeen, nprog <- progress, nlast <- lastSeen,
            nseen <- [j \\in J |-> {[ts |-> t, val |-> ProgOf(t)] : t \\in seenTs[j]}]
NewestRefines == Newest!NSpec
NewestInv == Newest!NIndInv /\\ Newest!ShowsNewest
\\* the model check hides `last` behind a VIEW, so a frontend answer never makes a NEW state and an invariant would not look at it:
\\* the faithfulness of every answer is therefore (also) demanded of every transition
AnswersStep == [][AnswersFaithful']_vars
====
"""
# the skeleton as the code was before fix 72e2b3d (last_seen never written) must NOT be inductive (the proof is not vacuous)
APA_STEP = ["--init=IndInit", "--next=NNext", "--inv=Goal", "--length=1"]


def _apalache(d, args, timeout=900):
    p = subprocess.run(["apalache-mc", "check", *args, f"--out-dir={d}/out", "MC_GatewayNewest.tla"], cwd=d, stdout=subprocess.PIPE,
                       stderr=subprocess.STDOUT, text=True, timeout=timeout)
    out = p.stdout
    if "The outcome is: NoError" in out:
        return True, out
    if re.search(r"The outcome is: Error|Found \d+ error|invariant .* violated", out):
        return False, out
    raise MachineryError("apalache did not reach a verdict:\n" + out[-1500:])


def inductive(ctx) -> None:
    """Init => NIndInv; NIndInv /\\ NNext => NIndInv' /\\ ShowsNewest', for every stamp in Nat and every integer value."""
    if shutil.which("apalache-mc") is None:
        raise MachineryError("apalache-mc not on PATH")
    t0 = time.time()
    bound = 3 if ctx.quick else 5
    jobs = {"base": ["--cinit=ConstInitT", "--init=NInit", "--next=NNext", "--inv=Goal", "--length=0"],
            "step": ["--cinit=ConstInitT", *APA_STEP], "control": ["--cinit=ConstInitF", *APA_STEP]}
    dirs = {}
    for name in jobs:
        d = ctx.scratch / f"apa_{name}"
        d.mkdir(exist_ok=True)
        shutil.copy(ROOT / "spec" / "GatewayNewest.tla", d / "GatewayNewest.tla")
        src = (ROOT / "spec" / "MC_GatewayNewest.tla").read_text()
        if "Gen(3)" not in src:
            raise MachineryError("history bound not found in spec/MC_GatewayNewest.tla")
        (d / "MC_GatewayNewest.tla").write_text(src.replace("Gen(3)", f"Gen({bound})"))
        dirs[name] = d
    with ThreadPoolExecutor(max_workers=3) as tp:
        res = dict(zip(jobs, tp.map(lambda n: _apalache(dirs[n], jobs[n]), jobs)))
    if not res["base"][0]:
        ctx.violate("apalache:Init_does_not_establish_NIndInv", "Apalache: the initial state of spec/GatewayNewest.tla violates the "
                    "newest-report invariant", {"apalache": res["base"][1][-3000:]}, clause="ProgressIsNewest")
    if not res["step"][0]:
        ctx.violate("apalache:NIndInv_not_inductive", "Apalache: a report step of spec/GatewayNewest.tla leaves the newest-report "
                    "invariant (for some time stamps / values)", {"apalache": res["step"][1][-3000:]}, clause="ProgressIsNewest")
    if res["control"][0]:
        raise MachineryError("vacuous proof: the skeleton that never records the accepted stamp is also reported inductive")
    ctx.coverage["unbounded_newest_proof"] = {
        "tool": "apalache-mc 0.58 (SMT, inductive: NInit => NIndInv, NIndInv /\\ NNext => NIndInv' /\\ ShowsNewest')",
        "quantified_over": f"every time stamp in Nat, every integer progress value, 2 jobs, every state satisfying NIndInv with up to "
                           f"{bound} recorded reports per job",
        "negative_control": "skeleton without the write of last_seen (code before fix 72e2b3d) is rejected",
        "wall_s": round(time.time() - t0, 1),
        "link": "TLC property NewestRefines: spec/Gateway.tla refines spec/GatewayNewest.tla",
    }
    ctx.log(f"apalache: newest-report invariant inductive on GatewayNewest (base, step, control; history bound {bound}) in {time.time()-t0:.0f}s")
REPLAY = r'''
import sys, json, warnings, logging
warnings.filterwarnings("ignore"); logging.disable(logging.CRITICAL)
from pathlib import Path
from harness import tlc
from harness.drive import gateway
files, out = json.load(open(sys.argv[1][1:])) if sys.argv[1].startswith("@") else json.loads(sys.argv[1]), sys.argv[2]
res = []
for f in files:
    beh = tlc.parse_sim_file(Path(f))
    r = gateway.replay(beh, 2, ["d1", "d2"])
    r["actions"] = [gateway._js(s["last"]) for _, s in beh[1:]]
    res.append(r)
json.dump(res, open(out, "w"))
'''


PROGS = ["10.00", "50.00", "10.00", "50.00", "90.00"]      # progress per timestamp: values repeat (same percentage reported twice)


def consts(slots, ts):
    return {"JobSlot": str(slots), "DS": '{"d1", "d2"}', "Bytes": '{"x", "y", "e"}', "TS": "{" + ", ".join(map(str, range(1, ts + 1))) + "}",
            "StoresLastSeen": "TRUE"}


def run(ctx):
    logging.disable(logging.CRITICAL)
    cfg = tlc.cfg_text(spec="Spec", constants=consts(2, 3 if ctx.quick else 4), invariants=INV, properties=["NewestRefines", "AnswersStep"], view="view")
    d = tlc.stage(ctx.scratch, "mc", ["Gateway", "GatewayNewest"], {"MC.tla": MC_REFINE, "MC.cfg": cfg})
    r = tlc.check(d, "MC", workers=6, coverage=True, deadlock=False, timeout=1800, light=False)
    tlc.require_clean(r, "Gateway")
    for v in r.violated:
        ctx.violate(f"model:{v}", f"TLC: {v} violated in spec/Gateway.tla", {"tlc": r.trace[:6000]}, clause=v)
    num = 300 if ctx.quick else 3000
    cfg2 = tlc.cfg_text(spec="Spec", constants=consts(2, 3))
    d2 = tlc.stage(ctx.scratch, "sim", ["Gateway"], {"Gateway.cfg": cfg2})
    out = d2 / "b"
    out.mkdir(exist_ok=True)
    rs = tlc.check(d2, "Gateway", workers=1, timeout=900, simulate=f"file={out}/b,num={num}", depth=30, seed=ctx.seed + 3, deadlock=False)
    files = sorted(out.glob("b_*"))
    if not files:
        raise MachineryError("no behaviours from TLC simulation:\n" + rs.out[-2000:])
    rf = ctx.scratch / "replay.json"
    p = subprocess.run([sys.executable, "-W", "ignore", "-c", REPLAY, _listfile([str(f) for f in files]), str(rf)], cwd=ROOT,
                       stdout=subprocess.PIPE, stderr=subprocess.STDOUT, text=True, timeout=1800)
    if p.returncode != 0 or not rf.exists():
        raise MachineryError("replay failed:\n" + p.stdout[-3000:])
    reps = json.loads(rf.read_text())
    for x in reps:
        mm = x.get("mismatch")
        if mm:
            fields = sorted(mm["diffs"])
            ctx.violate(f"conformance:{mm['action'][0]}:" + "+".join(fields),
                        f"real gateway deviates from spec/Gateway.tla at step {mm['step']} ({mm['action']}): {mm['diffs']}",
                        {"actions": x["actions"][: mm["step"]], "mismatch": mm}, clause="+".join(fields))
    ctx.coverage.update({
        "states": r.distinct, "transitions": r.generated, "traces_validated_against_impl": len(reps),
        "replayed_steps": sum(x["steps"] for x in reps),
        "action_coverage": {a: n for a, n in r.coverage.items() if a in ("Submit", "Report", "AskProgress", "AskResult")},
        "rule": "TLC exhausts spec/Gateway.tla (2 jobs, 2 datasets, 2 payloads, 3-4 timestamps; any order/duplication of "
                "progress/result/shutdown reports interleaved with frontend requests incl. unknown jobs); TLC -simulate "
                "behaviours replayed through the real handle_controller/handle_fe + JobRouter with real pickled reports and "
                "real JSON requests, comparing progress, results, socket registration and every response",
    })
    ctx.sample({"behaviour": reps[0]["actions"][:10]})
    inductive(ctx)
    ctx.assumptions += ["two progress reports of one job with equal timestamps carry the same progress (timestamps come from "
                        "one monotonic clock per controller)", "sockets, poller and subprocess spawning are harness fakes"]
