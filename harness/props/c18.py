"""C18: spec/Gateway.tla model-checked by TLC; TLC behaviours replayed into the real JobRouter / handlers."""
from __future__ import annotations

import json
import logging
import subprocess
import sys

from .. import tlc
from ..common import ROOT, MachineryError

LEVEL = "model_checking"


def _listfile(paths):
    """argv cannot carry thousands of paths: write them to a file and pass @file"""
    import tempfile
    f = tempfile.NamedTemporaryFile("w", suffix=".json", delete=False, dir=__import__("os").path.dirname(paths[0]))
    json.dump(paths, f)
    f.close()
    return "@" + f.name

INV = ["TypeOK", "ProgressIsNewest", "ResultsExact", "AnswersFaithful"]
REPLAY = r'''
import sys, json, warnings, logging
warnings.filterwarnings("ignore"); logging.disable(logging.CRITICAL)
from pathlib import Path
from harness import tlc
from harness.drive import gateway
files, out = json.load(open(sys.argv[1][1:])) if sys.argv[1].startswith("@") else json.loads(sys.argv[1]), sys.argv[2]
res = []
for f in files:
    beh = tlc.parse_sim_file(Path(f))
    r = gateway.replay(beh, 2, ["d1", "d2"])
    r["actions"] = [gateway._js(s["last"]) for _, s in beh[1:]]
    res.append(r)
json.dump(res, open(out, "w"))
'''


PROGS = ["10.00", "50.00", "10.00", "50.00", "90.00"]      # progress per timestamp: values repeat (same percentage reported twice)


def consts(slots, ts):
    return {"JobSlot": str(slots), "DS": '{"d1", "d2"}', "Bytes": '{"x", "y", "e"}', "TS": "{" + ", ".join(map(str, range(1, ts + 1))) + "}",
            "StoresLastSeen": "TRUE"}


def run(ctx):
    logging.disable(logging.CRITICAL)
    cfg = tlc.cfg_text(spec="Spec", constants=consts(2, 3 if ctx.quick else 4), invariants=INV, view="view")
    d = tlc.stage(ctx.scratch, "mc", ["Gateway"], {"Gateway.cfg": cfg})
    r = tlc.check(d, "Gateway", workers=6, coverage=True, deadlock=False, timeout=1800, light=False)
    tlc.require_clean(r, "Gateway")
    for v in r.violated:
        ctx.violate(f"model:{v}", f"TLC: {v} violated in spec/Gateway.tla", {"tlc": r.trace[:6000]}, clause=v)
    num = 300 if ctx.quick else 3000
    cfg2 = tlc.cfg_text(spec="Spec", constants=consts(2, 3))
    d2 = tlc.stage(ctx.scratch, "sim", ["Gateway"], {"Gateway.cfg": cfg2})
    out = d2 / "b"
    out.mkdir(exist_ok=True)
    rs = tlc.check(d2, "Gateway", workers=1, timeout=900, simulate=f"file={out}/b,num={num}", depth=30, seed=ctx.seed + 3, deadlock=False)
    files = sorted(out.glob("b_*"))
    if not files:
        raise MachineryError("no behaviours from TLC simulation:\n" + rs.out[-2000:])
    rf = ctx.scratch / "replay.json"
    p = subprocess.run([sys.executable, "-W", "ignore", "-c", REPLAY, _listfile([str(f) for f in files]), str(rf)], cwd=ROOT,
                       stdout=subprocess.PIPE, stderr=subprocess.STDOUT, text=True, timeout=1800)
    if p.returncode != 0 or not rf.exists():
        raise MachineryError("replay failed:\n" + p.stdout[-3000:])
    reps = json.loads(rf.read_text())
    for x in reps:
        mm = x.get("mismatch")
        if mm:
            fields = sorted(mm["diffs"])
            ctx.violate(f"conformance:{mm['action'][0]}:" + "+".join(fields),
                        f"real gateway deviates from spec/Gateway.tla at step {mm['step']} ({mm['action']}): {mm['diffs']}",
                        {"actions": x["actions"][: mm["step"]], "mismatch": mm}, clause="+".join(fields))
    ctx.coverage.update({
        "states": r.distinct, "transitions": r.generated, "traces_validated_against_impl": len(reps),
        "replayed_steps": sum(x["steps"] for x in reps),
        "action_coverage": {a: n for a, n in r.coverage.items() if a in ("Submit", "Report", "AskProgress", "AskResult")},
        "rule": "TLC exhausts spec/Gateway.tla (2 jobs, 2 datasets, 2 payloads, 3-4 timestamps; any order/duplication of "
                "progress/result/shutdown reports interleaved with frontend requests incl. unknown jobs); TLC -simulate "
                "behaviours replayed through the real handle_controller/handle_fe + JobRouter with real pickled reports and "
                "real JSON requests, comparing progress, results, socket registration and every response",
    })
    ctx.sample({"behaviour": reps[0]["actions"][:10]})
    ctx.assumptions += ["two progress reports of one job with equal timestamps carry the same progress (timestamps come from "
                        "one monotonic clock per controller)", "sockets, poller and subprocess spawning are harness fakes"]
