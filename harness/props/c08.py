"""C08: decided on spec/Shm.tla (TLC) + replay of TLC behaviours into the real cascade.shm.dataset.Manager."""
from ..shm_engine import report

LEVEL = "model_checking"


def run(ctx):
    report(ctx, "C08")
