"""C08: decided on spec/Shm.tla (TLC) + replay of TLC behaviours into the real cascade.shm.dataset.Manager; the accounting
invariant is in addition proved inductive for EVERY capacity and size function on the skeleton spec/ShmAcct.tla (Apalache),
which spec/Shm.tla refines (TLC, run `refines_acct` of the shm engine)."""
import re
import shutil
import subprocess
import time
from concurrent.futures import ThreadPoolExecutor

from ..common import ROOT, MachineryError
from ..shm_engine import report

LEVEL = "model_checking"

# a skeleton without the admission test must NOT be inductive (the proof is not vacuous)
CONTROL = ("AAlloc(k)   == ast[k] = \"absent\" /\\ Size[k] <= afree", "AAlloc(k)   == ast[k] = \"absent\"")


def _apalache(d, args: list[str], timeout: int = 600) -> tuple[bool, str]:
    p = subprocess.run(["apalache-mc", "check", *args, f"--out-dir={d}/out", "MC_ShmAcct.tla"], cwd=d, stdout=subprocess.PIPE,
                       stderr=subprocess.STDOUT, text=True, timeout=timeout)
    out = p.stdout
    if "The outcome is: NoError" in out:
        return True, out
    if re.search(r"The outcome is: Error|Found \d+ error|invariant .* violated", out):
        return False, out
    raise MachineryError("apalache did not reach a verdict:\n" + out[-1500:])


def inductive(ctx) -> None:
    if shutil.which("apalache-mc") is None:
        raise MachineryError("apalache-mc not on PATH")
    t0 = time.time()
    dirs = {}
    for name in ("base", "step", "control"):
        d = ctx.scratch / f"apa_{name}"
        d.mkdir(exist_ok=True)
        for f in ("ShmAcct.tla", "MC_ShmAcct.tla"):
            shutil.copy(ROOT / "spec" / f, d / f)
        dirs[name] = d
    src = (dirs["control"] / "ShmAcct.tla").read_text()
    if CONTROL[0] not in src:
        raise MachineryError("control mutation site not found in spec/ShmAcct.tla")
    (dirs["control"] / "ShmAcct.tla").write_text(src.replace(CONTROL[0], CONTROL[1]))
    step = ["--cinit=ConstInit", "--init=IndInit", "--next=ANext", "--inv=Goal", "--length=1"]
    jobs = {"base": ["--cinit=ConstInit", "--init=AInit", "--next=ANext", "--inv=Goal", "--length=0"], "step": step, "control": step}
    with ThreadPoolExecutor(max_workers=3) as tp:
        res = dict(zip(jobs, tp.map(lambda n: _apalache(dirs[n], jobs[n]), jobs)))
    if not res["base"][0]:
        ctx.violate("apalache:Init_does_not_establish_IndInv", "Apalache: the initial state of spec/ShmAcct.tla violates the accounting invariant",
                    {"apalache": res["base"][1][-3000:]}, clause="Accounting")
    if not res["step"][0]:
        ctx.violate("apalache:IndInv_not_inductive", "Apalache: a step of spec/ShmAcct.tla leaves the accounting invariant "
                    "(for some capacity / sizes)", {"apalache": res["step"][1][-3000:]}, clause="Accounting")
    if res["control"][0]:
        raise MachineryError("vacuous proof: the skeleton without the admission test is also reported inductive")
    ctx.coverage["unbounded_accounting_proof"] = {
        "tool": "apalache-mc 0.58 (SMT, inductive: Init => IndInv, IndInv /\\ Next => IndInv' /\\ NoOverdraw /\\ FreeSane)",
        "quantified_over": "every capacity in Nat, every size function [4 keys -> Nat \\ {0}], every state satisfying IndInv",
        "negative_control": "skeleton without the admission test is rejected", "wall_s": round(time.time() - t0, 1),
        "link": "TLC run refines_acct: spec/Shm.tla (outside the recorded known patterns) refines spec/ShmAcct.tla",
    }
    ctx.log(f"apalache: accounting invariant inductive on ShmAcct (base, step, control) in {time.time()-t0:.0f}s")


def run(ctx):
    report(ctx, "C08")
    inductive(ctx)
