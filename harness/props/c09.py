"""C09: decided on spec/Shm.tla (TLC) + replay of TLC behaviours into the real cascade.shm.dataset.Manager; the eviction
lottery is in addition judged as a function over candidates with EQUAL time stamps (spec/Lottery.tla, pattern P3)."""
import json

from .. import p3
from ..common import guarded, CaseTimeout
from ..shm_engine import report

LEVEL = "model_checking"


def lottery(ctx):
    from cascade.shm import algorithms

    consts = {"MaxN": "3", "MaxStamp": "2", "MaxSize": "2"}
    cases_file, cases = p3.generate(ctx, "Lottery", consts, env={"PASS": "generate"})
    if not ctx.quick:
        # thorough: in addition three distinct stamps (sizes 1), judged under the larger constants (a superset domain)
        wide = {"MaxN": "3", "MaxStamp": "3", "MaxSize": "2"}
        _, more = p3.generate(ctx, "Lottery", {"MaxN": "3", "MaxStamp": "3", "MaxSize": "1"}, env={"PASS": "generate"}, tag="gen3")
        cases = cases + more
        cases_file.write_text(json.dumps(cases))
        consts = wide

    def one(c):
        ents = [algorithms.Entity(e["key"], e["created"], e["first"], e["last"], e["size"]) for e in c["ents"]]
        try:
            w = guarded(lambda: algorithms.lottery(iter(ents), c["amount"]), 5.0)
            return {"raised": False, "winners": [str(x) for x in w], "what": ""}
        except (Exception, CaseTimeout) as e:
            return {"raised": True, "winners": [], "what": repr(e)[:120]}

    cases, results = p3.execute(ctx, cases, cases_file, one)
    rf = ctx.scratch / "lottery_results.json"
    rf.write_text(json.dumps(results))
    env = {"PASS": "judge", "JUDGE_CASES": str(cases_file)}
    bad = p3.judge_chunked(ctx, "Lottery", consts, cases, results, chunk=4000, env={"PASS": "judge", "JUDGE_CASES": "@cases"}) \
        if len(cases) > 6000 else p3.judge(ctx, "Lottery", consts, cases_file, rf, env=env)
    info: dict[str, int] = {}
    for i, names in sorted(bad.items()):
        hard = sorted(n for n in names if not n.startswith("I_"))
        for n in names:
            if n.startswith("I_"):
                info[n] = info.get(n, 0) + 1
        if hard:
            ctx.violate("lottery:" + "+".join(hard), f"cascade.shm.algorithms.lottery violates {hard} on {cases[i-1]}: {results[i-1]}",
                        {"case": cases[i - 1], "result": results[i - 1]}, clause="+".join(hard))
    ctx.coverage["lottery_cases"] = len(cases)
    ctx.coverage["lottery_cases_with_equal_stamps"] = sum(
        1 for c in cases if len({(e["created"], e["first"], e["last"]) for e in c["ents"]}) < len(c["ents"]))
    if info:
        ctx.coverage["lottery_policy_differences_informational"] = info


def run(ctx):
    report(ctx, "C09")
    lottery(ctx)
    from ..drive.shm_clients import run_tier
    run_tier(ctx, "C09")
