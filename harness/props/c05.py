"""C05: spec/Failure.tla — (1) TLC model-checks the detection/report/teardown state machine (liveness), (2) TLC enumerates
fault scenarios, the harness runs each on a REAL cluster (real executor, shm server, data server, worker processes, real
Bridge + controller) with the fault injected from inside the task body, and TLC judges the observations (P3)."""
from __future__ import annotations

import glob
import json
import os
import signal
import subprocess
import sys
import time
from concurrent.futures import ThreadPoolExecutor

from .. import p3, tlc
from ..common import ROOT, MachineryError

LEVEL = "model_checking"
PROPS = ["RunEnds", "EndsClean", "ErrorIfLost", "NoSegmentsLeft"]


def run_scenario(sc: dict, port: int, tag: str, deadline: float, scratch) -> dict:
    sc = dict(sc, deadline=deadline)
    env = dict(os.environ)
    out, err = scratch / f"{tag}.out", scratch / f"{tag}.err"
    with open(out, "w") as fo, open(err, "w") as fe:
        p = subprocess.Popen([sys.executable, "-W", "ignore", "-m", "harness.cluster.scenario", json.dumps(sc), str(port), tag],
                             cwd=ROOT, env=env, stdout=fo, stderr=fe, start_new_session=True)
        try:
            p.wait(deadline + 15)
        except subprocess.TimeoutExpired:
            pass
    sid = p.pid
    # give the executors a moment to finish their teardown, then look at the session
    left = 0
    for _ in range(60):
        left = _session_procs(sid)
        if left == 0:
            break
        time.sleep(0.2)
    segs = len(glob.glob(f"/dev/shm/sCasc{tag}*"))
    stacks = ""
    if left > 0:
        # ask whatever is left where it is (faulthandler is registered in the scenario process and inherited by its children)
        try:
            os.killpg(sid, signal.SIGUSR1)
            time.sleep(0.5)
            stacks = open(err).read()[-6000:]
        except ProcessLookupError:
            pass
    ob = {"outcome": "hang", "values_ok": False, "wall": deadline}
    for line in open(out):
        if line.startswith("RESULT "):
            ob = json.loads(line[7:])
    ob["leftover_procs"], ob["segments"] = left, segs
    ob.setdefault("values_ok", False)
    # reap whatever is left so that nothing survives the check
    try:
        os.killpg(sid, signal.SIGKILL)
    except ProcessLookupError:
        pass
    for f in glob.glob(f"/dev/shm/sCasc{tag}*") + glob.glob(f"/tmp/{tag}h*.socket") + glob.glob(f"/tmp/{tag}.flag"):
        try:
            os.unlink(f)
        except OSError:
            pass
    ob["stderr_tail"] = stacks or (open(err).read()[-300:] if ob["outcome"] == "hang" else "")
    return ob


def _free_port_base(span: int) -> int:
    """a base such that base .. base+span are currently not bound (probed every 10th port)"""
    import random
    import socket
    rng = random.Random(os.getpid())
    for _ in range(50):
        base = rng.randrange(12000, 32000 - span)      # below the ephemeral range (32768+), which other processes' connections use
        ok = True
        for p in range(base, base + span, 7):
            s = socket.socket()
            try:
                s.bind(("127.0.0.1", p))
            except OSError:
                ok = False
                break
            finally:
                s.close()
        if ok:
            return base
    raise MachineryError("no free port range found")


def _session_procs(sid: int) -> int:
    n = 0
    for d in os.listdir("/proc"):
        if d.isdigit():
            try:
                st = open(f"/proc/{d}/stat").read()
                fields = st[st.rindex(")") + 2:].split()
                if int(fields[3]) == sid and fields[0] != "Z":
                    n += 1
            except (OSError, ValueError):
                pass
    return n


def bridge_batch(batch: list[str]) -> dict:
    """The real Bridge.recv_events on one scripted batch (then nothing more: a second poll ends the loop)."""
    import cascade.executor.bridge as BR
    from cascade.executor.msg import (Ack, DatasetId, DatasetPublished, DatasetPurge, DatasetTransmitFailure, DatasetTransmitPayload,
                                      DatasetTransmitPayloadHeader, ExecutorExit, ExecutorFailure, ExecutorRegistration, TaskFailure)
    from cascade.low.core import WorkerId

    class Stop(BaseException):
        pass

    w = WorkerId("h0", "w0")
    mk = {"published": lambda i: DatasetPublished(w, DatasetId(f"t{i}", "0"), None),
          "payload": lambda i: DatasetTransmitPayload(DatasetTransmitPayloadHeader("a", i, DatasetId(f"p{i}", "0"), "cloudpickle.loads"), b"x"),
          "ack": lambda i: Ack(i), "registration": lambda i: ExecutorRegistration("h0", "m", "d", []),
          "task_failure": lambda i: TaskFailure(w, "t", "boom"), "executor_failure": lambda i: ExecutorFailure("h0", "boom"),
          "transmit_failure": lambda i: DatasetTransmitFailure("h0", "boom"), "executor_exit": lambda i: ExecutorExit("h0"),
          "unsupported": lambda i: DatasetPurge(DatasetId("t", "0"))}
    msgs = [mk[k](i) for i, k in enumerate(batch)]
    calls = {"n": 0, "shutdown": False}

    class Listener:
        address = "ctrl"

        def recv_messages(self, timeout_ms=None):
            calls["n"] += 1
            if calls["n"] > 1:
                raise Stop
            return list(msgs)

    class Sender:
        def __init__(self):
            self.hosts = {"h0": (None, "m"), "data.h0": (None, "d")}

        def ack(self, idx):
            pass

        def maybe_retry(self):
            pass

        def send(self, *a):
            pass

    class Beat:
        def step(self):
            pass

        def is_breach(self):
            return 0

        def elapsed_ms(self):
            return 0

    b = BR.Bridge.__new__(BR.Bridge)
    b.mlistener, b.sender, b.heartbeat_checker = Listener(), Sender(), {"h0": Beat()}

    def shutdown():
        calls["shutdown"] = True

    b.shutdown = shutdown
    try:
        evs = b.recv_events()
        names = ["published" if isinstance(e, DatasetPublished) else "payload" for e in evs]
        return {"raises": False, "events": names, "shutdown_called": calls["shutdown"]}
    except Stop:
        return {"raises": False, "events": [], "shutdown_called": calls["shutdown"]}
    except Exception:
        return {"raises": True, "events": [], "shutdown_called": calls["shutdown"]}


def run(ctx):
    # ---- 1. the state machine
    cfg = tlc.cfg_text(spec="Spec", constants={"HealthcheckRaises": "TRUE", "ZeroExitIsFailure": "TRUE"}, properties=PROPS)
    d = tlc.stage(ctx.scratch, "mc", ["Failure"], {"Failure.cfg": cfg})
    r = tlc.check(d, "Failure", workers=2, coverage=True, timeout=600, env={"PASS": "mc", "TIER": ctx.tier})
    tlc.require_clean(r, "Failure")
    for v in r.violated:
        ctx.violate(f"model:{v}", f"TLC: {v} on spec/Failure.tla (design constants)", {"tlc": r.trace[:6000]}, clause=v)
    # ---- 2. real clusters
    consts = {"HealthcheckRaises": "TRUE", "ZeroExitIsFailure": "TRUE"}
    defs = "\\* @init Init\n\\* @vars vars"
    cases_file, cases = p3.generate(ctx, "Failure", consts, env={"PASS": "generate", "TIER": ctx.tier}, defs=defs)
    deadline = 20.0 if ctx.quick else 30.0
    base = _free_port_base(len(cases) * 2 * 40 + 50)

    def job(ic):
        i, sc = ic
        tag = f"v{os.getpid() % 10000}n{i}"
        ob = run_scenario(sc, base + i * 40, tag, deadline, ctx.scratch)
        if ob["outcome"] != "ok" and ob.get("phase") == "startup":
            # the run ended or stalled before every executor had registered: an executor could not even start (a port of its
            # range was taken by another process of the machine). Faults are injected inside task bodies, i.e. after
            # registration, so this is never the scenario's doing: run it once more on another port range.
            ob2 = run_scenario(sc, base + (len(cases) + i) * 40, tag + "r", deadline, ctx.scratch)
            ob2["rerun"] = "startup"
            if ob2["outcome"] != "ok" and ob2.get("phase") == "startup":
                raise MachineryError(f"real cluster of scenario {sc} could not be started twice: {ob2.get('stderr_tail', '')[-400:]}")
            return ob2
        if ob.get("segments", 0) > 0 and ob.get("leftover_procs", 0) == 0 and sc["mode"] not in ("kill_helper_first", "term_helper_first",
                                                                                               "kill_remote_helper_first"):
            # Segments left although every process is gone and the shm server was not the victim. Seen once in a thorough run on a
            # machine at load 30 (exit1 in t2@after_compute, 2x1) and never again: Executor.terminate shuts the shm server down BEFORE it
            # kills the data server, so a payload store that was granted just before can create its segment after Manager.atexit
            # has run (DESIGN.md 10.3, suspected teardown race). A leak that belongs to the scenario shows again: run it twice more.
            again = [run_scenario(sc, base + (len(cases) + i) * 40 + 13 * (k + 1), tag + f"s{k}", deadline, ctx.scratch) for k in range(2)]
            worst = max(again, key=lambda o: (o.get("segments", 0), o["outcome"] == "hang"))
            worst["rerun"] = "segments"
            worst["first_attempt_segments"] = ob["segments"]
            return worst
        if ob["outcome"] == "hang" and not ob.get("in_recv_events", False):
            # a miss that is not the controller waiting in recv_events is re-run once (machine load)
            ob2 = run_scenario(sc, base + (len(cases) + i) * 40, tag + "r", deadline, ctx.scratch)
            ob2["rerun"] = True
            return ob2
        return ob

    with ThreadPoolExecutor(max_workers=4) as tp:
        obs = list(tp.map(job, list(enumerate(cases))))
    rf = ctx.scratch / "c05_results.json"
    rf.write_text(json.dumps([{k: v for k, v in o.items() if k in ("outcome", "values_ok", "leftover_procs", "segments")} for o in obs]))
    bad = p3.judge(ctx, "Failure", consts, cases_file, rf, env={"PASS": "judge", "JUDGE_CASES": str(cases_file), "TIER": ctx.tier}, defs=defs)
    for i, names in sorted(bad.items()):
        sc, ob = cases[i - 1], obs[i - 1]
        ctx.violate("post:" + "+".join(sorted(names)) + ":" + sc["mode"].replace("remote_", "").replace("term_helper", "kill_helper"),
                    f"real cluster {sc['hosts']}x{sc['workers']}, fault {sc['mode']} in {sc['task'] or '-'}@{sc['point'] or '-'}: {sorted(names)}; observed {ob}",
                    {"scenario": sc, "observed": ob}, clause="+".join(sorted(names)))
    # ---- 2b. Bridge.recv_events on every drained batch of up to three messages (a failure report anywhere fails the run)
    bf, batches = p3.generate(ctx, "Failure", consts, env={"PASS": "batches", "TIER": ctx.tier}, defs=defs, op="GenerateBatches", tag="batches")
    bres = [bridge_batch(b) for b in batches]
    brf = ctx.scratch / "c05_batches.json"
    brf.write_text(json.dumps(bres))
    bbad = p3.judge(ctx, "Failure", consts, bf, brf, env={"PASS": "batchesj", "JUDGE_CASES": str(bf), "TIER": ctx.tier}, defs=defs,
                    op="JudgeBatches", tag="batchesj")
    for i, names in sorted(bbad.items()):
        ctx.violate("bridge_batch:" + "+".join(sorted(names)), f"Bridge.recv_events on drained batch {batches[i-1]}: {sorted(names)}; observed {bres[i-1]}",
                    {"batch": batches[i - 1], "observed": bres[i - 1]}, clause="+".join(sorted(names)))
    ctx.coverage["bridge_batches"] = len(batches)
    # ---- 2c. the shutdown handshake of the run (spec/Session.tla replayed into the real Bridge.__init__ / Bridge.shutdown): every
    # registered executor is told to stop, re-told when the message is lost, and waited for
    from .c06 import SHUTDOWN_ACTIONS, session_part
    sess = session_part(ctx, only_actions=SHUTDOWN_ACTIONS)
    ctx.coverage["session_behaviours_replayed"] = sess["replayed"]
    # ---- 3. teardown of the shm store itself (Manager.atexit), bound through spec/Shm.tla's AtExit action (shared engine of C08/C09)
    from ..shm_engine import report as shm_report
    shm_cov_before = dict(ctx.coverage)
    shm_report(ctx, "C05")
    shm_states = ctx.coverage.get("states", 0)
    ctx.coverage.clear()
    ctx.coverage.update(shm_cov_before)
    ctx.coverage["shm_atexit_replayed_behaviours"] = True
    ended = [o for o in obs if o["outcome"] != "hang"]
    ctx.coverage.update({
        "states": r.distinct, "transitions": r.generated, "traces_validated_against_impl": len(cases),
        "scenarios": len(cases), "outcomes": {k: sum(1 for o in obs if o["outcome"] == k) for k in ("ok", "error", "hang")},
        "max_wall_s_of_ended_runs": max([o.get("wall", 0) for o in ended] or [0]),
        "evaluations": len(cases), "distinct_nontrivial": sum(1 for c in cases if c["mode"] != "none"),
        "rule": "TLC checks the liveness properties of spec/Failure.tla (every fault: run ends, executor and children gone); TLC enumerates "
                "fault scenarios (victim/exit mode x progress point of a 2-output producer / consumer x cluster shape), each is run on a real "
                "cluster with real processes and judged by Failure!Post: ends within the deadline, error when an output is lost, never a "
                "wrong value, no process of the run's session and no /dev/shm segment left",
    })
    for c, o in list(zip(cases, obs))[:3]:
        ctx.sample({"scenario": c, "observed": {k: v for k, v in o.items() if k != "stderr_tail"}})
    ctx.assumptions += [f"'bounded time' is a deadline of {deadline}s (a healthy run takes 1-3 s here; detection paths answer in 1-5 s)",
                        "faults are injected from inside the task body (raise, sys.exit(0), os._exit(1), SIGKILL of itself or of a helper process)",
                        "helper = the executor's non-worker children in start order (shm server, data server)"]
