"""C19: spec/Builder.tla enumerates task signatures, bindings and edge sets and judges what the real
cascade.low.builders return (P3). Python synthesises the callables, drives the builders and dumps; the verdict is TLC's."""
from __future__ import annotations

import collections
import dataclasses
import json

import pydantic

from cascade.low.builders import JobBuilder, TaskBuilder

from .. import p3
from ..common import CaseTimeout, MachineryError, guarded

LEVEL = "exploration"


# ---- structured values that can be bound (spec/Builder.tla!StructVals names them by these constructors)
@dataclasses.dataclass
class DC:
    x: int
    y: str


class PM(pydantic.BaseModel):
    x: int
    y: str


NT = collections.namedtuple("NT", ["x", "y"])
VALUE_NS = {"DC": DC, "PM": PM, "NT": NT, "OrderedDict": collections.OrderedDict, "defaultdict": collections.defaultdict,
            "frozenset": frozenset, "set": set, "int": int, "__builtins__": {}}


def canon(x) -> str:
    """Type-revealing canonical text of a value (an expression over VALUE_NS): two values get the same (type name, text)
    exactly when they have the same type and are equal, recursively."""
    if isinstance(x, collections.defaultdict):
        return f"defaultdict({getattr(x.default_factory, '__name__', None)}, {canon(dict(x))})"
    if isinstance(x, collections.OrderedDict):
        return "OrderedDict([" + ", ".join(f"({canon(k)}, {canon(v)})" for k, v in x.items()) + "])"
    if type(x) is dict:
        return "{" + ", ".join(f"{canon(k)}: {canon(v)}" for k, v in x.items()) + "}"
    if type(x) is list:
        return "[" + ", ".join(canon(v) for v in x) + "]"
    if type(x) is tuple:
        return "(" + ", ".join(canon(v) for v in x) + ("," if len(x) == 1 else "") + ")"
    if type(x) is set:
        return "{" + ", ".join(sorted(canon(v) for v in x)) + "}" if x else "set()"
    if type(x) is frozenset:
        return "frozenset({" + ", ".join(sorted(canon(v) for v in x)) + "})" if x else "frozenset()"
    if dataclasses.is_dataclass(x) and not isinstance(x, type):
        return type(x).__name__ + "(" + ", ".join(f"{f.name}={canon(getattr(x, f.name))}" for f in dataclasses.fields(x)) + ")"
    if isinstance(x, pydantic.BaseModel):
        return type(x).__name__ + "(" + ", ".join(f"{n}={canon(getattr(x, n))}" for n in type(x).model_fields) + ")"
    if isinstance(x, tuple) and hasattr(x, "_fields"):
        return type(x).__name__ + "(" + ", ".join(f"{n}={canon(v)}" for n, v in zip(x._fields, x)) + ")"
    return repr(x)


# ---- transport: descriptors -> real objects
def val(d: dict):
    if d["t"] == "str":
        return d["v"]
    x = eval(d["v"], dict(VALUE_NS))      # int, None, False, [], 0.0, DC(x=1, y='a'), OrderedDict([...]) ...
    if canon(x) != d["v"] or type(x).__name__ != d["t"]:
        raise MachineryError(f"value descriptor {d} is not in canonical form (harness reads it as {type(x).__name__} {canon(x)})")
    return x


def enc(x) -> dict:
    return {"t": type(x).__name__, "v": x if type(x) is str else canon(x)}


def mkfunc(params: list, ret: str, decor: dict | None = None):
    decor = decor or {"po": "", "va": "", "vk": ""}
    parts, star = [], False
    ns: dict = {"__name__": "c19_synth"}
    if decor["po"]:
        parts += [decor["po"], "/"]
    if decor["va"] and not any(p["kind"] == "ko" for p in params):
        params = list(params) + [None]          # place *args after the positional-or-keyword parameters
    for p in params:
        if p is None or (p["kind"] == "ko" and not star):
            parts.append("*" + decor["va"])
            star = True
            if p is None:
                continue
        if p["kind"] == "ko" and not star:
            parts.append("*")
            star = True
        s = p["name"]
        if p["ann"]:
            s += f": {p['ann']}"
        if p["dflt"]["t"] != "none":
            ns[f"_default_{p['name']}"] = val(p["dflt"])       # defaults may be objects: hand them over by name
            s += f" = _default_{p['name']}"
        parts.append(s)
    if decor["vk"]:
        parts.append("**" + decor["vk"])
    src = f"def f({', '.join(parts)}){' -> ' + ret if ret else ''}:\n    return 0\n"
    exec(compile(src, "<c19_synth>", "exec", dont_inherit=True), ns)     # real annotation objects, not strings
    return ns["f"]


# ---- transport: real objects -> JSON
def dump_task(t) -> dict:
    return {"kw": [[k, enc(v)] for k, v in t.static_input_kw.items()],
            "ps": [[k, enc(v)] for k, v in t.static_input_ps.items()],
            "ins": [[k, v] for k, v in t.definition.input_schema.items()],
            "outs": [[k, v] for k, v in t.definition.output_schema.items()]}


EMPTY_TASK = {"kw": [], "ps": [], "ins": [], "outs": []}


def dump_job(j) -> dict:
    return {"outcome": "job", "tasks": [[n, dump_task(t)] for n, t in j.tasks.items()],
            "edges": [[e.source.task, e.source.output, e.sink_task, "kw" if e.sink_input_kw is not None else "ps",
                       e.sink_input_kw if e.sink_input_kw is not None else str(e.sink_input_ps)] for e in j.edges],
            "problems": [], "error": ""}


def build(b: JobBuilder) -> tuple[dict, object]:
    """-> (dumped outcome, the JobInstance if one was returned)"""
    try:
        r = guarded(b.build, 3.0)
    except (Exception, CaseTimeout) as e:
        return {"outcome": "raised", "tasks": [], "edges": [], "problems": [], "error": f"{type(e).__name__}: {e}"[:200]}, None
    if r.e is not None:
        return {"outcome": "problems", "tasks": [], "edges": [], "problems": [str(x)[:120] for x in r.e], "error": ""}, None
    return dump_job(r.t), r.t


def run_bind(c: dict) -> dict:
    fresh = TaskBuilder.from_callable(mkfunc(c["params"], c["ret"], c.get("decor")))
    before = dump_task(fresh)
    args = [val(a) for a in c["args"]]
    kw = {k: val(v) for k, v in c["kw"]}
    try:
        bound = fresh.with_values(*args).with_values(**kw) if c["split"] else fresh.with_values(*args, **kw)
        if c.get("kw2"):                      # a later call re-binds parameters (possibly to None)
            bound = bound.with_values(**{k: val(v) for k, v in c["kw2"]})
        for call in c.get("calls", []):       # further calls re-bind positions and names
            bound = bound.with_values(*[val(a) for a in call["args"]], **{k: val(v) for k, v in call["kw"]})
        b = {"ok": True, "task": dump_task(bound), "error": ""}
    except Exception as e:
        return {"fresh_before": before, "fresh_after": dump_task(fresh),
                "bound": {"ok": False, "task": EMPTY_TASK, "error": f"{type(e).__name__}: {e}"[:200]},
                "final": {"outcome": "none", "tasks": [], "edges": [], "problems": [], "error": ""}}
    final, _ = build(JobBuilder().with_node("t1", bound))
    return {"fresh_before": before, "fresh_after": dump_task(fresh), "bound": b, "final": final}


def run_edge(c: dict) -> dict:
    t1 = TaskBuilder.from_callable(mkfunc([], c["ret"]))
    if len(c.get("outs", [])) > 1:      # a hand-made producer: several outputs with the declared types the case lists
        t1 = t1.model_copy(update={"definition": t1.definition.model_copy(
            update={"output_schema": {str(i): t for i, t in enumerate(c["outs"])}})})
    tasks = {"t1": t1, "t2": TaskBuilder.from_callable(mkfunc(c["params"], "", c.get("decor")))}
    present = c.get("present", ["t1", "t2"])        # the tasks that get added at all
    edges_first = c.get("order", "nodes_first") == "edges_first"

    def add_nodes(b):
        for name in ("t1", "t2"):
            if name in present:
                b = b.with_node(name, tasks[name])
        return b

    def add_edges(b):
        for e in c["edges"]:
            b = b.with_edge(e["st"], e["dt"], e["into"] if e["mode"] == "kw" else int(e["into"]), e["so"])
        return b

    b0 = JobBuilder() if edges_first else add_nodes(JobBuilder())
    first_before, j0 = build(b0)
    b = add_nodes(add_edges(b0)) if edges_first else add_edges(b0)
    final, _ = build(b)
    first_after = dump_job(j0) if j0 is not None else first_before
    first_rebuilt, _ = build(b0)
    return {"final": final, "first_before": first_before, "first_after": first_after, "first_rebuilt": first_rebuilt}


def result_of(c: dict) -> dict:
    try:
        return run_bind(c) if c["kind"] == "bind" else run_edge(c)
    except Exception as e:     # the harness could not drive the case: judged as such by the spec
        return {"error": f"{type(e).__name__}: {e}"[:200]}


def errtype(r: dict) -> str:
    """Exception type names seen in a result (appended to the violation key: one key per distinct failure)."""
    errs = [r.get("bound", {}).get("error", ""), r.get("final", {}).get("error", ""), r.get("error", "")]
    return "+".join(sorted({e.split(":")[0] for e in errs if e}))


def judge_env(cases_file) -> dict:
    """The judge pass must not re-run the spec's Generate (TLC evaluates unused constant definitions too)."""
    return {"JUDGE_CASES": str(cases_file), "CASES_FILE": "none"}


def run(ctx):
    consts = {"MaxP": "2" if ctx.quick else "3", "MaxP2": "1" if ctx.quick else "2", "MaxPB": "2",
              "MaxPB0": "2" if ctx.quick else "3", "NVals": "2" if ctx.quick else "3", "Lean": "1" if ctx.quick else "0"}
    cases_file, cases = p3.generate(ctx, "Builder", consts)
    ctx.log(f"{len(cases)} cases")
    cases, results = p3.execute(ctx, cases, cases_file, result_of)
    rf = ctx.scratch / "c19_results.json"
    rf.write_text(json.dumps(results))
    bad = p3.judge(ctx, "Builder", consts, cases_file, rf, env=judge_env(cases_file))
    nbind = sum(1 for c in cases if c["kind"] == "bind")
    outcomes: dict[str, int] = {}
    for r in results:
        o = r.get("final", {}).get("outcome", "harness_error")
        outcomes[o] = outcomes.get(o, 0) + 1
    nontrivial = sum(1 for c in cases if (c["kind"] == "bind" and (c["args"] or c["kw"])) or c["kind"] == "edge")
    ctx.coverage.update({
        "evaluations": len(cases), "distinct_nontrivial": nontrivial, "exhaustive": True,
        "bind_cases": nbind, "edge_cases": len(cases) - nbind, "final_outcomes": outcomes,
        "rule": ("(quick tier: second parameter of two-parameter bind callables un-annotated, leaner two-edge cases) " if ctx.quick else "")
                + f"spec/Builder.tla!Bind: every valid signature with <= {consts['MaxPB']} parameters (positional-or-keyword / "
                "keyword-only, annotation absent/int/str, default absent/5/'d', return annotation absent (and int when nothing is bound); without defaults up to "
                f"{consts['MaxPB0']} parameters) x every positional prefix x every keyword subset of the remaining parameters "
                f"({consts['NVals']} values out of 1 / 'kv' / 'v'), in one with_values call or split in "
                f"two; !Edge1: producer t1 (return annotation absent/int/str/bool/object) x consumer t2 (one parameter annotated "
                f"absent/int/str/bool/object, or <= {consts['MaxP']} parameters annotated absent/int/str; no defaults) x one edge with source task/output, sink task, sink parameter existing or dangling, keyword or "
                f"positional; !Bind4: one parameter bound positionally / by keyword to None, 0, '', False, [], 0.0 and re-bound by a "
                "second with_values call to each of them; !Bind5: one un-annotated parameter whose bound value (positional, "
                "keyword) or default is structured - dataclass / pydantic / namedtuple instance, OrderedDict, defaultdict, "
                "set, frozenset, tuple, bytes, nested list/dict - compared by type and value; !Edge4: two and three distinct edges fanning out of one producer (one int output, or hand-made with "
                "outputs int/str, str/int) in every order, from a pool of well-formed edges and one edge per fault (unknown "
                "output, incompatible type, unknown parameter, unknown sink task); !Bind6: two or three successive with_values calls re-binding one or both positions and a "
                "keyword already bound (the later call wins per position and name); !Edge5: one or two edges (keyword, positional, unknown output) with no task, only the "
                "producer, only the consumer or both added, nodes before edges and edges before nodes; !Edge3/!Bind3: callables that additionally have a positional-only parameter, *args (named "
                "'args' or like the dangling edge name) and/or **kwargs, with keyword edges named like those; !Edge2: two edges (consumer <= {consts['MaxP2']} parameters); all enumerated by TLC; non-trivial = "
                "binds a value or has an edge; TLC evaluates Builder!Post on every (case, dumps of the builders' results)",
        "clauses": ["build_raised_on_dangling_sink_task", "build_raised_on_other_dangling_edge", "build_raised_on_unannotated_source",
                    "build_raised_on_well_formed_job", "build_raised_single_task", "with_values_raised", "accepted_ill_formed_job",
                    "job_differs_from_description", "schema_differs_from_signature", "rejected_without_problem",
                    "empty_problem_list", "earlier_job_mutated", "earlier_builder_mutated", "earlier_task_mutated",
                    "edge_less_job_not_accepted", "positional_values_misplaced", "keyword_values_misplaced",
                    "defaults_not_recorded", "harness_could_not_build"],
    })
    ctx.sample({"case": cases[nbind // 2]})
    ctx.sample({"case": cases[-1]})
    for i, names in sorted(bad.items()):
        c, r = cases[i - 1], results[i - 1]
        et = errtype(r)
        ctx.violate("post:" + "+".join(sorted(names)) + (f":{et}" if et else ""),
                    f"builders violate {sorted(names)} on case {c}", {"case": c, "result": r}, clause="+".join(sorted(names)))
    ctx.assumptions += ["bounded domain as stated in `rule`; callables are synthesised by exec of a generated `def`; values are "
                        "ints and strs; 'compatible declared type' is read as: the producer's type is the parameter's type or a subclass "
                        "of it (bool <= int <= object, str <= object), or the parameter is un-annotated; anything else (int into "
                        "bool, int vs str, object into int) is not; an un-annotated producer into an annotated parameter may be accepted or "
                        "rejected (but must not raise); keyword bindings name existing parameters only"]


def replay(ctx, rep) -> int:
    """./check C19 --replay <file>: run the recorded case through the real code again and let TLC judge it."""
    case = rep["replay"]["case"]
    consts = {"MaxP": "2", "MaxP2": "1", "MaxPB": "2", "MaxPB0": "2", "NVals": "2", "Lean": "1"}
    cf = ctx.scratch / "c19_replay_cases.json"
    cf.write_text(json.dumps([case]))
    result = result_of(case)
    rf = ctx.scratch / "c19_replay_results.json"
    rf.write_text(json.dumps([result]))
    bad = p3.judge(ctx, "Builder", consts, cf, rf, tag="replay", env=judge_env(cf))
    if bad:
        print(f"VIOLATION property=C19 replay reproduces {sorted(bad[1])}: {json.dumps(result)[:400]}")
        return 1
    print("OK property=C19 replay: the recorded case satisfies the post-condition on this tree")
    return 0
