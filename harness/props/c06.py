"""C06: spec/Acked.tla model-checked by TLC; TLC behaviours replayed into the real ReliableSender/Listener and the
real endpoint loops (Bridge.recv_events, Executor.recv_loop); malformed-frame catalogue judged by TLC."""
from __future__ import annotations

import json
import subprocess
import sys
from concurrent.futures import ThreadPoolExecutor

import logging

from .. import p3, tlc
from ..common import ROOT, MachineryError

LEVEL = "model_checking"


def _listfile(paths):
    """argv cannot carry thousands of paths: write them to a file and pass @file"""
    import tempfile
    f = tempfile.NamedTemporaryFile("w", suffix=".json", delete=False, dir=__import__("os").path.dirname(paths[0]))
    json.dump(paths, f)
    f.close()
    return "@" + f.name

INV = ["TypeOK", "AtMostOnce", "NoForgery", "AckedImpliesDelivered", "GiveUpOnlyAfterBudget", "BudgetRespected",
       "MalformedRejected", "WellFormedDelivered"]


def mc_mod(n_ctrl: int, n_exec: int) -> str:
    return (f"---- MODULE MC ----\nEXTENDS Acked\nMC_N == [ctrl |-> {n_ctrl}, exec |-> {n_exec}]\n"
            "MC_Retries == [ctrl |-> TRUE, exec |-> TRUE]\n====\n")


def consts(R: int, faults: int, ages: int = 1) -> dict:
    return {"N": "<- MC_N", "R": str(R), "Faults": str(faults), "Retries": "<- MC_Retries", "MaxAges": str(ages)}


DEFS = "MC_N == [ctrl |-> 1, exec |-> 1]\nMC_Retries == [ctrl |-> TRUE, exec |-> TRUE]\n\\* @init Init\n\\* @vars vars"

REPLAY = r'''
import sys, json, warnings, logging
warnings.filterwarnings("ignore"); logging.disable(logging.CRITICAL)
from pathlib import Path
from harness import tlc
from harness.drive import acked
files, R, out = json.load(open(sys.argv[1][1:])) if sys.argv[1].startswith("@") else json.loads(sys.argv[1]), int(sys.argv[2]), sys.argv[3]
res = []
for n, f in enumerate(files):
    beh = tlc.parse_sim_file(Path(f))
    # every fourth behaviour is replayed with messages of identical content (told apart by their Syn only)
    r = acked.replay(beh, R, same_payload=(n % 4 == 3))
    r["actions"] = [acked._js(s["last"]) for _, s in beh[1:]]
    res.append(r)
json.dump(res, open(out, "w"))
'''


SESSION_REPLAY = r'''
import sys, json, warnings, logging
warnings.filterwarnings("ignore"); logging.disable(logging.CRITICAL)
from pathlib import Path
from harness import tlc
from harness.drive import session
files, out = json.load(open(sys.argv[1][1:])) if sys.argv[1].startswith("@") else json.loads(sys.argv[1]), sys.argv[2]
res = []
for f in files:
    beh = tlc.parse_sim_file(Path(f))
    r = session.replay(beh, ["h0", "h1"])
    r["actions"] = [session._js(s["last"]) for _, s in beh[1:]]
    res.append(r)
json.dump(res, open(out, "w"))
'''


SHUTDOWN_ACTIONS = ("StartShutdown", "ExecShutdown", "CtrlShutIter", "Tick", "GiveUp")


def session_part(ctx, only_actions: tuple | None = None) -> dict:
    """spec/Session.tla: registration and shutdown handshake around the run (messages of the same acknowledged layer).
    only_actions: report conformance deviations only at these actions (C05 cares for the shutdown handshake: every registered
    executor is told to stop and waited for; the registration half belongs to C06)."""
    c = {"Host": '{"h0", "h1"}', "Faults": "1", "MaxReg": "2", "ShutdownRetries": "TRUE"}
    cfg = tlc.cfg_text(spec="FairSpec", constants=c, invariants=["TypeOK", "EnvExact", "RunsWithAll", "EndedMeansGone"],
                       properties=["AllShutDown"], constraints=["NetBounded"])
    d = tlc.stage(ctx.scratch, "session_mc", ["Session"], {"Session.cfg": cfg})
    r = tlc.check(d, "Session", workers=6, coverage=True, deadlock=False, timeout=1800, light=False)
    tlc.require_clean(r, "Session")
    for v in r.violated:
        if only_actions is None or v in ("EndedMeansGone", "AllShutDown", "Temporal"):
            ctx.violate(f"session_model:{v}", f"TLC: {v} violated in spec/Session.tla", {"tlc": r.trace[:6000]}, clause=v)
    c2 = dict(c, Faults="2")
    cfg2 = tlc.cfg_text(spec="Spec", constants=c2, constraints=["NetBounded"])
    d2 = tlc.stage(ctx.scratch, "session_sim", ["Session"], {"Session.cfg": cfg2})
    out = d2 / "b"
    out.mkdir(exist_ok=True)
    num = 200 if ctx.quick else 2000
    rs = tlc.check(d2, "Session", workers=1, timeout=900, simulate=f"file={out}/b,num={num}", depth=30, seed=ctx.seed + 21, deadlock=False)
    files = sorted(out.glob("b_*"))
    if not files:
        raise MachineryError("no behaviours from TLC simulation of Session:\n" + rs.out[-2000:])
    rf = ctx.scratch / "session_replay.json"
    p = subprocess.run([sys.executable, "-W", "ignore", "-c", SESSION_REPLAY, _listfile([str(f) for f in files]), str(rf)], cwd=ROOT,
                       stdout=subprocess.PIPE, stderr=subprocess.STDOUT, text=True, timeout=1800)
    if p.returncode != 0 or not rf.exists():
        raise MachineryError("session replay failed:\n" + p.stdout[-3000:])
    reps = json.loads(rf.read_text())
    for x in reps:
        mm = x.get("mismatch")
        if not mm:
            continue
        if "harness_error" in mm:
            raise MachineryError(f"session replay harness error: {mm}")
        fields = sorted(mm["diffs"])
        if only_actions is not None and mm["action"][0] not in only_actions:
            continue
        ctx.violate(f"session:{mm['action'][0]}:" + "+".join(fields),
                    f"real Bridge registration/shutdown deviates from spec/Session.tla at step {mm['step']} ({mm['action']}): {mm['diffs']}",
                    {"actions": x["actions"][: mm["step"]], "mismatch": mm}, clause="+".join(fields))
    return {"states": r.distinct, "transitions": r.generated, "replayed": len(reps), "steps": sum(x["steps"] for x in reps)}


def replay_part(ctx, num: int | None = None) -> tuple[int, int]:
    """TLC -simulate behaviours of spec/Acked.tla replayed into the real ReliableSender / Listener driven by the real
    Bridge.recv_events and Executor.recv_loop (also used by C02 with a smaller sample: a command must reach its executor exactly once)."""
    scratch = ctx.scratch
    # ---- P2: behaviours replayed into the real code
    R = 2
    num = num or (300 if ctx.quick else 3000)
    cfg = tlc.cfg_text(spec="Spec", constants=consts(R, 3, 2))
    d = tlc.stage(scratch, "sim", ["Acked"], {"MC.tla": mc_mod(2, 2), "MC.cfg": cfg})
    out = d / "b"
    out.mkdir(exist_ok=True)
    r = tlc.check(d, "MC", workers=1, timeout=900, simulate=f"file={out}/b,num={num}", depth=40, seed=ctx.seed + 5, deadlock=False)
    files = sorted(out.glob("b_*"))
    if not files:
        raise MachineryError("TLC simulation produced no behaviours:\n" + r.out[-2000:])
    rf = scratch / "replay.json"
    p = subprocess.run([sys.executable, "-W", "ignore", "-c", REPLAY, _listfile([str(f) for f in files]), str(R), str(rf)],
                       cwd=ROOT, stdout=subprocess.PIPE, stderr=subprocess.STDOUT, text=True, timeout=1800)
    if p.returncode != 0 or not rf.exists():
        raise MachineryError("replay failed:\n" + p.stdout[-3000:])
    reps = json.loads(rf.read_text())
    steps = sum(x["steps"] for x in reps)
    ctx.log(f"replayed {len(reps)} behaviours, {steps} steps")
    for x in reps:
        mm = x.get("mismatch")
        if not mm:
            continue
        if "harness_error" in mm:
            raise MachineryError(f"replay harness error: {mm}")
        fields = sorted(mm["diffs"])
        act = mm["action"]
        key = "conformance:" + str(act[0]) + (":" + str(act[1]) if len(act) > 1 and act[0] == "Iter" else "") + ":" + "+".join(fields)
        ctx.violate(key, f"real endpoints deviate from spec/Acked.tla at step {mm['step']} ({act}): {mm['diffs']}",
                    {"actions": x["actions"][: mm["step"]], "mismatch": mm}, clause="+".join(fields))
    ctx.acked_sample = reps[0]["actions"][:14] if reps else []
    return len(reps), steps


def senders_part(ctx) -> None:
    """Several senders into one real Listener, incl. long histories: each (sender, idx) is delivered exactly once and acknowledged
    to its sender (spec/Acked.tla, section "several senders"). Also used by C02: a command delivered twice is dispatched twice."""
    from ..drive import acked
    scratch = ctx.scratch
    cf2, seqs = p3.generate(ctx, "Acked", {"N": "<- MC_N", "R": "2", "Faults": "0", "Retries": "<- MC_Retries", "MaxAges": "0"},
                            modules=["Acked"], tag="senders", op="GenerateSenders", defs=DEFS, env={"PASS": "senders"})
    res2 = acked.multi_sender(seqs)
    rf2 = scratch / "sender_results.json"
    rf2.write_text(json.dumps(res2))
    bad2 = p3.judge(ctx, "Acked", {"N": "<- MC_N", "R": "2", "Faults": "0", "Retries": "<- MC_Retries", "MaxAges": "0"}, cf2, rf2,
                    modules=["Acked"], tag="sendersj", op="JudgeSenders", defs=DEFS, env={"PASS": "sendersj"})
    for i, names in sorted(bad2.items()):
        ctx.violate("senders:" + "+".join(sorted(names)), f"one Listener, deliveries {seqs[i-1]}: {sorted(names)}; observed {res2[i-1]}",
                    {"deliveries": seqs[i - 1], "observed": res2[i - 1]}, clause="+".join(sorted(names)))
    ctx.coverage["multi_sender_sequences"] = len(seqs)


def run(ctx):
    logging.disable(logging.CRITICAL)
    scratch = ctx.scratch
    runs = [("n11_f2", 1, 1, 2, 2, True), ("n21_f1", 2, 1, 2, 1, True)] if ctx.quick else \
           [("n11_f3", 1, 1, 2, 3, True), ("n21_f2", 2, 1, 2, 2, True), ("n22_f1", 2, 2, 2, 1, False), ("n11_r3", 1, 1, 3, 2, True)]

    def mc(run):
        name, nc, ne, R, faults, live = run
        # "a long time passes" is explored on the smallest instance only (it doubles the state space)
        cfg = tlc.cfg_text(spec="FairSpec" if live else "Spec", constants=consts(R, faults, 1 if (nc, ne) == (1, 1) else 0), invariants=INV,
                           properties=["ExactlyOnceOrRaise"] if live else None, view=None if live else "view")
        d = tlc.stage(scratch, "mc_" + name, ["Acked"], {"MC.tla": mc_mod(nc, ne), "MC.cfg": cfg})
        r = tlc.check(d, "MC", workers=6, coverage=True, deadlock=False, timeout=3000, light=False, heap="8g")
        tlc.require_clean(r, "Acked " + name)
        return name, r

    with ThreadPoolExecutor(max_workers=2) as tp:
        results = list(tp.map(mc, runs))
    states = sum(r.distinct for _, r in results)
    trans = sum(r.generated for _, r in results)
    cov: dict[str, int] = {}
    for name, r in results:
        for a, n in r.coverage.items():
            cov[a] = cov.get(a, 0) + n
        for v in r.violated:
            ctx.violate(f"model:{v}", f"TLC: {v} violated in run {name} of spec/Acked.tla",
                        {"run": name, "tlc": r.trace[:8000]}, clause=v)
    ctx.log(f"model checking: {states} states")
    n_reps, steps = replay_part(ctx)
    reps = [None] * n_reps
    # ---- malformed / well-formed frame shapes through the real Listener, judged by TLC
    cases_file, shapes = p3.generate(ctx, "Acked", {"N": "<- MC_N", "R": "2", "Faults": "0", "Retries": "<- MC_Retries", "MaxAges": "0"},
                                     modules=["Acked"], tag="shapes", defs=DEFS, env={"PASS": "shapes"})
    # (p3's wrapper extends Acked; constants come from a tiny companion module)
    from ..drive import acked
    res = acked.classify_shapes(shapes)
    resf = scratch / "shape_results.json"
    resf.write_text(json.dumps(res))
    bad = p3.judge(ctx, "Acked", {"N": "<- MC_N", "R": "2", "Faults": "0", "Retries": "<- MC_Retries", "MaxAges": "0"}, cases_file, resf,
                   modules=["Acked"], tag="shapesj", defs=DEFS, env={"PASS": "shapesj"})
    for i, names in sorted(bad.items()):
        ctx.violate("frames:" + "+".join(sorted(names)), f"Listener._recv_one on frame shape {res[i-1]['shape']} "
                    f"(seen={res[i-1]['seen']}): {sorted(names)}", {"case": res[i - 1]}, clause="+".join(sorted(names)))
    senders_part(ctx)
    sess = session_part(ctx)
    states += sess["states"]
    trans += sess["transitions"]
    ctx.coverage.update({
        "session_model_states": sess["states"], "session_behaviours_replayed": sess["replayed"], "session_steps": sess["steps"],
        "states": states, "transitions": trans, "traces_validated_against_impl": len(reps), "replayed_steps": steps,
        "frame_shapes_checked": len(res),
        "model_runs": [{"name": n, "distinct": r.distinct, "depth": r.depth} for n, r in results],
        "action_coverage": {a: n for a, n in sorted(cov.items()) if a in ("Send", "Iter", "Tick", "Age", "Drop", "Dup")},
        "rule": "TLC exhausts spec/Acked.tla (both directions, drop/dup/reorder of data and ack frames, retry budget R) for "
                "the listed constants incl. the liveness property under fair loops; TLC -simulate behaviours (2 messages per "
                "direction, 3 faults) are replayed into the real ReliableSender/Listener driven by the real Bridge.recv_events "
                "and Executor.recv_loop over an in-memory network with a virtual clock, comparing idx, inflight (remaining, "
                "staleness), frames on the wire, acked sets, delivered messages and raise after every step; every multipart "
                "shape of <= 4 parts is fed to the real Listener and judged by Acked!RecvOne",
    })
    ctx.sample({"behaviour": getattr(ctx, "acked_sample", [])})
    ctx.assumptions += ["max_retries_per_message is patched to the model's R (2) in the harness process; the code constant 20 "
                        "only scales the budget", "one executor; the Syn address component is constant per direction",
                        "heartbeats are switched off in the harness (they are ordinary messages of the same layer)"]
