"""C07: spec/Transfer.tla model-checked by TLC; TLC behaviours replayed into two real DataServer objects."""
from __future__ import annotations

import json
import logging
import subprocess
import sys
from concurrent.futures import ThreadPoolExecutor

from .. import tlc
from ..common import ROOT, MachineryError

LEVEL = "model_checking"


def _listfile(paths):
    """argv cannot carry thousands of paths: write them to a file and pass @file"""
    import tempfile
    f = tempfile.NamedTemporaryFile("w", suffix=".json", delete=False, dir=__import__("os").path.dirname(paths[0]))
    json.dump(paths, f)
    f.close()
    return "@" + f.name

INV = ["TypeOK", "BytesEqual", "AnnounceOnce", "AnnouncedIsStored", "NoResurrection", "FetchExact", "NoFailure"]


def C(k, ds, src, tgt):
    return {"k": k, "ds": ds, "src": src, "tgt": tgt}


INSTANCES = {
    "xfer_fetch_purge": {"cmds": [C("x", "d", "h0", "h1"), C("f", "d", "h1", "ctrl"), C("p", "d", "h0", "")], "init": {"h0": ["d"], "h1": []}, "ds": ["d"]},
    "redundant_then_purge_target": {"cmds": [C("x", "d", "h0", "h1"), C("x", "d", "h0", "h1"), C("p", "d", "h1", "")], "init": {"h0": ["d"], "h1": []}, "ds": ["d"]},
    "fetch_xfer_purge_both": {"cmds": [C("f", "d", "h0", "ctrl"), C("x", "d", "h0", "h1"), C("p", "d", "h0", ""), C("p", "d", "h1", "")], "init": {"h0": ["d"], "h1": []}, "ds": ["d"]},
    "two_datasets_cross": {"cmds": [C("x", "d", "h0", "h1"), C("x", "e", "h1", "h0"), C("p", "d", "h0", ""), C("f", "e", "h0", "ctrl")], "init": {"h0": ["d"], "h1": ["e"]}, "ds": ["d", "e"]},
}


def mc_module(inst) -> str:
    cmds = ", ".join('[k |-> "%s", ds |-> "%s", src |-> "%s", tgt |-> "%s"]' % (c["k"], c["ds"], c["src"], c["tgt"]) for c in inst["cmds"])
    init = ", ".join('%s |-> %s' % (h, tlc.tla(set(v)) if v else "{}") for h, v in inst["init"].items())
    return f"---- MODULE MC ----\nEXTENDS Transfer\nMC_Cmds == << {cmds} >>\nMC_Init == [{init}]\n====\n"


def consts(inst, faults):
    return {"Host": '{"h0", "h1"}', "DSet": tlc.tla(set(inst["ds"])), "Cmds": "<- MC_Cmds", "Initial": "<- MC_Init", "Faults": str(faults)}


REPLAY = r'''
import sys, json, warnings, logging
warnings.filterwarnings("ignore"); logging.disable(logging.CRITICAL)
from pathlib import Path
from harness import tlc
from harness.drive import transfer
files, inst, out = json.load(open(sys.argv[1][1:])) if sys.argv[1].startswith("@") else json.loads(sys.argv[1]), json.loads(sys.argv[2]), sys.argv[3]
res = []
for f in files:
    beh = tlc.parse_sim_file(Path(f))
    r = transfer.replay(beh, ["h0", "h1"], inst["ds"], inst["init"], inst["cmds"])
    r["actions"] = [transfer._js(s["last"]) for _, s in beh[1:]]
    res.append(r)
json.dump(res, open(out, "w"))
'''


def run(ctx):
    logging.disable(logging.CRITICAL)
    names = ["xfer_fetch_purge", "redundant_then_purge_target"] if ctx.quick else list(INSTANCES)
    # (instance, fault budget, check liveness): liveness runs cannot hide the history variable behind a VIEW, so they are smaller
    runs = [("xfer_fetch_purge", 1, False), ("redundant_then_purge_target", 1, False), ("xfer_fetch_purge", 0, True)] if ctx.quick else \
           [(n, 2, False) for n in INSTANCES] + [("xfer_fetch_purge", 1, True), ("redundant_then_purge_target", 1, True)]

    def mc(run):
        name, faults, live = run
        inst = INSTANCES[name]
        cfg = tlc.cfg_text(spec="FairSpec" if live else "Spec", constants=consts(inst, faults), invariants=INV,
                           properties=["EventuallyDone"] if live else None, constraints=["NetBounded"],
                           view=None if live else "view")
        d = tlc.stage(ctx.scratch, f"mc_{name}_{faults}_{int(live)}", ["Transfer"], {"MC.tla": mc_module(inst), "MC.cfg": cfg})
        r = tlc.check(d, "MC", workers=6, coverage=True, deadlock=False, timeout=3000, light=False, heap="8g")
        tlc.require_clean(r, "Transfer " + name)
        return f"{name}/faults={faults}" + ("/liveness" if live else ""), r

    with ThreadPoolExecutor(max_workers=2) as tp:
        results = list(tp.map(mc, runs))
    cov: dict[str, int] = {}
    for name, r in results:
        for a, n in r.coverage.items():
            cov[a] = cov.get(a, 0) + n
        for v in r.violated:
            ctx.violate(f"model:{v}", f"TLC: {v} violated on instance {name} of spec/Transfer.tla", {"instance": name, "tlc": r.trace[:8000]}, clause=v)
    ctx.log("model checking:", {n: r.distinct for n, r in results})
    num = 150 if ctx.quick else 1500
    reps = []
    for name in (names if ctx.quick else list(INSTANCES)):
        inst = INSTANCES[name]
        cfg = tlc.cfg_text(spec="Spec", constants=consts(inst, 3), constraints=["NetBounded"])
        d = tlc.stage(ctx.scratch, "sim_" + name, ["Transfer"], {"MC.tla": mc_module(inst), "MC.cfg": cfg})
        out = d / "b"
        out.mkdir(exist_ok=True)
        rs = tlc.check(d, "MC", workers=1, timeout=900, simulate=f"file={out}/b,num={num}", depth=45, seed=ctx.seed + 9, deadlock=False)
        files = sorted(out.glob("b_*"))
        if not files:
            raise MachineryError("no behaviours from TLC simulation:\n" + rs.out[-2000:])
        rf = ctx.scratch / f"replay_{name}.json"
        p = subprocess.run([sys.executable, "-W", "ignore", "-c", REPLAY, _listfile([str(f) for f in files]), json.dumps(inst), str(rf)],
                           cwd=ROOT, stdout=subprocess.PIPE, stderr=subprocess.STDOUT, text=True, timeout=1800)
        if p.returncode != 0 or not rf.exists():
            raise MachineryError("replay failed:\n" + p.stdout[-3000:])
        for x in json.loads(rf.read_text()):
            x["instance"] = name
            reps.append(x)
    for x in reps:
        mm = x.get("mismatch")
        if not mm:
            continue
        if "harness_error" in mm:
            raise MachineryError(f"replay harness error on {x['instance']}: {mm}")
        fields = sorted(mm["diffs"])
        ctx.violate(f"conformance:{mm['action'][0]}:" + "+".join(fields),
                    f"real data servers deviate from spec/Transfer.tla at step {mm['step']} ({mm['action']}) on {x['instance']}: {mm['diffs']}",
                    {"instance": x["instance"], "actions": x["actions"][: mm["step"]], "mismatch": mm}, clause="+".join(fields))
    ctx.coverage.update({
        "states": sum(r.distinct for _, r in results), "transitions": sum(r.generated for _, r in results),
        "traces_validated_against_impl": len(reps), "replayed_steps": sum(x["steps"] for x in reps),
        "model_runs": [{"name": n, "distinct": r.distinct, "depth": r.depth} for n, r in results],
        "action_coverage": {a: n for a, n in sorted(cov.items()) if a in ("Issue", "SendDone", "StoreDone", "Loop", "PurgeFinish", "CtlRecv", "Tick", "Drop", "Dup")},
        "rule": "TLC exhausts spec/Transfer.tla per command sequence (transmit / fetch / purge on 2 hosts + controller, drop/dup of payload "
                "and ack frames, retry after the grace period, purge blocking on running futures) incl. eventual completion under fairness; "
                "TLC -simulate behaviours are replayed into two real DataServer objects + a real controller Listener with real payload "
                "bytes, comparing stores (bytes and deser_fun), awaiting_confirmation, futures, acks, invalid, Listener.acked, frames "
                "in flight, announcements, fetched payloads and failures after every step",
    })
    ctx.sample({"instance": reps[0]["instance"], "behaviour": reps[0]["actions"][:12]})
    ctx.assumptions += ["commands and purges reach a data server exactly once (acknowledged layer, C06); the controller respects C04 "
                        "(command sequences are issued only when Ready)", "at most two identical frames in flight (state constraint)",
                        "thread-pool capacity (2) is not modelled; futures complete in any order"]
    # the data server's two pool threads share one process: the real shm client used from several threads at once
    from ..drive.shm_clients import run_tier
    run_tier(ctx, "C07")

