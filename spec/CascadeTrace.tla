---------------------------- MODULE CascadeTrace ----------------------------
(***************************************************************************)
(* Trace validation for Cascade.tla (binding pattern P1).                  *)
(*                                                                         *)
(* A batch of executions of the REAL controller, recorded by               *)
(* harness/sim/simbridge.py, is replayed.  For every event the successor   *)
(* state prescribed by the specification (XNext) is computed, compared     *)
(* field by field with the projection of the implementation's State taken  *)
(* at the linearisation point, and the implementation's value is adopted   *)
(* so that one bookkeeping error yields one report.  Verdicts are total:   *)
(* every event is consumed, violated clauses are accumulated by *name* in  *)
(* `viol` (pre-conditions of the spec action, projection differences,      *)
(* ground-truth flags raised by the spec's executor model, state           *)
(* invariants of Cascade.tla evaluated after every step), and one line per *)
(* trace is printed at the end.                                            *)
(***************************************************************************)
EXTENDS Cascade, Json, IOUtils

Traces == JsonDeserialize(IOEnv.TRACE_FILE)

VARIABLES tid, l, viol,
          rep    \* what the controller must have reported to the gateway since the last end of a wait (see "reporting" below)
tvars == <<c, x, g, tid, l, viol, rep>>

T == Traces[tid]
E == T[l]
SetOf(s) == {s[i] : i \in DOMAIN s}
DSof(a) == <<a[1], a[2]>>
Has(f)  == "st" \in DOMAIN E /\ f \in DOMAIN E.st

\* ---- the implementation's projected state (delta encoded: a field that is absent did not change)
ImplIdle       == IF Has("idle") THEN SetOf(E.st.idle) ELSE c.idle
ImplOngoing    == IF Has("ongoing") THEN [w \in Worker |-> IF w \in DOMAIN E.st.ongoing THEN SetOf(E.st.ongoing[w]) ELSE {}] ELSE c.ongoing
ImplComputable == IF Has("computable") THEN SetOf(E.st.computable) ELSE c.computable
ImplDsHost     == IF Has("dsHost")
                  THEN [d \in DS |-> [h \in Host |->
                          LET m == {a \in SetOf(E.st.dsHost) : DSof(a) = d /\ a[3] = h}
                          IN IF m = {} THEN "missing" ELSE (CHOOSE a \in m : TRUE)[4]]]
                  ELSE c.dsHost
ImplWprep      == IF Has("wprep") THEN {<<DSof(a), a[3]>> : a \in SetOf(E.st.wprep)} ELSE c.wprep
ImplFetchQ     == IF Has("fetchQ") THEN [i \in DOMAIN E.st.fetchQ |-> <<DSof(E.st.fetchQ[i]), E.st.fetchQ[i][3]>>] ELSE c.fetchQ
ImplPurgeQ     == IF Has("purgeQ") THEN {DSof(a) : a \in SetOf(E.st.purgeQ)} ELSE c.purgeQ
ImplFetched    == IF Has("fetched") THEN {DSof(a) : a \in SetOf(E.st.fetched)} ELSE c.fetched
ImplHostComp   == IF Has("hostComp") THEN [h \in Host |-> E.st.hostComp[h]] ELSE c.hostComp
ImplWeight     == IF Has("weight") THEN [cc \in Comps |-> E.st.weight[cc]] ELSE c.weight
ImplW2t        == IF Has("w2tValues") THEN [cc \in Comps |-> SetOf(E.st.w2tValues[cc])] ELSE c.w2tValues
ImplDistKeys   == IF Has("distKeys") THEN [cc \in Comps |-> SetOf(E.st.distKeys[cc])] ELSE c.distKeys
ImplOvhKeys    == IF Has("ovhKeys") THEN {<<a[1], a[2]>> : a \in SetOf(E.st.ovhKeys)} ELSE c.ovhKeys
ImplDone       == IF Has("done") THEN SetOf(E.st.done) ELSE c.done

Impl(cs) == [cs EXCEPT !.idle = ImplIdle, !.ongoing = ImplOngoing, !.computable = ImplComputable,
                       !.dsHost = ImplDsHost, !.wprep = ImplWprep, !.fetchQ = ImplFetchQ, !.purgeQ = ImplPurgeQ,
                       !.fetched = ImplFetched, !.hostComp = ImplHostComp, !.weight = ImplWeight,
                       !.w2tValues = ImplW2t, !.distKeys = ImplDistKeys, !.ovhKeys = ImplOvhKeys, !.done = ImplDone]

Rank(st) == IF st = "available" THEN 2 ELSE IF st = "preparing" THEN 1 ELSE 0
Diff(cs, is) ==
     (IF cs.idle = is.idle THEN {} ELSE {"P_idle"})
\cup (IF cs.ongoing = is.ongoing THEN {} ELSE {"P_ongoing"})
\cup (IF cs.computable = is.computable THEN {} ELSE {"P_computable"})
\* a location the implementation ranks LOWER than the specification (available -> preparing / missing) can leave a task
\* without a transfer source (C03: "dataset not found in any host"); one it ranks HIGHER can name a source that lacks it (C04)
\cup (IF \E d \in DS, h \in Host : Rank(is.dsHost[d][h]) < Rank(cs.dsHost[d][h]) THEN {"P_dsHost_lost"} ELSE {})
\cup (IF \E d \in DS, h \in Host : Rank(is.dsHost[d][h]) > Rank(cs.dsHost[d][h]) THEN {"P_dsHost_phantom"} ELSE {})
\cup (IF cs.wprep = is.wprep THEN {} ELSE {"I_wprep"})
\cup (IF Rng(is.fetchQ) \subseteq Rng(cs.fetchQ) THEN {} ELSE {"P_fetchQ_extra"})
\cup (IF Rng(cs.fetchQ) \subseteq Rng(is.fetchQ) THEN {} ELSE {"P_fetchQ_missing"})
\cup (IF Rng(cs.fetchQ) = Rng(is.fetchQ) /\ cs.fetchQ # is.fetchQ THEN {"I_fetchQ_order"} ELSE {})
\cup (IF is.purgeQ \subseteq cs.purgeQ THEN {} ELSE {"P_purgeQ_extra"})
\cup (IF cs.purgeQ \subseteq is.purgeQ THEN {} ELSE {"I_purgeQ_missing"})
\cup (IF cs.fetched = is.fetched THEN {} ELSE {"P_fetched"})
\cup (IF cs.hostComp = is.hostComp THEN {} ELSE {"P_hostComp"})
\cup (IF cs.weight = is.weight THEN {} ELSE {"P_weight"})
\cup (IF cs.w2tValues = is.w2tValues THEN {} ELSE {"I_w2tValues"})
\cup (IF cs.distKeys = is.distKeys THEN {} ELSE {"I_distKeys"})
\cup (IF cs.ovhKeys = is.ovhKeys THEN {} ELSE {"I_ovhKeys"})
\cup (IF cs.done = is.done THEN {} ELSE {"P_done"})
\cup (IF Has("consistent") /\ ~E.st.consistent THEN {"P_inconsistent_indexes"} ELSE {})
\cup (IF Has("remaining") /\ E.st.remaining # Cardinality(Task \ is.done) THEN {"P_remaining"} ELSE {})

\* names of the state invariants of Cascade.tla that do not hold
BadInv ==
     (IF DispatchOnce THEN {} ELSE {"DispatchOnce"})
\cup (IF DispatchedAll THEN {} ELSE {"DispatchedAll"})
\cup (IF IdleIsFree THEN {} ELSE {"IdleIsFree"})
\cup (IF KeysPresent THEN {} ELSE {"KeysPresent"})
\cup (IF DeliveredAll THEN {} ELSE {"DeliveredAll"})
\cup (IF ChannelsDrained THEN {} ELSE {"ChannelsDrained"})

Tag(S) == {ToString(l) \o ":" \o E.ev \o ":" \o n : n \in S}

Adv == l' = l + 1 /\ tid' = tid

(***************************************************************************)
(* Reporting to the gateway (cascade.controller.report.Reporter, called    *)
(* from controller.notify and controller.impl.run): one progress report    *)
(* per completed task carrying 1 - remaining/total (two decimals of a      *)
(* percentage), one result report per payload handed to the controller,    *)
(* carrying the bytes that decode to the sequential value, one shutdown     *)
(* report at the end.  `rep` is the sequence expected since the last        *)
(* `endwait`; the recorder logs what the real Reporter pushed.             *)
(***************************************************************************)
NTask == Cardinality(Task)
Abs(i) == IF i < 0 THEN 0 - i ELSE i
\* bp (basis points, as logged) is the percentage of `done` out of NTask rounded to two decimals
RoundedTo(bp, done) == 2 * Abs(bp * NTask - done * 10000) <= NTask
RepMatches(want, got) ==
  /\ want.k = got.k
  /\ want.k = "result" => want.d = DSof(got.d)
  /\ want.k = "progress" => RoundedTo(got.bp, want.done)
ReportClauses(want, got) ==
  LET res(sq) == SelectSeq(sq, LAMBDA r : r.k = "result")
      wr == res(want)   gr == res(got)
  IN (IF \E i \in DOMAIN gr : ~gr[i].ok THEN {"uploaded_result_differs_from_sequential"} ELSE {})
  \cup (IF Len(wr) = Len(gr) /\ \A i \in DOMAIN wr : wr[i].d = DSof(gr[i].d) THEN {} ELSE {"result_uploads_differ"})
  \cup (IF Len(want) = Len(got) /\ \A i \in DOMAIN want : RepMatches(want[i], got[i]) THEN {} ELSE {"I_reports_differ"})
  \cup (IF \A i \in DOMAIN got : got[i].meta THEN {} ELSE {"I_report_envelope"})
Reported(want) == IF "reports" \in DOMAIN E THEN ReportClauses(want, E.reports) ELSE {}
\* a controller step: adopt the implementation's projection, record guards + differences
CtrlStepR(n, guards, r) ==
  LET is == Impl(n.c) IN
  /\ c' = is /\ x' = n.x /\ g' = n.g /\ Adv /\ rep' = r
  /\ viol' = viol \cup Tag(guards \cup Diff(n.c, is)) \cup Tag(n.g.flags \ g.flags) \cup Tag(BadInv')
CtrlStep(n, guards) == CtrlStepR(n, guards, rep)
\* a step with no projection
PlainStepR(n, guards, r) ==
  /\ c' = n.c /\ x' = n.x /\ g' = n.g /\ Adv /\ rep' = r
  /\ viol' = viol \cup Tag(guards) \cup Tag(n.g.flags \ g.flags) \cup Tag(BadInv')
PlainStep(n, guards) == PlainStepR(n, guards, rep)
Skip(names) == UNCHANGED <<c, x, g, rep>> /\ Adv /\ viol' = viol \cup Tag(names)
Same == Pack(c, x, g)

SilentPending == c.pc = "wait" /\ ~HasAwaitable(c)
Ev(n) == l <= Len(T) /\ E.ev = n
CEv(n) == Ev(n) /\ ~SilentPending

TAssign ==
  /\ CEv("assign")
  /\ IF E.w \notin Worker \/ E.t \notin Task \/ E.ntasks # 1
        \/ \E i \in DOMAIN E.prep : DSof(E.prep[i]) \notin DS \/ E.prep[i][3] \notin Host
     THEN Skip({"struct_assign_unknown_or_fused"})
     ELSE LET prep == [i \in DOMAIN E.prep |-> <<DSof(E.prep[i]), E.prep[i][3]>>]
              outsOk == {DSof(a) : a \in SetOf(E.outs)} = OutsOf(E.t)
          IN CtrlStep(AssignNext(E.w, E.t, prep),
                      AssignGuards(E.w, E.t, prep) \cup (IF outsOk THEN {} ELSE {"assign_publish_set_differs"}))

TStartMigrate == CEv("startmigrate") /\ CtrlStep(StartMigrateNext, StartMigrateGuards
                    \cup (IF AssignableNow THEN {"I_migrate_before_step1_exhausted"} ELSE {}))
TMigrate ==
  /\ CEv("migrate")
  /\ IF E.h \notin Host \/ E.c \notin Comps THEN Skip({"struct_migrate_unknown"})
     ELSE CtrlStep(MigrateNext(E.h, E.c), MigrateGuards(E.h, E.c))
TPlan == CEv("plan") /\ CtrlStep(EndAssignNext, EndAssignGuards
                    \cup (IF AssignableNow THEN {"I_plan_while_assignable"} ELSE {})
                    \cup (IF E.n = Cardinality(c.round) THEN {} ELSE {"plan_assignment_count"}))
TFlush ==
  /\ CEv("flush")
  /\ LET fseq == [i \in DOMAIN E.fetches |-> <<DSof(E.fetches[i]), E.fetches[i][3]>>]
         pseq == [i \in DOMAIN E.purges |-> <<E.purges[i][1], <<E.purges[i][2], E.purges[i][3]>> >>]
         gs   == (IF c.pc = "flush" THEN {} ELSE {"flush_pc"})
            \cup (IF fseq = c.fetchQ THEN {} ELSE {"flush_fetches_differ"})
            \cup (IF Rng(pseq) \subseteq FlushPurgePairs THEN {} ELSE {"flush_purges_extra"})
            \cup (IF FlushPurgePairs \subseteq Rng(pseq) THEN {} ELSE {"I_flush_purges_missing"})
     IN IF \E p \in Rng(fseq) : p[1] \notin DS \/ p[2] \notin Host THEN Skip({"struct_flush_unknown"})
        ELSE IF \E p \in Rng(pseq) : p[2] \notin DS \/ p[1] \notin Host THEN Skip({"struct_flush_unknown"})
        ELSE CtrlStep(FlushNext(fseq, pseq), gs)

TRecvEvent ==
  /\ Ev("recvevent")
  /\ IF E.h \notin Host \/ x.events[E.h] = <<>> THEN Skip({"struct_no_such_event"})
     ELSE LET e == Head(x.events[E.h]) IN
          IF e.d # DSof(E.d) \/ e.w # E.w \/ e.x # E.x THEN Skip({"struct_event_differs"})
          ELSE LET n == RecvEventNext(E.h) IN
               PlainStepR(n, RecvGuards, IF n.c.done # c.done THEN Append(rep, [k |-> "progress", done |-> Cardinality(n.c.done), d |-> <<"", "">>])
                                         ELSE rep)
TRecvPayload ==
  /\ Ev("recvpayload")
  /\ LET p == <<DSof(E.d), E.src>> IN
     IF p \notin x.payloads THEN Skip({"struct_no_such_payload"})
     ELSE PlainStepR(RecvPayloadNext(p), RecvGuards, Append(rep, [k |-> "result", done |-> 0, d |-> p[1]]))
TEndWait == Ev("endwait") /\ CtrlStepR(EndWaitNext, EndWaitGuards \cup Reported(rep), <<>>)
\* the loop condition evaluated without a wait (nothing awaitable) leaves no event
TSilent ==
  /\ l <= Len(T) /\ SilentPending /\ E.ev \notin {"recvevent", "recvpayload", "endwait"}
  /\ LET n == EndWaitNext IN
     /\ c' = n.c /\ x' = n.x /\ g' = n.g /\ UNCHANGED <<l, tid, rep>>
     /\ viol' = viol \cup Tag(n.g.flags \ g.flags)

THostDeliver ==
  /\ Ev("hostdeliver")
  /\ IF E.h \notin Host \/ x.toHost[E.h] = <<>> THEN Skip({"struct_hostdeliver"})
     ELSE PlainStep(HostDeliverNext(E.h), {})
TTake ==
  /\ Ev("take")
  /\ IF E.w \notin Worker \/ x.running[E.w] # <<>> \/ x.inbox[E.w] = <<>> THEN Skip({"struct_take"})
     ELSE PlainStep(WorkerTakeNext(E.w), {})
TPublish ==
  /\ Ev("publish")
  /\ IF E.w \notin Worker \/ x.running[E.w] = <<>> THEN Skip({"struct_publish"})
     ELSE IF <<x.running[E.w][1], Outs[x.running[E.w][1]][x.running[E.w][2]]>> # DSof(E.d)
          THEN Skip({"published_output_out_of_order"})
          ELSE PlainStep(WorkerPublishNext(E.w), {})
TDataCmd ==
  /\ Ev("datacmd")
  /\ IF E.h \notin Host \/ x.toData[E.h] = <<>> THEN Skip({"struct_datacmd"})
     ELSE LET m == Head(x.toData[E.h]) IN
          IF m.k # E.k \/ m.d # DSof(E.d) \/ m.tgt # E.tgt THEN Skip({"struct_datacmd_differs"})
          ELSE PlainStep(DataCmdNext(E.h), {})
TStore ==
  /\ Ev("store")
  /\ LET p == <<DSof(E.d), E.src, E.tgt>> IN
     IF p \notin x.inflight THEN Skip({"struct_store"}) ELSE PlainStep(DataStoreNext(p), {})

TShutdown == Ev("shutdown") /\ Skip({})
TDone ==
  /\ CEv("done")
  /\ Skip((IF c.pc = "done" THEN {} ELSE {"returned_before_spec_done"})
       \cup (IF E.wrong = <<>> THEN {} ELSE {"final_value_differs_from_sequential"})
       \cup (IF E.missing = <<>> THEN {} ELSE {"requested_output_missing"})
       \cup (IF E.shutdown THEN {} ELSE {"no_shutdown"})
       \cup (IF E.remaining = 0 THEN {} ELSE {"remaining_not_zero"})
       \cup (IF Ext \subseteq c.fetched THEN {} ELSE {"DeliveredAll"})
       \cup Reported(<<[k |-> "shutdown", done |-> 0, d |-> <<"", "">>]>>))
\* a run that does not end normally never hands the requested datasets to its caller
TAbnormal ==
  /\ l <= Len(T) /\ E.ev \in {"crash", "spin", "deadlock", "taskfailure", "abort"}
  /\ Skip({"event_" \o E.ev} \cup (IF Ext # {} THEN {"requested_outputs_never_returned"} ELSE {}))
Known == {"assign", "startmigrate", "migrate", "plan", "flush", "recvevent", "recvpayload", "endwait", "hostdeliver",
          "take", "publish", "datacmd", "store", "shutdown", "done", "crash", "spin", "deadlock", "taskfailure", "abort"}
TUnknown == l <= Len(T) /\ E.ev \notin Known /\ Skip({"struct_unknown_event"})

TFinish ==
  /\ l = Len(T) + 1
  /\ PrintT("R|" \o ToString(tid) \o "|" \o ToString(viol))
  /\ l' = l + 1 /\ UNCHANGED <<c, x, g, tid, viol, rep>>

TInit == Init /\ tid \in 1..Len(Traces) /\ l = 1 /\ viol = {} /\ rep = <<>>
TNext == \/ TAssign \/ TStartMigrate \/ TMigrate \/ TPlan \/ TFlush \/ TRecvEvent \/ TRecvPayload \/ TEndWait \/ TSilent
         \/ THostDeliver \/ TTake \/ TPublish \/ TDataCmd \/ TStore \/ TShutdown \/ TDone \/ TAbnormal \/ TUnknown
         \/ TFinish
TSpec == TInit /\ [][TNext]_tvars
=============================================================================
