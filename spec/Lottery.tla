------------------------------- MODULE Lottery -------------------------------
(***************************************************************************)
(* cascade.shm.algorithms.lottery, the eviction order of the shared-memory *)
(* store, as a function: candidates in, winners out.  Shm.tla transcribes  *)
(* it for strictly increasing time stamps (its logical clock ticks with    *)
(* every creation and retrieval); here the stamps are arbitrary, so two    *)
(* candidates may carry EQUAL stamps (a coarse or frozen clock).  Binding  *)
(* pattern P3: TLC enumerates the cases, the harness calls the real        *)
(* function, TLC evaluates Post.                                           *)
(*                                                                         *)
(* What C09 needs of it: it never fails (a failure inside                  *)
(* page_out_at_least leaves the batch lock held: every later request that  *)
(* needs an eviction answers `wait` for ever), names only candidates, each *)
(* at most once, and frees enough whenever the candidates suffice.  The    *)
(* order (once-read oldest first, many-read least recently read first,     *)
(* never-read newest first, ties in any order) is the documented policy    *)
(* and reported as informational clauses (prefix I_).                     *)
(***************************************************************************)
EXTENDS Naturals, Sequences, FiniteSets, TLC, Json, IOUtils, SequencesExt, FiniteSetsExt

CONSTANTS MaxN,      \* candidates per case: 0..MaxN
          MaxStamp,  \* time stamps 1..MaxStamp (0 = never retrieved)
          MaxSize

Key(i) == "k" \o ToString(i)
\* a candidate: created, first and last retrieval (0/0 = never; first = last = once; first < last = several times), size
Cand == {e \in [created : 1..MaxStamp, first : 0..MaxStamp, last : 0..MaxStamp, size : 1..MaxSize] :
            (e.first = 0) = (e.last = 0) /\ e.first <= e.last /\ (e.first > 0 => e.first >= e.created)}
Cases == UNION {{[ents |-> es, amount |-> a] : es \in [1..n -> Cand], a \in 1..(MaxSize * (n + 1))} : n \in 0..MaxN}
CaseJson(c) == [amount |-> c.amount,
                ents |-> [i \in DOMAIN c.ents |-> [key |-> Key(i), created |-> c.ents[i].created, first |-> c.ents[i].first,
                                                   last |-> c.ents[i].last, size |-> c.ents[i].size]]]
Generate == IF IOEnv.PASS # "generate" THEN TRUE
            ELSE JsonSerialize(IOEnv.CASES_FILE, [i \in 1..Cardinality(Cases) |-> CaseJson(SetToSeq(Cases)[i])])

Category(e) == IF e.first = 0 THEN 3 ELSE IF e.first = e.last THEN 1 ELSE 2
\* sort key within the category (smaller = evicted earlier)
Prio(e) == IF Category(e) = 1 THEN e.created ELSE IF Category(e) = 2 THEN e.last ELSE MaxStamp + 1 - e.created
Before(a, b) == Category(a) < Category(b) \/ (Category(a) = Category(b) /\ Prio(a) < Prio(b))
SizeSum(es, S) == FoldSet(LAMBDA i, acc : acc + es[i].size, 0, S)

\* r = [raised |-> BOOLEAN, winners |-> sequence of keys]
Post(c, r) ==
  LET es  == c.ents
      idx(k) == CHOOSE i \in DOMAIN es : Key(i) = k
      W   == r.winners
      known == \A j \in DOMAIN W : \E i \in DOMAIN es : Key(i) = W[j]
      once  == \A j, l \in DOMAIN W : j # l => W[j] # W[l]
      WI  == {idx(W[j]) : j \in DOMAIN W}
      total == SizeSum(es, DOMAIN es)
  IN IF r.raised THEN {"lottery_raised"}
     ELSE IF ~known \/ ~once THEN {"lottery_names_unknown_or_repeated_key"}
     ELSE (IF SizeSum(es, WI) >= c.amount \/ WI = DOMAIN es THEN {} ELSE {"lottery_frees_too_little"})
     \cup (IF total >= c.amount /\ SizeSum(es, WI) < c.amount THEN {"lottery_frees_too_little"} ELSE {})
     \* policy: nobody outside the winners comes strictly before a winner; the winners are listed in a valid order;
     \* the draw stops as soon as enough is freed
     \cup (IF \E i \in DOMAIN es \ WI, w \in WI : Before(es[i], es[w]) THEN {"I_skipped_an_earlier_candidate"} ELSE {})
     \cup (IF \E j, l \in DOMAIN W : j < l /\ Before(es[idx(W[l])], es[idx(W[j])]) THEN {"I_winners_out_of_order"} ELSE {})
     \cup (IF Len(W) > 0 /\ SizeSum(es, WI \ {idx(W[Len(W)])}) >= c.amount THEN {"I_drew_more_than_needed"} ELSE {})
Judge == IF IOEnv.PASS # "judge" THEN TRUE
         ELSE LET cs == JsonDeserialize(IOEnv.JUDGE_CASES)
                  rs == JsonDeserialize(IOEnv.RESULTS_FILE)
              IN \A i \in DOMAIN cs :
                   LET c == [amount |-> cs[i].amount,
                             ents |-> [j \in DOMAIN cs[i].ents |-> [created |-> cs[i].ents[j].created, first |-> cs[i].ents[j].first,
                                                                    last |-> cs[i].ents[j].last, size |-> cs[i].ents[j].size]]]
                       bad == Post(c, rs[i])
                   IN bad = {} \/ PrintT("B|" \o ToString(i) \o "|" \o ToString(bad))
=============================================================================
