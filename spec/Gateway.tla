------------------------------- MODULE Gateway -------------------------------
(***************************************************************************)
(* cascade.gateway: JobRouter + the two handlers of gateway.server.        *)
(* One action per handled message: a controller report (handle_controller) *)
(* or a frontend request (handle_fe).  Reports of a job may be delivered   *)
(* in any order and any number of times (the action takes an arbitrary     *)
(* report of the job's report domain), so every interleaving, duplication  *)
(* and reordering with frontend queries is a behaviour.                    *)
(***************************************************************************)
EXTENDS Naturals, Sequences, FiniteSets, TLC

CONSTANTS JobSlot,       \* how many jobs may be submitted: 1..JobSlot identify them in submission order
          DS,            \* dataset ids
          Bytes,         \* result payloads
          TS,            \* timestamps of progress reports (subset of 1..5); the progress value of timestamp t is ProgOf(t)
          StoresLastSeen \* maybe_update records the timestamp it accepted (design; FALSE = the code before the fix)

Started  == "0.00"
NoResult == "<none>"
\* different timestamps MAY carry the same progress value (the same percentage reported twice)
ProgTable == <<"10.00", "50.00", "10.00", "50.00", "90.00">>
ProgOf(t) == ProgTable[t]

VARIABLES n,          \* jobs submitted so far (ids 1..n)
          progress,   \* [1..JobSlot -> progress string]
          lastSeen,   \* [1..JobSlot -> Int]  (-1 initially; shifted by one here: 0)
          results,    \* [1..JobSlot -> [DS -> Bytes \cup {NoResult}]]
          closed,     \* [1..JobSlot -> BOOLEAN] shutdown report handled: the job's socket is no longer polled
          seenTs,     \* ghost: timestamps of the progress reports RECEIVED per job
          uploaded,   \* ghost: last bytes uploaded per (job, ds)
          last        \* history: the handled message and the response
vars == <<n, progress, lastSeen, results, closed, seenTs, uploaded, last>>
view == <<n, progress, lastSeen, results, closed, seenTs, uploaded>>

J == 1..JobSlot
Init == /\ n = 0 /\ progress = [j \in J |-> Started] /\ lastSeen = [j \in J |-> 0]
        /\ results = [j \in J |-> [d \in DS |-> NoResult]] /\ closed = [j \in J |-> FALSE]
        /\ seenTs = [j \in J |-> {}] /\ uploaded = [j \in J |-> [d \in DS |-> NoResult]] /\ last = <<"Init">>

\* spawn_job draws identifiers until one is unused: the source may repeat an identifier already issued `clash` times in a row
\* (low.func.next_uuid); the new job gets a fresh identifier whatever the source does, the tracked jobs are untouched
MaxClash == 2
Submit(clash) == /\ n < JobSlot /\ (n = 0 => clash = 0) /\ n' = n + 1 /\ last' = <<"Submit", n + 1, clash>>
                 /\ UNCHANGED <<progress, lastSeen, results, closed, seenTs, uploaded>>

\* handle_controller: report = [status, ts, res] with status \in {"none", "progress", "shutdown"}, res \in {<<>>} \cup {<<d, b>>}
Report(j, status, ts, res) ==
  /\ j \in 1..n /\ ~closed[j]
  /\ LET accept == status = "progress" /\ lastSeen[j] < ts IN
     /\ progress' = [progress EXCEPT ![j] = IF accept THEN ProgOf(ts) ELSE @]
     /\ lastSeen' = [lastSeen EXCEPT ![j] = IF accept /\ StoresLastSeen THEN ts ELSE @]
     /\ closed'   = [closed EXCEPT ![j] = status = "shutdown"]
     /\ seenTs'   = [seenTs EXCEPT ![j] = IF status = "progress" THEN @ \cup {ts} ELSE @]
     /\ results'  = [results EXCEPT ![j] = IF res = <<>> THEN @ ELSE [@ EXCEPT ![res[1]] = res[2]]]
     /\ uploaded' = [uploaded EXCEPT ![j] = IF res = <<>> THEN @ ELSE [@ EXCEPT ![res[1]] = res[2]]]
  /\ last' = <<"Report", j, status, ts, res>>
  /\ UNCHANGED n

\* JobProgressRequest(ids): ids is a set of job numbers, possibly unknown ones (> n); {} = all
AskProgress(ids) ==
  /\ last' = <<"AskProgress", ids,
               IF ids \subseteq 1..n
               THEN [ok |-> TRUE, prog |-> [j \in (IF ids = {} THEN 1..n ELSE ids) |-> progress[j]]]
               ELSE [ok |-> FALSE, prog |-> <<>>]>>
  /\ UNCHANGED <<n, progress, lastSeen, results, closed, seenTs, uploaded>>

AskResult(j, d) ==
  /\ last' = <<"AskResult", j, d,
               IF j \in 1..n /\ results[j][d] # NoResult THEN [ok |-> TRUE, bytes |-> results[j][d]]
               ELSE [ok |-> FALSE, bytes |-> NoResult]>>
  /\ UNCHANGED <<n, progress, lastSeen, results, closed, seenTs, uploaded>>

Statuses == {"none", "progress", "shutdown"}
ResChoices == {<<>>} \cup {<<d, b>> : d \in DS, b \in Bytes}
Next == \/ \E clash \in 0..MaxClash : Submit(clash)
        \/ \E j \in J, s \in Statuses, t \in TS, r \in ResChoices : Report(j, s, t, r)
        \/ \E ids \in SUBSET (1..(JobSlot + 1)) : AskProgress(ids)
        \/ \E j \in 1..(JobSlot + 1), d \in DS : AskResult(j, d)
Spec == Init /\ [][Next]_vars

(***************************************************************************)
(* C18                                                                     *)
(***************************************************************************)
MaxOf(S) == CHOOSE m \in S : \A y \in S : y <= m
\* the progress shown is the one of the greatest timestamp received; the shutdown notice does not erase it
ProgressIsNewest == \A j \in 1..n : progress[j] = IF seenTs[j] = {} THEN Started ELSE ProgOf(MaxOf(seenTs[j]))
\* a result is returned exactly as uploaded, only for the job and dataset it was uploaded for
ResultsExact == \A j \in J, d \in DS : results[j][d] = uploaded[j][d]
\* a frontend answer reflects exactly this state; unknown job or dataset => error, and the service goes on (no action is disabled by it)
AnswersFaithful ==
  /\ (last[1] = "AskProgress" /\ last[3].ok) => \A j \in DOMAIN last[3].prog : last[3].prog[j] = progress[j]
  /\ (last[1] = "AskResult" /\ last[4].ok) => last[4].bytes = uploaded[last[2]][last[3]]
  /\ (last[1] = "AskResult" /\ last[2] \notin 1..n) => ~last[4].ok
  /\ (last[1] = "AskProgress" /\ ~(last[2] \subseteq 1..n)) => ~last[3].ok
TypeOK == n \in 0..JobSlot
=============================================================================
