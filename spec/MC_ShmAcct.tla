------------------------------ MODULE MC_ShmAcct ------------------------------
(* Apalache wrapper: four keys, ARBITRARY capacity and sizes (ConstInit), arbitrary state satisfying IndInv (IndInit). *)
EXTENDS Integers, FiniteSets

CONSTANTS
  \* @type: Str -> Int;
  Size,
  \* @type: Int;
  Cap

VARIABLES
  \* @type: Str -> Str;
  ast,
  \* @type: Int;
  afree,
  \* @type: Set(Str);
  pend

Key == {"k1", "k2", "k3", "k4"}
INSTANCE ShmAcct

ConstInit == /\ Cap \in Nat
             /\ Size \in [Key -> Nat]
             /\ \A k \in Key : Size[k] >= 1
\* any state at all that satisfies the invariant
IndInit == /\ ast \in [Key -> {"absent", "resident", "on_disk"}]
           /\ pend \in SUBSET Key
           /\ afree \in Int
           /\ IndInv
Goal == IndInv /\ ANoOverdraw /\ AFreeSane
=============================================================================
