------------------------------- MODULE Failure -------------------------------
(***************************************************************************)
(* C05: failure handling of one executor host and the controller.          *)
(*                                                                         *)
(* Part 1 is a small state machine of the detection / reporting / teardown *)
(* path: a task raises or a worker-side process (worker, data server, shm  *)
(* server) dies at a progress point of a task; the executor's loop polls   *)
(* its children (healthcheck) and reports; the controller shuts down and   *)
(* raises; the executor tears its children down and the shm server unlinks *)
(* its segments.  Two constants describe the design decisions that matter: *)
(*   HealthcheckRaises  the healthcheck raises for a dead child            *)
(*   ZeroExitIsFailure  a child that exited with code 0 counts as dead     *)
(* Part 2 is the scenario domain and the oracle for the real-cluster       *)
(* conformance run (pattern P3): TLC enumerates the scenarios, the harness *)
(* runs each one on real processes, TLC judges the observations.           *)
(***************************************************************************)
EXTENDS Naturals, Sequences, FiniteSets, TLC, Json, IOUtils, SequencesExt

CONSTANTS HealthcheckRaises, ZeroExitIsFailure

Victim == {"none", "task_raises", "worker", "data_server", "shm"}
Code   == {"zero", "nonzero"}          \* exit status of the dying process (a signal counts as nonzero)
Point  == {"before_outputs", "between_outputs", "after_outputs"}

VARIABLES victim, code, point,     \* the scenario (chosen initially)
          procs,                   \* set of live worker-side processes: subset of {"worker", "data_server", "shm"}
          exec,                    \* executor: "loop" | "terminating" | "gone"
          ctrl,                    \* controller: "running" | "returned" | "raised"
          produced,                \* requested outputs all produced and published?
          delivered,               \* ... and fetched by the controller
          msgs,                    \* messages from executor to controller in flight: subset of {"TaskFailure", "ExecutorFailure", "ExecutorExit"}
          struck,                  \* the fault has happened
          segments                 \* shared-memory segments exist under /dev/shm
vars == <<victim, code, point, procs, exec, ctrl, produced, delivered, msgs, struck, segments>>

Init == /\ victim \in Victim /\ code \in Code /\ point \in Point
        /\ procs = {"worker", "data_server", "shm"} /\ exec = "loop" /\ ctrl = "running"
        /\ produced = FALSE /\ delivered = FALSE /\ msgs = {} /\ struck = FALSE /\ segments = FALSE

\* the job makes progress while everything it needs is alive
Produce == /\ ~produced /\ exec = "loop" /\ {"worker", "shm"} \subseteq procs /\ ctrl = "running"
           /\ (victim = "none" \/ struck \/ point = "after_outputs")   \* the fault strikes first unless it is scheduled after the outputs
           /\ produced' = TRUE /\ segments' = TRUE
           /\ UNCHANGED <<victim, code, point, procs, exec, ctrl, delivered, msgs, struck>>
Deliver == /\ produced /\ ~delivered /\ exec = "loop" /\ {"data_server", "shm"} \subseteq procs /\ ctrl = "running"
           /\ delivered' = TRUE
           /\ UNCHANGED <<victim, code, point, procs, exec, ctrl, produced, msgs, struck, segments>>

Strike == /\ ~struck /\ victim # "none" /\ exec = "loop" /\ ctrl = "running"
          /\ (point = "after_outputs" => produced) /\ (point # "after_outputs" => ~produced)
          /\ struck' = TRUE
          /\ IF victim = "task_raises"
             THEN msgs' = msgs \cup {"TaskFailure"} /\ UNCHANGED procs        \* execute_sequence reports, the worker lives on
             ELSE procs' = procs \ {victim} /\ UNCHANGED msgs
          /\ UNCHANGED <<victim, code, point, exec, ctrl, produced, delivered, segments>>

\* Executor.healthcheck in the receive loop (every <= 0.8 s)
Dead == {"worker", "data_server", "shm"} \ procs
Detects == Dead # {} /\ HealthcheckRaises /\ (code = "nonzero" \/ ZeroExitIsFailure)
Healthcheck == /\ exec = "loop" /\ Detects
               /\ msgs' = msgs \cup {"ExecutorFailure"} /\ exec' = "terminating"
               /\ UNCHANGED <<victim, code, point, procs, ctrl, produced, delivered, struck, segments>>

\* Bridge.recv_events: any failure message => shutdown and raise
CtrlFails == /\ ctrl = "running" /\ msgs \cap {"TaskFailure", "ExecutorFailure"} # {}
             /\ ctrl' = "raised"
             /\ UNCHANGED <<victim, code, point, procs, exec, produced, delivered, msgs, struck, segments>>
CtrlReturns == /\ ctrl = "running" /\ delivered /\ ctrl' = "returned"
               /\ UNCHANGED <<victim, code, point, procs, exec, produced, delivered, msgs, struck, segments>>
\* the controller's finally-block sends ExecutorShutdown; the executor answers ExecutorExit and terminates
Shutdown == /\ ctrl \in {"returned", "raised"} /\ exec = "loop" /\ exec' = "terminating"
            /\ msgs' = msgs \cup {"ExecutorExit"}
            /\ UNCHANGED <<victim, code, point, procs, ctrl, produced, delivered, struck, segments>>
\* Executor.terminate: workers told to stop and joined, shm server shut down (it unlinks its segments), data server killed
Terminate == /\ exec = "terminating" /\ exec' = "gone" /\ procs' = {}
             /\ segments' = (segments /\ "shm" \notin procs)     \* a dead shm server cannot unlink anything
             /\ UNCHANGED <<victim, code, point, ctrl, produced, delivered, msgs, struck>>
Done == /\ exec = "gone" /\ ctrl # "running" /\ UNCHANGED vars

Next == Produce \/ Deliver \/ Strike \/ Healthcheck \/ CtrlFails \/ CtrlReturns \/ Shutdown \/ Terminate \/ Done
Spec == Init /\ [][Next]_vars /\ WF_vars(Next) /\ WF_vars(Healthcheck) /\ WF_vars(CtrlFails) /\ WF_vars(Strike)

\* ---- C05 on the model
RunEnds       == <>(ctrl # "running")
EndsClean     == <>[](exec = "gone" /\ procs = {})
ErrorIfLost   == [](ctrl = "returned" => delivered)
NoSegmentsLeft == <>[](exec = "gone" => (~segments \/ victim = "shm"))

(***************************************************************************)
(* Part 2: scenarios for the real cluster and their oracle                 *)
(***************************************************************************)
Shapes == {<<1, 1>>, <<1, 2>>, <<2, 1>>}
Modes  == {"none", "raise", "exit0", "exit1", "kill", "kill_helper_first", "kill_helper_second"}
\* the same helper deaths on the OTHER host (the one that is to receive a transfer; two-host shapes only)
RemoteModes == {"kill_remote_helper_first", "kill_remote_helper_second"}
BusyModes == {"raise_busy_sibling", "raise_busy_deaf_sibling"}
\* helpers ended by SIGTERM instead of SIGKILL (an operator's kill, a batch system's pre-emption): their own handlers run
TermModes == {"term_helper_first", "term_helper_second"}
Places == {<<"t1", "before">>, <<"t1", "between">>, <<"t1", "after">>, <<"t2", "before">>, <<"t2", "after_compute">>}
Scenarios == {[hosts |-> s[1], workers |-> s[2], mode |-> m, task |-> p[1], point |-> p[2]] :
                 s \in Shapes, m \in Modes \ {"none"}, p \in Places}
             \cup {[hosts |-> s[1], workers |-> s[2], mode |-> "none", task |-> "", point |-> ""] : s \in Shapes}
             \cup {[hosts |-> 2, workers |-> 1, mode |-> m, task |-> p[1], point |-> p[2]] : m \in RemoteModes, p \in Places}
             \* one consumer raises while the other one is in the middle of a long computation (its worker does not read
             \* the shutdown message; Executor.terminate has to kill it after its grace period)
             \* ("deaf": that task body has installed its own SIGTERM handler, as numerical libraries and frameworks do)
             \cup {[hosts |-> s[1], workers |-> s[2], mode |-> m, task |-> "t2", point |-> "before"] : s \in {<<1, 2>>, <<2, 1>>}, m \in BusyModes}
             \cup {[hosts |-> s[1], workers |-> s[2], mode |-> m, task |-> p[1], point |-> p[2]] : s \in Shapes, m \in TermModes, p \in Places}
\* quick tier: one shape per (mode, place) rotated deterministically
Rank(sc) == (IF sc.mode \in RemoteModes \cup BusyModes \cup TermModes THEN 0 ELSE CHOOSE i \in 1..7 : SetToSeq(Modes)[i] = sc.mode) + (IF sc.task = "" THEN 0 ELSE CHOOSE i \in 1..5 : SetToSeq(Places)[i] = <<sc.task, sc.point>>)
ShapeIdx(sc) == CHOOSE i \in 1..3 : SetToSeq(Shapes)[i] = <<sc.hosts, sc.workers>>
QuickScenarios == {sc \in Scenarios : \/ sc.mode \in BusyModes
                                      \/ sc.mode \in TermModes /\ <<sc.hosts, sc.workers, sc.task, sc.point>> \in {<<1, 2, "t1", "between">>, <<2, 1, "t1", "before">>}
                                      \/ sc.mode \notin RemoteModes \cup BusyModes \cup TermModes /\ (Rank(sc) % 3) + 1 = ShapeIdx(sc) /\ sc.point \in {"", "before", "between", "after"}
                                      \/ sc.mode = "kill_remote_helper_second" /\ <<sc.task, sc.point>> \in {<<"t1", "before">>, <<"t1", "after">>, <<"t2", "before">>}
                                      \/ sc.mode = "kill_remote_helper_first" /\ <<sc.task, sc.point>> = <<"t1", "before">>}
Generate == IF IOEnv.PASS # "generate" THEN TRUE
            ELSE LET S == IF IOEnv.TIER = "quick" THEN QuickScenarios ELSE Scenarios IN
                 JsonSerialize(IOEnv.CASES_FILE, SetToSeq(S))

\* what the property demands of a scenario
MustFail(sc) == sc.mode \in {"raise"} \cup BusyModes \/ (sc.mode \in {"exit0", "exit1", "kill"} /\ sc.point \in {"before", "between", "after_compute"})
Post(sc, ob) ==
     (IF ob.outcome = "hang" THEN {"run_did_not_end"} ELSE {})
\cup (IF ob.outcome = "ok" /\ MustFail(sc) THEN {"returned_although_output_lost"} ELSE {})
\cup (IF ob.outcome = "ok" /\ ~ob.values_ok THEN {"wrong_value"} ELSE {})
\cup (IF ob.outcome = "error" /\ sc.mode = "none" THEN {"healthy_run_failed"} ELSE {})
\cup (IF ob.leftover_procs > 0 THEN {"processes_left_behind"} ELSE {})
\cup (IF ob.segments > 0 THEN {"shm_segments_left_behind"} ELSE {})
Judge == IF IOEnv.PASS # "judge" THEN TRUE
         ELSE LET cs == JsonDeserialize(IOEnv.JUDGE_CASES)
                  rs == JsonDeserialize(IOEnv.RESULTS_FILE)
              IN \A i \in DOMAIN cs : LET bad == Post(cs[i], rs[i]) IN
                   bad = {} \/ PrintT("B|" \o ToString(i) \o "|" \o ToString(bad))

(***************************************************************************)
(* Part 3: what Bridge.recv_events does with ONE drained batch of messages *)
(* (bridge.py:80-133).  A failure report anywhere in the batch must fail   *)
(* the run, whatever else was drained with it; otherwise the events are    *)
(* returned in order.                                                      *)
(***************************************************************************)
Kinds == {"published", "payload", "ack", "registration", "task_failure", "executor_failure", "transmit_failure",
          "executor_exit", "unsupported"}
Fatal == {"task_failure", "executor_failure", "transmit_failure", "executor_exit", "unsupported"}
Batches == UNION {[1..n -> Kinds] : n \in 1..3}
BatchOutcome(b) == IF \E i \in 1..Len(b) : b[i] \in Fatal THEN [raises |-> TRUE, events |-> <<>>]
                   ELSE [raises |-> FALSE, events |-> SelectSeq(b, LAMBDA k : k \in {"published", "payload"})]
GenerateBatches == IF IOEnv.PASS # "batches" THEN TRUE ELSE JsonSerialize(IOEnv.CASES_FILE, SetToSeq(Batches))
JudgeBatches == IF IOEnv.PASS # "batchesj" THEN TRUE
  ELSE LET cs == JsonDeserialize(IOEnv.JUDGE_CASES)
           rs == JsonDeserialize(IOEnv.RESULTS_FILE)        \* [raises, events, shutdown_called]
       IN \A i \in DOMAIN cs :
            LET want == BatchOutcome(cs[i])
                bad == (IF rs[i].raises = want.raises THEN {} ELSE {IF want.raises THEN "failure_report_did_not_fail_the_run" ELSE "healthy_batch_failed_the_run"})
                  \cup (IF ~want.raises /\ rs[i].events # want.events THEN {"events_lost_or_reordered"} ELSE {})
                  \cup (IF want.raises /\ ~rs[i].shutdown_called THEN {"failed_without_shutting_executors_down"} ELSE {})
            IN bad = {} \/ PrintT("B|" \o ToString(i) \o "|" \o ToString(bad))
=============================================================================
