---------------------------- MODULE FluentNames ----------------------------
(***************************************************************************)
(* C14: node names of earthkit.workflows.fluent identify computations, and *)
(* operations leave existing actions intact.  Binding pattern P3: TLC      *)
(* enumerates the fluent programs (Generate), the harness interprets them  *)
(* with the real fluent API and logs, per case,                            *)
(*   nodes  |-> every Node object created (by identity):                   *)
(*              [name, fname (callable's __name__), fid (identity of the   *)
(*               callable object, as a small integer), args, kwargs        *)
(*               (rendered static arguments), id (identity of the node     *)
(*               object), ins |-> << <<input, id of the parent, output>> >>,*)
(*               inputs |-> <<"in=parent.out">> (for the reader)]          *)
(*   build1, build2 |-> names of the nodes of each program's result, for   *)
(*              two independent builds of the same case                    *)
(*   pre, uni |-> (union cases) the descriptions of the nodes of the       *)
(*              united actions before the union, and of the union graph;   *)
(*              uninames: the name of every node OBJECT of that graph      *)
(*   steps  |-> per executed operation [op, raised, before, after] where   *)
(*              before/after are snapshots <<action, dims, coords, node    *)
(*              identities, payloads of those nodes (callable identity,    *)
(*              args, kwargs rendered by value)>> of every action that     *)
(*              existed before the step                                    *)
(* The nodes are described as they are at the END of the case (before the  *)
(* union, which rewires in place, for union cases); callable               *)
(* identities are stable across cases, so names are also compared between  *)
(* cases (a name stands for one computation, whenever it was built).       *)
(* TLC evaluates Post on every (case, log).                                *)
(*                                                                         *)
(* An operation is [k |-> kind, f |-> callable key, o |-> other action,    *)
(* d |-> dimension, v |-> number]; unused fields are "" / 0.               *)
(* Actions of the environment: A (x = 0,1), B (x = 5,6: same shape, other  *)
(* coordinate values), A2 = A.map(par1), B2 = B.map(par2), D (x = 0,1;     *)
(* y = 7: a dimension of size one), E (x = 0..3), slices of F (see (L)).   *)
(***************************************************************************)
EXTENDS Naturals, Sequences, FiniteSets, TLC, Json, IOUtils, SequencesExt

CONSTANTS Depth2Firsts,   \* callables that may come first in the two-operation programs of the naming part
          SecondOps       \* how many operand cases get a second operation: "all" or "few"

SetOf(s) == {s[i] : i \in DOMAIN s}
Op(k, f, o, d, v) == [k |-> k, f |-> f, o |-> o, d |-> d, v |-> v]

\* ======================================================================== domain
\* two different lambdas, two different defs called "f", partials of one function with equal / different arguments
Callables == {"lam1", "lam2", "def1", "def2", "par1", "par1b", "par2"}
NameOps == {Op("map", c, "", "", 0) : c \in Callables} \cup {Op("addc", "", "", "", v) : v \in {1, 2}} \cup {Op("sum", "", "", "x", 0)}
NamePrograms == {<<o>> : o \in NameOps} \cup {<<Op("map", c, "", "", 0), o>> : c \in Depth2Firsts, o \in NameOps}
\* (N) pairs of programs over the shared source A
NameCases == LET ps == SetToSeq(NamePrograms)
             IN {[kind |-> "names", start |-> "A", p |-> ps[i], q |-> ps[j]] : <<i, j>> \in {x \in (DOMAIN ps) \X (DOMAIN ps) : x[1] <= x[2]}}
\* (P) the same order-sensitive operation / multi-input payload over the same inputs in another order: a.subtract(b) and
\*     b.subtract(a); reduce(f) over the join of three actions taken in two different orders ("from" restarts from an action)
From(a) == Op("from", "", a, "", 0)
SwapKinds == {"add", "subtract", "multiply", "divide", "power"}
OperandPairs == {<<"A2", "B2">>, <<"A", "B">>, <<"A2", "A">>, <<"B2", "A">>}
Perm3 == {<<"A2", "B2", "A">>, <<"A2", "A", "B2">>, <<"B2", "A2", "A">>, <<"B2", "A", "A2">>, <<"A", "A2", "B2">>, <<"A", "B2", "A2">>}
JoinReduce(t, f) == <<From(t[1]), Op("joinz", "", t[2], "", 0), Op("joinz", "", t[3], "", 0), Op("reduce", f, "", "z", 0)>>
PermCases == {[kind |-> "names", start |-> "A", p |-> <<From(pr[1]), Op(k, "", pr[2], "", 0)>>, q |-> <<From(pr[2]), Op(k, "", pr[1], "", 0)>>] :
                 k \in SwapKinds, pr \in OperandPairs}
        \cup {[kind |-> "names", start |-> "A", p |-> JoinReduce(t1, f), q |-> JoinReduce(t2, f)] : t1, t2 \in Perm3, f \in {"def1", "lam1"}}
\* (H) one Payload OBJECT handed to several operations of a case (and to both builds of the case), as a user holding a
\*     Payload in a variable does: reductions over 2 and 4 inputs, a batched reduction with uneven batches (size 4, batches
\*     of 3: nodes with 3 and with 2 inputs), maps; E is a source with x = 0..3; pargs is Payload(g, [1]), pbat is batchable
SharedOps(pk) == {Op("reduce_p", pk, "", "x", 0), Op("map_p", pk, "", "", 0)} \cup (IF pk = "pbat" THEN {Op("reduce_p", pk, "", "x", 3)} ELSE {})
SharedCases == UNION {{[kind |-> "names", start |-> "A", p |-> <<From(s1), o1>>, q |-> <<From(s2), o2>>] :
                          s1 \in {"A", "E", "D"}, s2 \in {"A", "E", "D"}, o1 \in SharedOps(pk), o2 \in SharedOps(pk)} : pk \in {"pdef1", "pbat", "pargs"}}
\* (U) unions: Y is a generator source (one node, three outputs spread over the dimension y), so the nodes of Y.map(f) carry
\*     the same payload and read different outputs of ONE node; the source and the results of both programs are united by
\*     Cascade.from_actions / Cascade + Cascade / += (which de-duplicates); also from the plain source A
UPrograms(s) == UNION {{<<Op("map", f, "", "", 0)>>, <<Op("map", f, "", "", 0), Op("sum", "", "", IF s = "Y" THEN "y" ELSE "x", 0)>>,
                        <<Op("map", f, "", "", 0), Op("map", "par2", "", "", 0)>>} : f \in {"par1", "def1"}}
UnionCases == UNION {{[kind |-> "names", start |-> s, p |-> p, q |-> q, union |-> u] :
                        p \in UPrograms(s), q \in UPrograms(s), u \in {"from_actions", "add", "iadd"}} : s \in {"Y", "A"}}
\* (U') unions of two programs that differ ONLY in a callable whose __name__ is the same (two defs called f, two lambdas): the
\*      names collide (recorded finding), but the union must still hold both computations
UShape(k, f, s) == IF k = 1 THEN <<Op("map", f, "", "", 0)>>
                   ELSE IF k = 2 THEN <<Op("map", f, "", "", 0), Op("sum", "", "", IF s = "Y" THEN "y" ELSE "x", 0)>>
                   ELSE <<Op("map", f, "", "", 0), Op("map", "par2", "", "", 0)>>
TwinCases == {[kind |-> "names", start |-> s, p |-> UShape(k, fs[1], s), q |-> UShape(k, fs[2], s), union |-> u] :
                 s \in {"Y", "A", "S1"}, k \in 1..3, fs \in {<<"def1", "def2">>, <<"lam1", "lam2">>}, u \in {"from_actions", "add", "iadd"}}
\* (V) the same sub-expression twice inside ONE action -- a.map(f).add(a.map(f)) ("dup_add"); (a - mean(a)) / std(a) with batched
\*     mean and std over E, which both build the batched sum ("norm") -- made into a Cascade from that single action ("single"),
\*     or united with its source: in the Cascade's graph one name is one node
DupCases == {[kind |-> "names", start |-> s, p |-> <<o>>, q |-> <<>>, union |-> u] :
                s \in {"A", "E"}, o \in {Op("dup_add", f, "", "", 0) : f \in {"par1", "def1"}} \cup {Op("norm", "", "", "x", 2)},
                u \in {"single", "from_actions", "add", "iadd"}}
        \cup {[kind |-> "names", start |-> "E", p |-> <<Op("dup_add", "par1", "", "", 0), Op("norm", "", "", "x", 2)>>,
               q |-> <<Op("norm", "", "", "x", 2)>>, union |-> u] : u \in {"single", "from_actions", "add"}}
\* (W) ONE from_source array whose elements share the payload: S1 = three times the same callable object (1-d), S2 = a 2 x 2
\*     array with three equal elements and one other, S3 = two equal partials (same function, same static arguments) and one
\*     other; followed by per-node operations and reductions; the result made into a Cascade alone / with the source
WPrograms == {<<Op("map", "par1", "", "", 0)>>, <<Op("addc", "", "", "", 1)>>, <<Op("select", "", "", "x", 0), Op("map", "def1", "", "", 0)>>,
              <<Op("sum", "", "", "x", 0)>>, <<Op("map", "par1", "", "", 0), Op("sum", "", "", "x", 0)>>,
              <<Op("map", "par1", "", "", 0), Op("map", "par2", "", "", 0)>>}
SameSourceCases == {[kind |-> "names", start |-> s, p |-> p, q |-> q, union |-> u] :
                       s \in {"S1", "S2", "S3"}, p \in WPrograms, q \in WPrograms, u \in {"single", "from_actions"}}
\* (S) two sources, created by one from_source call or by two
SrcCallables == {"slam1", "slam2", "sdef1", "sdef2", "spar1", "spar2"}
SourceCases == {[kind |-> "sources", start |-> "", p |-> <<Op("source", c1, "", IF one THEN "one_call" ELSE "two_calls", 0)>>,
                 q |-> <<Op("source", c2, "", "", 0)>>] : c1, c2 \in SrcCallables, one \in BOOLEAN}
\* (O) operations with operands: receiver, then one or two operations
BinKinds == {"add", "subtract", "multiply", "divide", "power", "join_match", "join_nomatch", "join_x", "broadcast"}
BinOps == {Op(k, "", o, "", 0) : k \in BinKinds, o \in {"B", "B2", "A2"}}
UnOps == {Op("map", "lam1", "", "", 0), Op("addc", "", "", "", 1), Op("sum", "", "", "x", 0), Op("sum_keep", "", "", "x", 0),
          Op("mean", "", "", "x", 0), Op("select", "", "", "x", 0), Op("isel", "", "", "x", 0), Op("stack", "", "", "x", 0),
          Op("stack", "", "", "y", 0), Op("concatenate", "", "", "x", 0), Op("concatenate", "", "", "y", 0),
          Op("flatten", "", "", "x", 0), Op("expand", "", "", "e", 2), Op("transform", "", "", "t", 2)}
Seconds == IF SecondOps = "all" THEN BinOps \cup UnOps
           ELSE {Op("join_match", "", "B", "", 0), Op("stack", "", "", "y", 0)}
OperandCases == {[kind |-> "operands", start |-> s, p |-> <<o>>, q |-> <<>>] : s \in {"A", "A2", "D"}, o \in BinOps \cup UnOps}
           \cup {[kind |-> "operands", start |-> s, p |-> <<o, o2>>, q |-> <<>>] : s \in {"A", "A2", "D"}, o \in BinOps \cup UnOps, o2 \in Seconds}

\* (L) operands that carry SCALAR coordinates with different labels: slices of F (dims m = 0,1 then x = 0,1) made by select /
\*     isel of different labels along the first dimension (F0, F1, F0i, F1i: scalar m before the dimension x), along the second
\*     (G0, G1: scalar x after the dimension m), and fully selected 0-d actions (Z0, Z1)
SliceKeys0 == {"F0", "G0", "Z0", "F0i"}
SliceKeys1 == {"F1", "G1", "Z1", "F1i"}
SliceCases == {[kind |-> "operands", start |-> s, p |-> <<Op(k, "", o, "", 0)>>, q |-> <<>>] : s \in SliceKeys0, k \in BinKinds, o \in SliceKeys1}
         \cup {[kind |-> "operands", start |-> s, p |-> <<Op(k, "", o, "", 0)>>, q |-> <<>>] : s \in SliceKeys1, k \in {"subtract", "join_match"}, o \in SliceKeys0}
\* (T) the same parametrised operation twice, from the same receiver, with different parameter values: the first result is
\*     a pre-existing action when the second is built (v: axis of flatten / stack, internal dimension of expand, a backend kwarg)
TwiceKinds == {"flatten", "stack", "sum_kw", "expand_i"}
TwiceCases == {[kind |-> "operands", start |-> s, p |-> <<From(s), Op(k1, "", "", "x", v), From(s), Op(k2, "", "", "x", 1 - v)>>, q |-> <<>>] :
                  s \in {"A", "A2", "D"}, k1 \in TwiceKinds, k2 \in TwiceKinds, v \in {0, 1}}
         \cup {[kind |-> "operands", start |-> s, p |-> <<From(s), Op(k, "", "", "x", v), From(s), Op(k, "", "", "x", 1 - v)>>, q |-> <<>>] :
                  s \in {"A", "A2", "D"}, k \in {"mean_kw", "addc", "concatenate_kw"}, v \in {0, 1}}

\* ======================================================================== post-condition
\* The computation a node denotes, as a term over callable identities: same callable, same static arguments, same inputs (each
\* input name bound to the term of the parent and the output read).  L is the list of node descriptions the node belongs to
\* (parents are referred to by the identity `id` of the node object).  A node without inputs is a SOURCE: from_source makes
\* every source a node of its own (unique names even for equal payloads), so in Term a source is identified by callable,
\* arguments and its name: consumers of two different sources are different computations.  Pure forgets the source names: it is
\* what de-duplication (which may merge sources with equal payloads) has to preserve.
NodeOf(L, id) == CHOOSE n \in SetOf(L) : n.id = id
RECURSIVE Term(_, _), Pure(_, _), TermN(_, _), Fns(_, _)
Term(L, n) == <<n.fid, n.args, n.kwargs, IF n.ins = <<>> THEN n.name ELSE "", {<<i[1], Term(L, NodeOf(L, i[2])), i[3]>> : i \in SetOf(n.ins)}>>
Pure(L, n) == <<n.fid, n.args, n.kwargs, {<<i[1], Pure(L, NodeOf(L, i[2])), i[3]>> : i \in SetOf(n.ins)}>>
\* the same term with every callable replaced by its __name__, and the callables (name, identity) that occur in it: two terms
\* that differ although their TermN are equal differ only in callables that share a name, possibly further up (a collision of
\* two parents makes their consumers collide too: the same finding, not a new kind)
TermN(L, n) == <<n.fname, n.args, n.kwargs, IF n.ins = <<>> THEN n.name ELSE "", {<<i[1], TermN(L, NodeOf(L, i[2])), i[3]>> : i \in SetOf(n.ins)}>>
Fns(L, n) == {<<n.fname, n.fid>>} \cup UNION {Fns(L, NodeOf(L, i[2])) : i \in SetOf(n.ins)}
\* light: what NameInjective needs; Den: what naming the kind of a collision needs (computed for colliding names only)
Light(L) == {<<n.name, Term(L, n)>> : n \in SetOf(L)}
Den(L, n) == [name |-> n.name, fname |-> n.fname, fid |-> n.fid, args |-> n.args, kwargs |-> n.kwargs, term |-> Term(L, n),
              termN |-> TermN(L, n), fns |-> Fns(L, n)]
DensOf(L, names) == {Den(L, n) : n \in {n \in SetOf(L) : n.name \in names}}
CollisionKind(a, b) ==
  IF a.termN = b.termN
  THEN (IF \E f \in (a.fns \ b.fns) \cup (b.fns \ a.fns) : f[1] = "<lambda>" THEN "different_lambdas" ELSE "different_callables_with_equal_name")
  ELSE IF a.fid # b.fid THEN (IF a.fname = "<lambda>" THEN "different_lambdas" ELSE "different_callables_with_equal_name")
  ELSE IF a.args # b.args \/ a.kwargs # b.kwargs THEN "different_static_arguments" ELSE "different_inputs"
Post(c, r) ==
  LET lt == Light(r.nodes)
      amb == {a[1] : a \in {a \in lt : \E b \in lt : a[1] = b[1] /\ a[2] # b[2]}}
      ds == DensOf(r.nodes, amb)
      clashes == {<<a, b>> \in ds \X ds : a.name = b.name /\ a.term # b.term}
  IN  {"NameInjective:" \o CollisionKind(x[1], x[2]) : x \in clashes}
 \cup (IF r.build1 = r.build2 THEN {} ELSE {"Deterministic"})
 \cup {"OperandsIntact:" \o r.steps[k].op : k \in {k \in DOMAIN r.steps : r.steps[k].before # r.steps[k].after}}
 \* in a Cascade's graph a computation is ONE node: no two node objects (of one build) with the same name and the same
 \* computation (two DIFFERENT computations under one name are the NameInjective collisions above, not this clause)
 \cup (IF "union" \in DOMAIN c /\ \E a, b \in SetOf(r.uni) : /\ a.id # b.id /\ a.id \div 100000 = b.id \div 100000
                                                            /\ a.name = b.name /\ Pure(r.uni, a) = Pure(r.uni, b)
       THEN {"NameInjective:one_name_on_two_nodes_of_a_cascade"} ELSE {})
 \* a union keeps every computation of the united actions (as many distinct computations after as before, whether or not
 \* their names collide), and every name in it still stands for a computation it was given to
 \cup (IF "union" \in DOMAIN c
       THEN LET P == {<<n.name, Pure(r.pre, n)>> : n \in SetOf(r.pre)}
                U == {<<n.name, Pure(r.uni, n)>> : n \in SetOf(r.uni)}
            IN IF {u[2] : u \in U} = {q[2] : q \in P} /\ U \subseteq P THEN {} ELSE {"NameInjective:union_lost_or_rewired_a_computation"}
       ELSE {})
 \cup (IF c.kind # "operands" /\ \E k \in DOMAIN r.steps : r.steps[k].raised THEN {"raised"} ELSE {})
 \cup (IF c.kind # "operands" /\ Len(r.steps) # 2 * (Len(c.p) + Len(c.q)) THEN {"program_not_executed"} ELSE {})

\* ======================================================================== the two TLC passes
Generate == JsonSerialize(IOEnv.CASES_FILE, SetToSeq(NameCases) \o SetToSeq(PermCases) \o SetToSeq(SharedCases) \o SetToSeq(UnionCases) \o SetToSeq(TwinCases) \o SetToSeq(DupCases) \o SetToSeq(SameSourceCases) \o SetToSeq(SourceCases) \o SetToSeq(OperandCases) \o SetToSeq(TwiceCases) \o SetToSeq(SliceCases))
\* names are also compared ACROSS cases: G = every node description of the whole run, Amb = names with two computations
Judge ==
  LET cs == JsonDeserialize(IOEnv.CASES_FILE)
      rs == JsonDeserialize(IOEnv.RESULTS_FILE)
      ok == {i \in DOMAIN rs : "error" \notin DOMAIN rs[i]}
      G == UNION {Light(rs[i].nodes) : i \in ok}
      Amb == {a[1] : a \in {a \in G : \E b \in G : a[1] = b[1] /\ a[2] # b[2]}}
      DA == [i \in ok |-> DensOf(rs[i].nodes, Amb)]
      GA == UNION {DA[i] : i \in ok}
  IN \A i \in DOMAIN cs :
       LET bad == IF i \notin ok THEN {"harness_error"}
                  ELSE Post(cs[i], rs[i])
                       \cup {"NameInjective:" \o CollisionKind(x[1], x[2]) :
                               x \in {y \in DA[i] \X GA : y[1].name = y[2].name /\ y[1].term # y[2].term}}
       IN bad = {} \/ PrintT("B|" \o ToString(i) \o "|" \o ToString(bad))
=============================================================================
