------------------------------ MODULE Lowering ------------------------------
(***************************************************************************)
(* C10: what lowering a graph to a cascade job (cascade.low.into.graph2job)*)
(* and running its tasks (cascade.executor.runner: execute_sequence ->     *)
(* run -> Memory) must do, as a post-condition over (graph, observation).  *)
(* Binding pattern P3: TLC enumerates the graphs; the harness builds them  *)
(* with the real fluent Node/Payload/Action classes, lowers them with the  *)
(* real graph2job, runs every task through the real runner with recording *)
(* callables and logs job structure, observed calls, reported failures and *)
(* the published DatasetId -> value map; TLC evaluates Post.               *)
(*                                                                         *)
(* A case is [nodes |-> <<node>>]; node j =                                *)
(*   [nout   |-> number of declared outputs (1: plain function; >1: a      *)
(*               generator whose i-th value belongs to the i-th output),   *)
(*    yields |-> number of values the callable really yields,              *)
(*    yvals  |-> <<what the i-th yielded value is: "t" (spells the call)   *)
(*               or a literal "None" / "0" / "''" / "False">>,             *)
(*    coords |-> <<label of the coordinate of the i-th output>>,           *)
(*    inputs |-> << <<parent index, 0-based output number>> >>  (the k-th  *)
(*               input is called "input<k-1>"),                            *)
(*    args   |-> <<item>>, kwargs |-> << <<key, item>> >>]                 *)
(* item = [t |-> "int", i |-> n] | [t |-> "str", s |-> string]             *)
(*      | [t |-> "none"] (None) | [t |-> "bool", i |-> 0 or 1]             *)
(*      | [t |-> "in", i |-> k]   (the name of the k-th input)             *)
(* Values are rendered as strings on both sides: a call of node j is       *)
(* "nj(arg,...){key=arg,...}", the i-th yielded value is that \o "#i".     *)
(* The recording callables have distinctive defaults for every parameter,  *)
(* so the observed call lists exactly the arguments that were passed: a    *)
(* dropped, defaulted, added or moved argument changes the string.         *)
(***************************************************************************)
EXTENDS Naturals, Sequences, FiniteSets, TLC, Json, IOUtils, SequencesExt

CONSTANTS MaxN,       \* nodes per graph in the argument-binding part of the domain
          MaxIn,      \* inputs per node
          FullStaticsN, \* graphs with <= FullStaticsN nodes get every static value of Statics
          GenOuts     \* output counts of the generator in the output-binding part, e.g. {2, 3, 10, 11, 12}

SetOf(s) == {s[i] : i \in DOMAIN s}

\* ======================================================================== domain
InA(k)  == [t |-> "in",  i |-> k, s |-> ""]
IntA(v) == [t |-> "int", i |-> v, s |-> ""]
StrA(x) == [t |-> "str", i |-> 0, s |-> x]
NoneA   == [t |-> "none", i |-> 0, s |-> ""]                  \* Python None (JSON has no null for TLC)
BoolA(b) == [t |-> "bool", i |-> IF b THEN 1 ELSE 0, s |-> ""]
\* static values: an ordinary one, and the falsy ones (0, "", False, None) that a careless test for "no value" confuses
Statics == {IntA(7), IntA(0), StrA(""), StrA("s"), NoneA, BoolA(FALSE)}
FewStatics == {IntA(7), NoneA}
\* how a node with k inputs mentions them among its positional arguments (inputs not mentioned are appended by fluent.Node);
\* v fills the static positions: first, between inputs, after an input name, LAST (once and twice); static strings equal to
\* input names that the node does not have must stay static
Args(st, k, v) ==
  CASE st = 1 -> <<>>
    [] st = 2 -> <<v>>
    [] st = 3 -> IF k = 0 THEN <<StrA("input0"), v>> ELSE IF k = 1 THEN <<InA(1), v>> ELSE <<InA(1), InA(2), v>>
    [] st = 4 -> IF k = 0 THEN <<IntA(7), v>> ELSE IF k = 1 THEN <<StrA("input1"), InA(1), v>> ELSE <<InA(2), v, InA(1)>>
    [] st = 5 -> IF k = 0 THEN <<v, v>> ELSE IF k = 1 THEN <<v, InA(1), IntA(8)>> ELSE <<InA(2), v>>
    [] st = 6 -> IF k = 0 THEN <<v, IntA(7), v>> ELSE IF k = 1 THEN <<InA(1), v, v>> ELSE <<InA(2), InA(1), v, v>>
Kwargs(st, v) == IF st % 2 = 1 THEN <<>> ELSE <<<<"k", v>>, <<"z", StrA("s")>>>>
Coords(n) == [i \in 1..n |-> "c" \o ToString(i - 1)]
\* yvals[i]: what the generator yields as its i-th value: "t" = a value spelling out the call (\o "#i"), or one of the
\* literals "None", "0", "''", "False" (a generator may legitimately produce None / falsy values, e.g. a bare `yield`)
Terms(m) == [i \in 1..m |-> "t"]
\* onames / odecl: <<>> for a node built with fluent.Node (which names its outputs itself).  A HAND-BUILT multi-output node
\* (graph.Node with a (func, args, kwargs) payload) names its outputs freely: onames lists them in key-sorted order -- the order
\* cascade documents for binding ("Assumes key-sorted corresponds to func output order": the i-th yielded value belongs to
\* onames[i]) -- and odecl is the order in which the author wrote them in Node(outputs = [...]) (positions in onames)
MkNodeH(nout, yields, ins, st, v, yv, onames, odecl) ==
  [nout |-> nout, yields |-> yields, yvals |-> yv, coords |-> Coords(nout), inputs |-> ins,
   args |-> Args(st, Len(ins), v), kwargs |-> Kwargs(st, v), onames |-> onames, odecl |-> odecl, fn |-> "", hname |-> ""]
MkNodeY(nout, yields, ins, st, v, yv) == MkNodeH(nout, yields, ins, st, v, yv, <<>>, <<>>)
MkNodeV(nout, yields, ins, st, v) == MkNodeY(nout, yields, ins, st, v, Terms(yields))
MkNode(nout, yields, ins, st) == MkNodeV(nout, yields, ins, st, IntA(7))

\* (1) argument binding: every DAG with <= MaxN nodes, the first and the last node with one or two outputs
Srcs(j, nouts) == {<<i, o>> \in (1..(j - 1)) \X (0..1) : o < nouts[i]}
InSeqs(j, nouts) == UNION {[1..m -> Srcs(j, nouts)] : m \in 0..MaxIn}
RECURSIVE InsUpTo(_, _)
InsUpTo(j, nouts) == IF j = 0 THEN {<<>>} ELSE {Append(p, s) : p \in InsUpTo(j - 1, nouts), s \in InSeqs(j, nouts)}
NOuts(n) == {f \in [1..n -> 1..2] : \A j \in 1..n : (1 < j /\ j < n) => f[j] = 1}
\* every static value for graphs with <= FullStaticsN nodes, an ordinary one and None up to 3 nodes, None above
StaticsFor(n) == IF n <= FullStaticsN THEN Statics ELSE IF n <= 3 THEN FewStatics ELSE {NoneA}
BindCases == UNION {UNION {{[nodes |-> [j \in 1..n |-> MkNodeV(nouts[j], nouts[j], ins[j], st, v)]] :
                              ins \in InsUpTo(n, nouts), st \in 1..6, v \in StaticsFor(n)} :
                           nouts \in NOuts(n)} : n \in 1..MaxN}

\* (2) output binding: a generator g with N outputs (optionally fed by a source) yielding N - 1, N or N + 1 values,
\*     and, when the count is right, no consumer / a consumer of one output / a consumer of two outputs
Idx(N) == {0, 1, 2, 9, 10, N - 1} \cap (0..(N - 1))
GenGraphY(N, M, fed, cons, yv) ==
  LET g == IF fed THEN 2 ELSE 1
      pre == IF fed THEN <<MkNode(1, 1, <<>>, 4)>> ELSE <<>>
      gen == MkNodeY(N, M, IF fed THEN <<<<1, 0>>>> ELSE <<>>, 4, IntA(7), yv)
  IN [nodes |-> pre \o <<gen>> \o (IF cons = <<>> THEN <<>> ELSE <<MkNode(1, 1, [k \in DOMAIN cons |-> <<g, cons[k]>>], 3)>>)]
GenGraph(N, M, fed, cons) == GenGraphY(N, M, fed, cons, Terms(M))
Consumers(N) == {<<>>} \cup {<<i>> : i \in Idx(N)} \cup {<<i, j>> : <<i, j>> \in {p \in Idx(N) \X Idx(N) : p[1] # p[2]}}
Literals == {"None", "0", "''", "False"}
OutCases == UNION {{GenGraph(N, N, fed, cons) : fed \in BOOLEAN, cons \in Consumers(N)} : N \in GenOuts}
       \cup UNION {{GenGraph(N, M, fed, <<>>) : M \in {N - 1, N + 1}, fed \in BOOLEAN} : N \in GenOuts}
\* (3) None / falsy yielded values: as every regular value, as the last regular value, as the surplus value of an N + 1 yield,
\*     as the last value of an N - 1 yield
FalsyCases ==
          UNION {{GenGraphY(N, N, fed, cons, [i \in 1..N |-> l]) : fed \in BOOLEAN, cons \in {<<>>, <<0>>, <<N - 1>>}, l \in Literals} : N \in GenOuts}
     \cup UNION {{GenGraphY(N, N, FALSE, cons, [i \in 1..N |-> IF i = N THEN l ELSE "t"]) : cons \in {<<>>, <<N - 1>>}, l \in Literals} : N \in GenOuts}
     \cup UNION {{GenGraphY(N, N + 1, fed, <<>>, [i \in 1..(N + 1) |-> IF i = N + 1 THEN l ELSE "t"]) : fed \in BOOLEAN, l \in Literals} : N \in GenOuts}
     \cup UNION {{GenGraphY(N, N + 1, FALSE, <<>>, [i \in 1..(N + 1) |-> l]) : l \in Literals} : N \in GenOuts}
     \cup UNION {{GenGraphY(N, N - 1, FALSE, <<>>, [i \in 1..(N - 1) |-> l]) : l \in Literals} : N \in GenOuts}

\* (4) hand-built generators whose output names differ in length / are un-padded numbers / differ in case, declared in sorted,
\*     reversed or rotated order; written here in key-sorted (code point) order
SortedNameSets == {<<"aa", "b", "c">>, <<"10", "9">>, <<"0", "1", "10", "2">>, <<"a", "ab", "b">>, <<"B", "a">>, <<"1", "10", "100", "11", "2">>}
Decls(n) == {[i \in 1..n |-> i], [i \in 1..n |-> n + 1 - i], [i \in 1..n |-> (i % n) + 1]}
HandGraph(names, decl, M, fed, cons) ==
  LET N == Len(names)
      g == IF fed THEN 2 ELSE 1
      pre == IF fed THEN <<MkNode(1, 1, <<>>, 4)>> ELSE <<>>
      gen == MkNodeH(N, M, IF fed THEN <<<<1, 0>>>> ELSE <<>>, 4, IntA(7), Terms(M), names, decl)
  IN [nodes |-> pre \o <<gen>> \o (IF cons = <<>> THEN <<>> ELSE <<MkNode(1, 1, [k \in DOMAIN cons |-> <<g, cons[k]>>], 3)>>)]
HandCases == UNION {{HandGraph(nm, d, Len(nm), fed, cons) : d \in Decls(Len(nm)), fed \in BOOLEAN,
                                                           cons \in {<<>>} \cup {<<i>> : i \in 0..(Len(nm) - 1)} \cup {<<Len(nm) - 1, 0>>}} : nm \in SortedNameSets}
        \cup UNION {{HandGraph(nm, d, M, FALSE, <<>>) : d \in Decls(Len(nm)), M \in {Len(nm) - 1, Len(nm) + 1}} : nm \in SortedNameSets}

\* (5) ONE callable object ("s", the same function object for every node and every case of the run) used by nodes that declare
\*     different outputs: s(n, tag, ...) returns a plain value for n = 0 and yields n values otherwise; fluent nodes with 1 / 2 /
\*     3 / 11 outputs and hand-built ones with other output names, two such nodes in one graph in both orders (and, the cases
\*     being lowered one after the other in one process, across lowerings), optionally with a consumer of the last output
SNode(j, nout, onames) == [MkNodeH(nout, nout, <<>>, 1, IntA(7), Terms(nout), onames, [i \in DOMAIN onames |-> i])
                             EXCEPT !.args = <<IntA(IF nout = 1 THEN 0 ELSE nout), IntA(100 + j)>>, !.fn = "s"]
SKinds == {<<1, <<>>>>, <<2, <<>>>>, <<3, <<>>>>, <<11, <<>>>>, <<2, <<"a", "b">>>>, <<3, <<"aa", "b", "c">>>>}
SharedFnCases == {[nodes |-> <<SNode(1, k1[1], k1[2]), SNode(2, k2[1], k2[2])>>] : k1 \in SKinds, k2 \in SKinds}
            \cup {[nodes |-> <<SNode(1, k1[1], k1[2]), SNode(2, k2[1], k2[2]), MkNode(1, 1, <<<<2, k2[1] - 1>>, <<1, k1[1] - 1>>>>, 3)>>] :
                     k1 \in SKinds, k2 \in SKinds}
            \cup {[nodes |-> <<SNode(1, k[1], k[2])>>] : k \in SKinds}

\* (7) one upstream value -- ordinary, None, 0, '', False; the value of a plain function or one value of a generator -- consumed
\*     by two tasks and / or by two parameters of one task, with the tasks placed on workers (one runner Memory per worker, as
\*     the worker loop keeps it) in three ways: "each" task on its own worker, all on "one" worker in sequence, the producer on
\*     one worker and all "consumers" together on another.  What a task receives must not depend on the placement.
Vals == {"t", "None", "0", "''", "False"}
Producer(v, gen) == IF gen THEN MkNodeY(2, 2, <<>>, 2, IntA(7), <<"t", v>>) ELSE MkNodeY(1, 1, <<>>, 2, IntA(7), <<v>>)
ConsN(o, st, twice) == MkNode(1, 1, IF twice THEN <<<<1, o>>, <<1, o>>>> ELSE <<<<1, o>>>>, st)
SameValueCases ==
  UNION {{[place |-> pl, nodes |-> <<Producer(v, gen)>> \o cs] :
            pl \in {"each", "one", "consumers"},
            cs \in {<<ConsN(o, 3, FALSE), ConsN(o, 4, FALSE)>>, <<ConsN(o, 3, TRUE)>>, <<ConsN(o, 5, TRUE), ConsN(o, 1, FALSE)>>,
                    <<ConsN(o, 1, FALSE), ConsN(o, 3, FALSE), ConsN(o, 6, TRUE)>>}}
         : <<v, gen, o>> \in {<<v, FALSE, 0>> : v \in Vals} \cup {<<v, TRUE, 1>> : v \in Vals}}
\* and every placement for the graphs of part (3) that have a consumer
PlacedFalsy == {[place |-> pl, nodes |-> c.nodes] : pl \in {"one", "consumers"}, c \in {c \in FalsyCases : Len(c.nodes) >= 2}}

\* (8) hand-built generators whose NAMES and output names contain the characters that code joining "<task><sep><output>" could
\*     use as separator ('.', ':', '/', '|', none), chosen so that two different datasets coincide once joined:
\*     ("a.b", "c") / ("a", "b.c"), ("g1", "0") / ("g", "10"); both are consumed, by one task and by two, on other workers
\*     than their producers (every value travels through shared memory); every dataset has its own value
HNamed(name, onames) == [MkNodeH(2, 2, <<>>, 4, IntA(7), Terms(2), onames, <<1, 2>>) EXCEPT !.hname = name]
ClashPairs == {<<HNamed("a" \o sp \o "b", <<"c", "d">>), HNamed("a", <<"b" \o sp \o "c", "x">>)>> : sp \in {".", ":", "/", "|"}}
         \cup {<<HNamed("g1", <<"0", "1">>), HNamed("g", <<"10", "2">>)>>, <<HNamed("g", <<"10", "2">>), HNamed("g1", <<"0", "1">>)>>}
ClashCases == {[place |-> pl, nodes |-> <<hp[1], hp[2]>> \o cs] :
                  hp \in ClashPairs, pl \in {"each", "consumers"},
                  cs \in {<<MkNode(1, 1, <<<<1, 0>>, <<2, 0>>>>, 3)>>, <<MkNode(1, 1, <<<<2, 0>>, <<1, 0>>>>, 1)>>,
                          <<MkNode(1, 1, <<<<1, 0>>>>, 3), MkNode(1, 1, <<<<2, 0>>>>, 3)>>, <<>>}}

\* (6) hand-built JOBS (no graph, no graph2job): single-output tasks made with TaskBuilder.from_callable(..).with_values(..)
\*     ("from_callable": the signature defaults are recorded as static keyword values) or as raw TaskInstances ("raw"), edges
\*     made by hand.  An "in" item among args / as a kwargs value is an edge into that position / keyword; `shadow` is the static
\*     value that the task ALSO holds for every edge-fed position / keyword ("absent": none beyond what from_callable recorded).
\*     The upstream value must win: the reference (Render of an "in" item) does not even look at shadow.
Absent == [t |-> "absent", i |-> 0, s |-> ""]
JNode(ins, args, kwargs, via, shadow) ==
  [MkNodeH(1, 1, ins, 1, IntA(7), Terms(1), <<>>, <<>>) EXCEPT !.args = args, !.kwargs = kwargs] @@ [via |-> via, shadow |-> shadow]
JSrc(j) == JNode(<<>>, <<IntA(6 + j)>>, <<>>, "raw", Absent)
One == <<<<1, 0>>>>
Two == <<<<1, 0>>, <<2, 0>>>>
JobCases ==
  {[job |-> TRUE, nodes |-> <<JSrc(1), JNode(One, <<>>, kw, "from_callable", sh)>>] :
      kw \in {<<<<"k", InA(1)>>>>, <<<<"k", InA(1)>>, <<"z", StrA("s")>>>>, <<<<"k", IntA(5)>>, <<"z", InA(1)>>>>}, sh \in {Absent, IntA(99), NoneA, IntA(0)}}
  \cup {[job |-> TRUE, nodes |-> <<JSrc(1), JSrc(2), JNode(Two, <<>>, kw, "from_callable", sh)>>] :
      kw \in {<<<<"k", InA(1)>>, <<"z", InA(2)>>>>, <<<<"k", InA(2)>>, <<"z", InA(1)>>>>}, sh \in {Absent, IntA(99), NoneA}}
  \cup {[job |-> TRUE, nodes |-> <<JSrc(1), JNode(One, ak[1], ak[2], "raw", sh)>>] :
      ak \in {<<<<InA(1)>>, <<>>>>, <<<<IntA(7), InA(1)>>, <<>>>>, <<<<InA(1), IntA(7)>>, <<<<"k", IntA(5)>>>>>>,
              <<<<IntA(7)>>, <<<<"k", InA(1)>>>>>>, <<<<>>, <<<<"k", InA(1)>>, <<"z", StrA("s")>>>>>>}, sh \in {Absent, IntA(99), NoneA, IntA(0)}}
  \cup {[job |-> TRUE, nodes |-> <<JSrc(1), JSrc(2), JNode(Two, ak[1], ak[2], "raw", sh)>>] :
      ak \in {<<<<InA(2), InA(1)>>, <<>>>>, <<<<InA(1)>>, <<<<"z", InA(2)>>>>>>, <<<<>>, <<<<"k", InA(2)>>, <<"z", InA(1)>>>>>>}, sh \in {Absent, IntA(99), NoneA}}

\* ======================================================================== reference semantics
RECURSIVE JoinSeq(_, _)
JoinSeq(s, sep) == IF s = <<>> THEN "" ELSE IF Len(s) = 1 THEN s[1] ELSE s[1] \o sep \o JoinSeq(Tail(s), sep)
Name(j) == "n" \o ToString(j)
Label(c, j) == IF c.nodes[j].fn = "" THEN Name(j) ELSE c.nodes[j].fn      \* __name__ of the callable of node j
\* the positional arguments as fluent.Node completes them: inputs that args does not mention are appended in input order
Mentioned(nd) == {nd.args[k].i : k \in {k \in DOMAIN nd.args : nd.args[k].t = "in"}}
                 \cup {nd.kwargs[k][2].i : k \in {k \in DOMAIN nd.kwargs : nd.kwargs[k][2].t = "in"}}      \* (job cases only)
FinalArgs(nd) == nd.args \o [m \in 1..Cardinality((1..Len(nd.inputs)) \ Mentioned(nd)) |->
                               InA(SetToSortSeq((1..Len(nd.inputs)) \ Mentioned(nd), LAMBDA x, y : x < y)[m])]
PosOfInput(nd, k) == CHOOSE p \in DOMAIN FinalArgs(nd) : FinalArgs(nd)[p].t = "in" /\ FinalArgs(nd)[p].i = k
RECURSIVE CallStr(_, _)
OutStr(c, p, o) == IF c.nodes[p].yvals[o + 1] # "t" THEN c.nodes[p].yvals[o + 1]      \* a literal None / 0 / '' / False
                   ELSE IF c.nodes[p].nout = 1 THEN CallStr(c, p)
                   ELSE CallStr(c, p) \o "#" \o ToString(o)
Render(c, j, a) == IF a.t = "int" THEN ToString(a.i)
                   ELSE IF a.t = "str" THEN "'" \o a.s \o "'"
                   ELSE IF a.t = "none" THEN "None"
                   ELSE IF a.t = "bool" THEN (IF a.i = 1 THEN "True" ELSE "False")
                   ELSE OutStr(c, c.nodes[j].inputs[a.i][1], c.nodes[j].inputs[a.i][2])
CallStr(c, j) == LET nd == c.nodes[j]
                     F == FinalArgs(nd)
                 IN Label(c, j) \o "(" \o JoinSeq([k \in DOMAIN F |-> Render(c, j, F[k])], ",") \o "){"
                            \o JoinSeq([k \in DOMAIN nd.kwargs |-> nd.kwargs[k][1] \o "=" \o Render(c, j, nd.kwargs[k][2])], ",") \o "}"

Mismatch(c, j) == c.nodes[j].nout > 1 /\ c.nodes[j].yields # c.nodes[j].nout
ParentsOf(c, j) == {c.nodes[j].inputs[k][1] : k \in DOMAIN c.nodes[j].inputs}
RECURSIVE Anc(_, _, _)
Anc(c, S, k) == IF k = 0 THEN S ELSE Anc(c, S \cup UNION {ParentsOf(c, i) : i \in S}, k - 1)
\* nodes all of whose proper ancestors deliver: these must be called, with the right arguments
Reached(c, j) == \A i \in Anc(c, ParentsOf(c, j), Len(c.nodes)) : ~Mismatch(c, i)

\* ======================================================================== post-condition
\* r = [names |-> <<task name of node j>>, declared |-> <<<<output names of node j in the author's order>>>>,
\*      coords |-> << <<  <<label, output name>> .. >> >> (per node: what fluent.Action maps each coordinate to; <<>> if nout = 1),
\*      tasks |-> <<[name, outputs |-> <<..>>, static_ps |-> << <<pos, rendered>> >>, static_kw |-> << <<key, rendered>> >>]>>,
\*      edges |-> << <<source task, source output, sink task, position or -1, keyword or "">> >>,
\*      calls |-> << <<task during whose run the call was observed, rendered call>> >>, failures |-> <<task>>, datasets |-> << <<task, output, rendered value>> >>]
Post(c, r) ==
  LET n == Len(c.nodes)
      nm(j) == r.names[j]
      \* the output that the o-th yielded value belongs to: fluent nodes: the o-th declared; hand-built: the o-th key-sorted
      OutName(j, o) == IF c.nodes[j].onames # <<>> THEN c.nodes[j].onames[o + 1] ELSE r.declared[j][o + 1]
      task(j) == CHOOSE t \in SetOf(r.tasks) : t.name = nm(j)
      expEdges == {<<nm(c.nodes[j].inputs[k][1]), OutName(c.nodes[j].inputs[k][1], c.nodes[j].inputs[k][2]), nm(j),
                     PosOfInput(c.nodes[j], k) - 1, "">> : <<j, k>> \in {p \in (1..n) \X (1..MaxIn) : p[2] <= Len(c.nodes[p[1]].inputs)}}
      nEdges == Cardinality({p \in (1..n) \X (1..MaxIn) : p[2] <= Len(c.nodes[p[1]].inputs)})
      StaticPos(j) == {p \in DOMAIN FinalArgs(c.nodes[j]) : FinalArgs(c.nodes[j])[p].t # "in"}
      structOK == {t.name : t \in SetOf(r.tasks)} = {nm(j) : j \in 1..n} /\ Len(r.tasks) = n /\ Cardinality({nm(j) : j \in 1..n}) = n
      isJob == "job" \in DOMAIN c       \* a hand-built job: its structure is the harness' own, only the run is judged
      good == {j \in 1..n : Reached(c, j) /\ ~Mismatch(c, j)}
      DS(j) == {d \in SetOf(r.datasets) : d[1] = nm(j)}
  IN
  IF ~structOK THEN {"tasks_are_not_the_nodes"}
  ELSE (IF isJob \/ (SetOf(r.edges) = expEdges /\ Len(r.edges) = nEdges) THEN {} ELSE {"edges_are_not_the_inputs"})
  \cup (IF \A j \in 1..n : SetOf(task(j).outputs) = SetOf(r.declared[j]) /\ Len(task(j).outputs) = c.nodes[j].nout /\ Len(r.declared[j]) = c.nodes[j].nout
        THEN {} ELSE {"outputs_are_not_the_declared"})
  \cup (IF isJob \/ \A j \in 1..n :
             /\ \A p \in StaticPos(j) : <<p - 1, Render(c, j, FinalArgs(c.nodes[j])[p])>> \in SetOf(task(j).static_ps)
             /\ \A e \in SetOf(task(j).static_ps) : (e[1] + 1) \in DOMAIN FinalArgs(c.nodes[j])
                                                    /\ ((e[1] + 1) \in StaticPos(j) => e[2] = Render(c, j, FinalArgs(c.nodes[j])[e[1] + 1]))
             /\ SetOf(task(j).static_kw) = {<<c.nodes[j].kwargs[k][1], Render(c, j, c.nodes[j].kwargs[k][2])>> : k \in DOMAIN c.nodes[j].kwargs}
        THEN {} ELSE {"static_arguments_wrong"})
  \cup (IF \A j \in {j \in 1..n : Reached(c, j)} :
             {k \in DOMAIN r.calls : r.calls[k][1] = nm(j)} # {}
             /\ \A k \in DOMAIN r.calls : r.calls[k][1] = nm(j) => r.calls[k][2] = CallStr(c, j)
        THEN {} ELSE {"callable_received_wrong_arguments"})
  \cup (IF \A j \in {j \in 1..n : Reached(c, j)} : Cardinality({k \in DOMAIN r.calls : r.calls[k][1] = nm(j)}) <= 1
        THEN {} ELSE {"callable_called_twice"})
  \cup (IF \A j \in good : DS(j) = {<<nm(j), OutName(j, o), OutStr(c, j, o)>> : o \in 0..(c.nodes[j].nout - 1)}
        THEN {} ELSE {"value_stored_under_wrong_output"})
  \cup (IF \A j \in {j \in good : c.nodes[j].nout > 1 /\ c.nodes[j].onames = <<>>} :
             /\ Len(r.coords[j]) = c.nodes[j].nout
             /\ \A i \in 1..c.nodes[j].nout : /\ r.coords[j][i][1] = c.nodes[j].coords[i]
                                              /\ <<nm(j), r.coords[j][i][2], OutStr(c, j, i - 1)>> \in DS(j)
        THEN {} ELSE {"coordinate_bound_to_wrong_value"})
  \cup (IF \A j \in {j \in 1..n : Reached(c, j) /\ Mismatch(c, j)} : nm(j) \in SetOf(r.failures)
        THEN {} ELSE {"count_mismatch_not_reported"})
  \cup (IF \A j \in good : nm(j) \notin SetOf(r.failures) THEN {} ELSE {"task_failure_without_cause"})

\* ======================================================================== the two TLC passes
Generate == JsonSerialize(IOEnv.CASES_FILE, SetToSeq(BindCases) \o SetToSeq(OutCases) \o SetToSeq(FalsyCases) \o SetToSeq(HandCases) \o SetToSeq(SharedFnCases) \o SetToSeq(JobCases) \o SetToSeq(SameValueCases) \o SetToSeq(PlacedFalsy) \o SetToSeq(ClashCases))
Judge ==
  LET cs == JsonDeserialize(IOEnv.CASES_FILE)
      rs == JsonDeserialize(IOEnv.RESULTS_FILE)
  IN \A i \in DOMAIN cs :
       LET bad == IF "error" \in DOMAIN rs[i] THEN {"raised"} ELSE Post(cs[i], rs[i])
       IN bad = {} \/ PrintT("B|" \o ToString(i) \o "|" \o ToString(bad))
=============================================================================
