------------------------------- MODULE Cascade -------------------------------
(***************************************************************************)
(* The cascade controller loop (controller/impl.py), the scheduler's       *)
(* bookkeeping (scheduler/api.py, scheduler/assign.py, controller/notify,  *)
(* controller/act) and an abstract cluster of executors behind the Bridge. *)
(*                                                                         *)
(* Written to be bound: one action per critical section of the code, the   *)
(* same variable split as scheduler.core.State.  Every action is given in  *)
(* functional form                                                         *)
(*      XGuards(args)  the set of *names* of violated pre-conditions       *)
(*      XNext(args)    the successor state [c, x, g]                       *)
(* so that CascadeTrace.tla can re-use the very same definitions to give a *)
(* total, clause-named verdict on executions recorded from the real code.  *)
(*                                                                         *)
(*   c  controller state   (projection of scheduler.core.State)            *)
(*   x  executors          (ground truth: what hosts hold, channels)       *)
(*   g  ghost / history    (dispatch counts, outstanding commands, flags)  *)
(***************************************************************************)
EXTENDS Naturals, Sequences, FiniteSets, TLC, SequencesExt, FiniteSetsExt

CONSTANTS
  Task,         \* set of task ids
  Outs,         \* [Task -> Seq(output name)]  in publication (= key-sorted) order, length >= 1
  Edges,        \* set of << <<src task, output>>, sink task >>
  Host,         \* set of host ids
  WorkersOf,    \* [Host -> non-empty set of worker ids], pairwise disjoint
  GpuWorkers,   \* workers that own a GPU
  GpuTasks,     \* tasks that need one
  Ext,          \* requested outputs
  CompOf,       \* [Task -> component id]  as scheduler.graph.precompute numbers them
  Refetch       \* FALSE: only the producer's publication queues the fetch of a requested output (design, and the
                \* code since the fix recorded in known_findings.json); TRUE: every replica announcement re-queues it

NoComp == "none"
Ctrl   == "ctrl"

DS          == UNION {{<<t, Outs[t][i]>> : i \in 1..Len(Outs[t])} : t \in Task}
Worker      == UNION {WorkersOf[h] : h \in Host}
HostOf(w)   == CHOOSE h \in Host : w \in WorkersOf[h]
InputsOf(t)    == {e[1] : e \in {y \in Edges : y[2] = t}}
ConsumersOf(d) == {e[2] : e \in {y \in Edges : y[1] = d}}
OutsOf(t)   == {<<t, Outs[t][i]>> : i \in 1..Len(Outs[t])}
LastOut(t)  == <<t, Outs[t][Len(Outs[t])]>>
Comps       == {CompOf[t] : t \in Task}
TasksOf(cc) == {t \in Task : CompOf[t] = cc}
Sources     == {t \in Task : InputsOf(t) = {}}

\* weakly connected components, to validate CompOf (what precompute computed) at start-up
Adj(t) == {u \in Task : \E e \in Edges : (e[1][1] = t /\ e[2] = u) \/ (e[1][1] = u /\ e[2] = t)}
RECURSIVE Reach(_, _)
Reach(S, n) == IF n = 0 THEN S ELSE Reach(S \cup UNION {Adj(t) : t \in S}, n - 1)
WCC(t) == Reach({t}, Cardinality(Task))

ASSUME CompOfIsWCC == \A t, u \in Task : (CompOf[t] = CompOf[u]) <=> (u \in WCC(t))
ASSUME ExtOk       == Ext \subseteq DS
ASSUME EdgesOk     == \A e \in Edges : e[1] \in DS /\ e[2] \in Task

VARIABLES c, x, g
vars == <<c, x, g>>

Perms(S) == {s \in [1..Cardinality(S) -> S] : \A i, j \in 1..Cardinality(S) : i # j => s[i] # s[j]}
Rng(s)   == {s[i] : i \in 1..Len(s)}
SelectSeqIdx(s, P(_)) == SelectSeq(s, P)

(***************************************************************************)
(* Initial state = scheduler.api.initialize                                *)
(***************************************************************************)
InitC ==
  [ pc         |-> IF Sources # {} \/ Ext # {} THEN "assign" ELSE "done",
    tracker    |-> [t \in Task |-> InputsOf(t)],             \* is_computable_tracker
    computable |-> Sources,                                   \* union of component.computable keys
    idle       |-> Worker,                                    \* idle_workers
    ongoing    |-> [w \in Worker |-> {}],
    dsHost     |-> [d \in DS |-> [h \in Host |-> "missing"]], \* ds2host
    wprep      |-> {},                                        \* keys of worker2ds: <<d, w>>
    ptrack     |-> [d \in DS |-> ConsumersOf(d)],             \* purging_tracker
    purgeQ     |-> {},                                        \* purging_queue (as a set)
    fetchQ     |-> <<>>,                                      \* fetching_queue: sequence of <<d, h>> in insertion order
    fetched    |-> {},                                        \* requested outputs whose value arrived
    fetchIssued|-> {},                                        \* requested outputs for which a fetch was commanded
    hostComp   |-> [h \in Host |-> NoComp],
    weight     |-> [cc \in Comps |-> Cardinality(TasksOf(cc))],
    w2tValues  |-> [cc \in Comps |-> Sources \cap TasksOf(cc)],
    distKeys   |-> [cc \in Comps |-> {}],                      \* workers having a worker2task_distance entry
    ovhKeys    |-> {},                                        \* <<w, t>> with a worker2task_overhead entry
    round      |-> {},                                        \* assignments of this round: <<w, t, prepared datasets>>
    migrants   |-> {}, migSnap |-> {},
    done       |-> {} ]                                       \* tasks the controller saw complete

InitX ==
  [ held     |-> [h \in Host |-> {}],      \* datasets really in the host's store
    invalid  |-> [h \in Host |-> {}],      \* purged at the host's data server
    toHost   |-> [h \in Host |-> <<>>],    \* controller -> executor h (FIFO): task sequences and purges
    inbox    |-> [w \in Worker |-> <<>>],  \* executor -> worker
    running  |-> [w \in Worker |-> <<>>],  \* <<t, index of next output>>
    toData   |-> [h \in Host |-> <<>>],    \* controller -> data server h (FIFO): transmit / fetch commands
    events   |-> [h \in Host |-> <<>>],    \* executor h -> controller (FIFO): DatasetPublished
    payloads |-> {},                       \* fetch replies on their way to the controller: <<d, src>>
    inflight |-> {} ]                      \* payloads on their way to another host: <<d, src, tgt>>

InitG ==
  [ dispatched  |-> [t \in Task |-> 0],
    published   |-> {},                    \* datasets ever published by a worker
    purged      |-> {},                    \* datasets for which a purge was ever commanded
    finished    |-> {},                    \* tasks whose worker really published the last output (ground truth of "completed")
    outstanding |-> {},                    \* unanswered commands: <<"x"|"f", d, src, tgt>>
    didwork     |-> FALSE,                 \* did this loop iteration command or wait
    flags       |-> {} ]                   \* names of violated clauses (see the invariants at the end)

Init == c = InitC /\ x = InitX /\ g = InitG

HasComputable(cs) == cs.computable # {}
HasAwaitable(cs)  == (\E w \in Worker : cs.ongoing[w] # {}) \/ (Ext \ cs.fetched # {})

Pack(cs, xs, gs) == [c |-> cs, x |-> xs, g |-> gs]
Flag(gs, S) == [gs EXCEPT !.flags = @ \cup S]

(***************************************************************************)
(* assign: scheduler.assign.build_assignment + controller.act.act + the    *)
(* pops of _assignment_heuristic, for one (worker, task).                  *)
(*   prep: sequence of <<dataset, source host>> = the transmit commands,   *)
(*   in the order they were sent.                                          *)
(***************************************************************************)
Remote(w, t) == {d \in InputsOf(t) : <<d, w>> \notin c.wprep /\ c.dsHost[d][HostOf(w)] = "missing"}
Local(w, t)  == {d \in InputsOf(t) : <<d, w>> \notin c.wprep /\ c.dsHost[d][HostOf(w)] # "missing"}
AvailAt(d)   == {h \in Host : c.dsHost[d][h] = "available"}

\* ground truth: the worker has a task running, queued, or on its way
WorkerBusy(w) == \/ x.running[w] # <<>> \/ x.inbox[w] # <<>>
                 \/ \E i \in 1..Len(x.toHost[HostOf(w)]) : x.toHost[HostOf(w)][i].k = "task" /\ x.toHost[HostOf(w)][i].w = w

AssignGuards(w, t, prep) ==
     (IF c.pc \in {"assign", "migrate"} THEN {} ELSE {"assign_pc"})
\cup (IF t \in c.computable THEN {} ELSE {"assign_task_not_computable"})
\cup (IF w \in c.idle /\ c.ongoing[w] = {} THEN {} ELSE {"assign_worker_busy"})
\cup (IF c.hostComp[HostOf(w)] = CompOf[t] THEN {} ELSE {"assign_other_component"})
\cup (IF t \in GpuTasks => w \in GpuWorkers THEN {} ELSE {"assign_gpu"})
\cup (IF {p[1] : p \in Rng(prep)} = Remote(w, t) /\ Len(prep) = Cardinality(Remote(w, t))
      THEN {} ELSE {"assign_prep_not_exact"})
\cup (IF \A i \in 1..Len(prep) : prep[i][2] \in AvailAt(prep[i][1]) THEN {} ELSE {"assign_source_not_available"})
\cup (IF w \in c.distKeys[CompOf[t]] THEN {} ELSE {"assign_missing_distance_key"})

AssignNext(w, t, prep) ==
  LET h   == HostOf(w)
      cc  == CompOf[t]
      rem == {p[1] : p \in Rng(prep)}
      cmd(i) == [k |-> "transmit", d |-> prep[i][1], tgt |-> h]
      newFlags ==
           (IF \E i \in 1..Len(prep) : prep[i][1] \notin x.held[prep[i][2]] THEN {"source_lacks_dataset"} ELSE {})
      \cup (IF \E d \in InputsOf(t) : d \in g.purged THEN {"needed_after_purge"} ELSE {})
      \cup (IF \E d \in InputsOf(t) : d \notin g.published THEN {"input_not_produced"} ELSE {})
      \cup (IF \E d \in InputsOf(t) : d \notin x.held[h] /\ d \notin rem
                    /\ ~(\E o \in g.outstanding : o[1] = "x" /\ o[2] = d /\ o[4] = h)
            THEN {"input_neither_present_nor_commanded"} ELSE {})
      \cup (IF g.dispatched[t] >= 1 THEN {"dispatched_twice"} ELSE {})
      \cup (IF WorkerBusy(w) THEN {"dispatched_to_busy_worker"} ELSE {})
      \cup (IF t \in GpuTasks /\ w \notin GpuWorkers THEN {"dispatched_without_gpu"} ELSE {})
      cs == [c EXCEPT
               !.dsHost     = [d \in DS |-> IF d \in rem THEN [@[d] EXCEPT ![h] = "preparing"] ELSE @[d]],
               !.computable = @ \ {t},
               !.idle       = @ \ {w},
               !.weight     = [@ EXCEPT ![cc] = IF @ > 0 THEN @ - 1 ELSE 0],
               !.w2tValues  = [@ EXCEPT ![cc] = @ \ {t}],
               !.round      = @ \cup {<<w, t, rem \cup Local(w, t)>>}]
      xs == [x EXCEPT
               !.toData = [hh \in Host |-> @[hh] \o
                              LET idx == SelectSeq([i \in 1..Len(prep) |-> i], LAMBDA i : prep[i][2] = hh)
                              IN  [j \in 1..Len(idx) |-> cmd(idx[j])]],
               !.toHost = [@ EXCEPT ![h] = Append(@, [k |-> "task", w |-> w, t |-> t])]]
      gs == [g EXCEPT
               !.dispatched  = [@ EXCEPT ![t] = @ + 1],
               !.outstanding = @ \cup {<<"x", prep[i][1], prep[i][2], h>> : i \in 1..Len(prep)},
               !.didwork     = TRUE,
               !.flags       = @ \cup newFlags]
  IN Pack(cs, xs, gs)

(***************************************************************************)
(* step II of scheduler.api.assign: hosts without work migrate             *)
(***************************************************************************)
AssignableNow == \E w \in c.idle, t \in c.computable :
                    c.hostComp[HostOf(w)] = CompOf[t] /\ (t \in GpuTasks => w \in GpuWorkers)

StartMigrateGuards ==
     (IF c.pc = "assign" THEN {} ELSE {"migrate_pc"})
\cup (IF c.idle # {} /\ (\E cc \in Comps : c.weight[cc] > 0) THEN {} ELSE {"migrate_nothing_to_do"})

StartMigrateNext ==
  Pack([c EXCEPT !.pc = "migrate",
                 !.migSnap = {cc \in Comps : c.weight[cc] > 0},
                 !.migrants = {h \in Host : \E w \in c.idle \cap WorkersOf[h] :
                                   c.hostComp[h] = NoComp \/ c.weight[c.hostComp[h]] = 0}], x, g)

MigrateGuards(h, cc) ==
     (IF c.pc = "migrate" THEN {} ELSE {"migrate_pc"})
\cup (IF h \in c.migrants THEN {} ELSE {"migrate_host_not_migrant"})
\cup (IF cc \in c.migSnap THEN {} ELSE {"migrate_to_exhausted_component"})

MigrateNext(h, cc) ==
  Pack([c EXCEPT !.hostComp = [@ EXCEPT ![h] = cc],
                 !.migrants = @ \ {h},
                 !.distKeys = [@ EXCEPT ![cc] = @ \cup WorkersOf[h]],
                 !.ovhKeys  = @ \cup {<<w, t>> : w \in WorkersOf[h], t \in c.w2tValues[cc]}], x, g)

(***************************************************************************)
(* plan (scheduler.api.plan) for all assignments of the round              *)
(***************************************************************************)
EndAssignGuards == IF c.pc \in {"assign", "migrate"} THEN {} ELSE {"plan_pc"}

EndAssignNext ==
  LET prepAt(w) == UNION {a[3] : a \in {y \in c.round : y[1] = w}}
      outAt(w)  == UNION {OutsOf(a[2]) : a \in {y \in c.round : y[1] = w}}
      allAt(w)  == prepAt(w) \cup outAt(w)
      hostAll(h) == UNION {allAt(w) : w \in WorkersOf[h]}
      \* children whose parent dataset was set "preparing" at a worker enter worker2task_values
      kids(cc) == {t \in TasksOf(cc) : \E w \in Worker :
                      (\E d \in prepAt(w) : t \in c.ptrack[d]) \/ (\E d \in outAt(w) : t \in ConsumersOf(d))}
      crash == IF \E a \in c.round : a[2] \in c.ongoing[a[1]] THEN {"crash_double_add"} ELSE {}
  IN Pack([c EXCEPT
             !.pc      = "flush",
             !.wprep   = @ \cup {dw \in DS \X Worker : dw[1] \in allAt(dw[2])},
             !.dsHost  = [d \in DS |-> [h \in Host |->
                             IF d \in hostAll(h) /\ @[d][h] # "available" THEN "preparing" ELSE @[d][h]]],
             !.ongoing = [w \in Worker |-> @[w] \cup {a[2] : a \in {y \in c.round : y[1] = w}}],
             !.w2tValues = [cc \in Comps |-> @[cc] \cup kids(cc)],
             !.round   = {}, !.migrants = {}, !.migSnap = {}],
          x, Flag(g, crash))

(***************************************************************************)
(* flush_queues (controller.act): fetches first, then purges               *)
(*   fseq: the fetch commands <<d, h>> in the order sent                   *)
(*   pseq: the purge commands <<h, d>> in the order sent                   *)
(***************************************************************************)
PurgeOk(cs, d) == cs.ptrack[d] = {} /\ (d \in Ext => d \in cs.fetched)
FlushPurgeSet == c.purgeQ \cup {d \in {p[1] : p \in Rng(c.fetchQ)} : PurgeOk(c, d)}
FlushPurgePairs == {<<h, d>> \in Host \X DS : d \in FlushPurgeSet /\ c.dsHost[d][h] # "missing"}

FlushGuards(fseq, pseq) ==
     (IF c.pc = "flush" THEN {} ELSE {"flush_pc"})
\cup (IF fseq = c.fetchQ THEN {} ELSE {"flush_fetches_differ"})
\cup (IF Rng(pseq) = FlushPurgePairs /\ Len(pseq) = Cardinality(FlushPurgePairs) THEN {} ELSE {"flush_purges_differ"})

FlushNext(fseq, pseq) ==
  LET fset  == Rng(fseq)
      pds   == {p[2] : p \in Rng(pseq)}
      pall  == pds \cup FlushPurgeSet
      newOut == g.outstanding \cup {<<"f", p[1], p[2], Ctrl>> : p \in fset}
      newFlags ==
           (IF \E p \in fset : p[1] \notin x.held[p[2]] THEN {"fetch_source_lacks_dataset"} ELSE {})
      \cup (IF \E p \in Rng(pseq) : \E o \in newOut : o[2] = p[2] /\ o[3] = p[1]
            THEN {"purge_under_unanswered_command"} ELSE {})
      \cup (IF \E d \in pds : ConsumersOf(d) \ g.finished # {} THEN {"purge_before_consumers_done"} ELSE {})
      \cup (IF \E d \in pds : d \in Ext /\ d \notin c.fetched THEN {"purge_before_delivery"} ELSE {})
      cs == [c EXCEPT
               !.pc     = "wait",
               !.fetchQ = <<>>,
               !.fetchIssued = @ \cup {p[1] : p \in fset},
               !.purgeQ = {},
               !.dsHost = [d \in DS |-> IF d \in pall THEN [h \in Host |-> "missing"] ELSE @[d]],
               !.wprep  = {dw \in @ : dw[1] \notin pall}]
      xs == [x EXCEPT
               !.toData = [h \in Host |-> @[h] \o
                              LET idx == SelectSeq([i \in 1..Len(fseq) |-> i], LAMBDA i : fseq[i][2] = h)
                              IN  [j \in 1..Len(idx) |-> [k |-> "fetch", d |-> fseq[idx[j]][1], tgt |-> Ctrl]]],
               !.toHost = [h \in Host |-> @[h] \o
                              LET idx == SelectSeq([i \in 1..Len(pseq) |-> i], LAMBDA i : pseq[i][1] = h)
                              IN  [j \in 1..Len(idx) |-> [k |-> "purge", d |-> pseq[idx[j]][2]]]]]
      gs == [g EXCEPT
               !.outstanding = newOut,
               !.purged      = @ \cup pds,
               !.didwork     = (@ \/ fseq # <<>> \/ pseq # <<>>),
               !.flags       = @ \cup newFlags]
  IN Pack(cs, xs, gs)

(***************************************************************************)
(* notify (controller.notify) for ONE event of the batch                   *)
(***************************************************************************)
\* DatasetPublished(origin, d, transmit_idx): h = host of origin, w = worker or "host", isX = transmit_idx # None
NotifyPublished(cs, gs, h, w, d, isX) ==
  LET t  == d[1]
      cc == CompOf[t]
      kids == cs.ptrack[d]
      \* consider_fetch
      wantFetch == d \in Ext /\ d \notin cs.fetched /\ ~(\E i \in 1..Len(cs.fetchQ) : cs.fetchQ[i][1] = d)
                   /\ (Refetch \/ ~isX)
      fq == IF wantFetch THEN Append(cs.fetchQ, <<d, h>>) ELSE cs.fetchQ
      \* consider_computable
      newlyComp == {k \in kids : cs.tracker[k] = {d}}
      ovh1 == {<<ww, k>> : ww \in WorkersOf[h], k \in kids \cap cs.computable}
      ovh2 == {<<ww, k>> : ww \in cs.distKeys[cc], k \in newlyComp}
      completes == ~isX /\ d = LastOut(t)
      ins == InputsOf(t)
      pt  == [y \in DS |-> IF completes /\ y \in ins THEN cs.ptrack[y] \ {t} ELSE cs.ptrack[y]]
      toPurge == IF completes THEN {y \in ins : pt[y] = {} /\ (y \in Ext => y \in cs.fetched)} ELSE {}
      crash == (IF completes /\ w \notin Worker THEN {"crash_malformed_origin"} ELSE {})
          \cup (IF completes /\ w \in Worker /\ t \notin cs.ongoing[w] THEN {"crash_not_ongoing"} ELSE {})
          \cup (IF completes /\ \E y \in ins : t \notin cs.ptrack[y] THEN {"crash_purging_tracker"} ELSE {})
      c1 == [cs EXCEPT
               !.dsHost     = [@ EXCEPT ![d][h] = "available"],
               !.fetchQ     = fq,
               !.tracker    = [k \in Task |-> IF k \in kids THEN @[k] \ {d} ELSE @[k]],
               !.computable = @ \cup newlyComp,
               !.ovhKeys    = @ \cup ovh1 \cup ovh2,
               !.ptrack     = pt,
               !.purgeQ     = @ \cup toPurge]
      c2 == IF completes /\ w \in Worker
            THEN [c1 EXCEPT !.ongoing = [@ EXCEPT ![w] = @ \ {t}],
                            !.idle    = IF cs.ongoing[w] \ {t} = {} THEN @ \cup {w} ELSE @,
                            !.done    = @ \cup {t}]
            ELSE c1
  IN [c |-> c2, g |-> Flag(gs, crash)]

RecvGuards == IF c.pc \in {"wait", "notify"} /\ (c.pc = "wait" => HasAwaitable(c)) THEN {} ELSE {"recv_pc"}

RecvEventNext(h) ==
  LET e == Head(x.events[h])
      r == NotifyPublished(c, g, h, e.w, e.d, e.x)
  IN Pack([r.c EXCEPT !.pc = "notify"],
          [x EXCEPT !.events = [@ EXCEPT ![h] = Tail(@)]],
          [r.g EXCEPT !.didwork = TRUE,
                      \* a transfer is answered once its announcement reached the controller (or earlier, see DataStore)
                      !.outstanding = IF e.x THEN {o \in @ : ~(o[1] = "x" /\ o[2] = e.d /\ o[4] = h)} ELSE @])

RecvPayloadNext(p) ==
  Pack([c EXCEPT !.pc = "notify", !.fetched = @ \cup {p[1]}],
       [x EXCEPT !.payloads = @ \ {p}],
       [g EXCEPT !.didwork = TRUE, !.outstanding = @ \ {<<"f", p[1], p[2], Ctrl>>}])

\* end of notify + evaluation of the loop condition (impl.py:41)
EndWaitGuards == IF c.pc = "notify" \/ (c.pc = "wait" /\ ~HasAwaitable(c)) THEN {} ELSE {"endwait_pc"}
EndWaitNext ==
  IF HasComputable(c) \/ HasAwaitable(c)
  THEN Pack([c EXCEPT !.pc = "assign"], x,
            [g EXCEPT !.didwork = FALSE,
                      !.flags = IF c.pc = "wait" /\ ~g.didwork THEN @ \cup {"spin"} ELSE @])
  ELSE Pack([c EXCEPT !.pc = "done"], x, g)

(***************************************************************************)
(* executors (what the Bridge talks to)                                    *)
(***************************************************************************)
\* Executor.recv_loop: next controller message at host h
HostDeliverNext(h) ==
  LET m == Head(x.toHost[h]) IN
  IF m.k = "task"
  THEN Pack(c, [x EXCEPT !.toHost = [@ EXCEPT ![h] = Tail(@)],
                         !.inbox  = [@ EXCEPT ![m.w] = Append(@, m.t)]], g)
  ELSE \* purge: dropped with a warning unless the executor saw the dataset announced
       IF m.d \in x.held[h]
       THEN Pack(c, [x EXCEPT !.toHost  = [@ EXCEPT ![h] = Tail(@)],
                              !.held    = [@ EXCEPT ![h] = @ \ {m.d}],
                              !.invalid = [@ EXCEPT ![h] = @ \cup {m.d}]], g)
       ELSE Pack(c, [x EXCEPT !.toHost = [@ EXCEPT ![h] = Tail(@)]], g)

\* worker main loop: takes the next task sequence once every required dataset was announced on its host
WorkerTakeEnabled(w) == x.running[w] = <<>> /\ x.inbox[w] # <<>> /\ InputsOf(Head(x.inbox[w])) \subseteq x.held[HostOf(w)]
WorkerTakeNext(w) ==
  LET t == Head(x.inbox[w]) IN
  Pack(c, [x EXCEPT !.inbox = [@ EXCEPT ![w] = Tail(@)], !.running = [@ EXCEPT ![w] = <<t, 1>>]],
       Flag(g, IF InputsOf(t) \subseteq x.held[HostOf(w)] THEN {} ELSE {"ran_without_input"}))

WorkerPublishNext(w) ==
  LET t == x.running[w][1]
      i == x.running[w][2]
      h == HostOf(w)
      d == <<t, Outs[t][i]>>
  IN Pack(c, [x EXCEPT !.held    = [@ EXCEPT ![h] = @ \cup {d}],
                       !.events  = [@ EXCEPT ![h] = Append(@, [w |-> w, d |-> d, x |-> FALSE])],
                       !.running = [@ EXCEPT ![w] = IF i = Len(Outs[t]) THEN <<>> ELSE <<t, i + 1>>]],
          [g EXCEPT !.published = @ \cup {d}, !.finished = IF i = Len(Outs[t]) THEN @ \cup {t} ELSE @])

\* DataServer: next transmit / fetch command at host h
DataCmdNext(h) ==
  LET m == Head(x.toData[h])
      fl == (IF m.d \in x.held[h] THEN {} ELSE {"transmit_failure_not_held"})
        \cup (IF m.d \in x.invalid[h] THEN {"command_after_purge_at_data_server"} ELSE {})
      xs0 == [x EXCEPT !.toData = [@ EXCEPT ![h] = Tail(@)]]
  IN IF m.k = "fetch"
     THEN Pack(c, [xs0 EXCEPT !.payloads = @ \cup {<<m.d, h>>}], Flag(g, fl))
     ELSE Pack(c, [xs0 EXCEPT !.inflight = @ \cup {<<m.d, h, m.tgt>>}], Flag(g, fl))

\* DataServer at the target: payload arrives; stored and announced unless purged there or already present
DataStoreNext(p) ==
  LET d == p[1] tgt == p[3]
      xs0 == [x EXCEPT !.inflight = @ \ {p}]
      gs == [g EXCEPT !.outstanding = @ \ {<<"x", d, p[2], tgt>>}]
  IN IF d \in x.invalid[tgt] \/ d \in x.held[tgt]
     THEN Pack(c, xs0, gs)
     ELSE Pack(c, [xs0 EXCEPT !.held   = [@ EXCEPT ![tgt] = @ \cup {d}],
                              !.events = [@ EXCEPT ![tgt] = Append(@, [w |-> "host", d |-> d, x |-> TRUE])]], gs)

(***************************************************************************)
(* The specification                                                       *)
(***************************************************************************)
Sane == g.flags = {}
Step(n) == Sane /\ c' = n.c /\ x' = n.x /\ g' = n.g

AssignOne(w, t, prep) == AssignGuards(w, t, prep) = {} /\ Step(AssignNext(w, t, prep))
PrepChoices(w, t) ==
  LET R == Remote(w, t) IN
  IF \E d \in R : AvailAt(d) = {} THEN {}
  ELSE UNION {{[i \in 1..Cardinality(R) |-> <<s[i], src[s[i]]>>] : src \in {f \in [R -> Host] : \A d \in R : f[d] \in AvailAt(d)}}
               : s \in Perms(R)}
\* build_assignment raises "not found in any host"
AssignCrash(w, t) ==
  /\ c.pc \in {"assign", "migrate"} /\ t \in c.computable /\ w \in c.idle /\ c.hostComp[HostOf(w)] = CompOf[t]
  /\ (t \in GpuTasks => w \in GpuWorkers)
  /\ \E d \in Remote(w, t) : AvailAt(d) = {}
  /\ Step(Pack(c, x, Flag(g, {"crash_dataset_not_found"})))

StartMigrate == StartMigrateGuards = {} /\ ~AssignableNow /\ Step(StartMigrateNext)
Migrate(h, cc) == MigrateGuards(h, cc) = {} /\ Step(MigrateNext(h, cc))
\* plan is reached when the generator is exhausted: nothing assignable, no host left to migrate
SkipAssign == c.pc = "assign" /\ ~HasComputable(c) /\ Step(EndAssignNext)
EndAssign ==
  /\ HasComputable(c) \/ c.round # {} \/ c.pc = "migrate"
  /\ ~AssignableNow
  /\ \/ c.pc = "assign" /\ StartMigrateGuards # {}
     \/ c.pc = "migrate" /\ c.migrants = {}
  /\ Step(EndAssignNext)
Flush == \E pseq \in Perms(FlushPurgePairs) : FlushGuards(c.fetchQ, pseq) = {} /\ Step(FlushNext(c.fetchQ, pseq))
RecvEvent(h) == RecvGuards = {} /\ x.events[h] # <<>> /\ Step(RecvEventNext(h))
RecvPayload(p) == RecvGuards = {} /\ p \in x.payloads /\ Step(RecvPayloadNext(p))
EndWait == EndWaitGuards = {} /\ Step(EndWaitNext)

HostDeliver(h) == x.toHost[h] # <<>> /\ Step(HostDeliverNext(h))
WorkerTake(w) == WorkerTakeEnabled(w) /\ Step(WorkerTakeNext(w))
WorkerPublish(w) == x.running[w] # <<>> /\ Step(WorkerPublishNext(w))
DataCmd(h) == x.toData[h] # <<>> /\ Step(DataCmdNext(h))
DataStore(p) == p \in x.inflight /\ Step(DataStoreNext(p))

Terminated == c.pc = "done" /\ UNCHANGED vars

Controller ==
  \/ \E w \in Worker, t \in Task : \E prep \in PrepChoices(w, t) : AssignOne(w, t, prep)
  \/ \E w \in Worker, t \in Task : AssignCrash(w, t)
  \/ StartMigrate
  \/ \E h \in Host, cc \in Comps : Migrate(h, cc)
  \/ SkipAssign \/ EndAssign \/ Flush \/ EndWait
  \/ \E h \in Host : RecvEvent(h)
  \/ \E p \in x.payloads : RecvPayload(p)
Executors ==
  \/ \E h \in Host : HostDeliver(h) \/ DataCmd(h)
  \/ \E w \in Worker : WorkerTake(w) \/ WorkerPublish(w)
  \/ \E p \in x.inflight : DataStore(p)

Assign(w, t) == \E prep \in PrepChoices(w, t) : AssignOne(w, t, prep)
Next ==
  \/ \E w \in Worker, t \in Task : Assign(w, t)
  \/ \E w \in Worker, t \in Task : AssignCrash(w, t)
  \/ StartMigrate
  \/ \E h \in Host, cc \in Comps : Migrate(h, cc)
  \/ SkipAssign \/ EndAssign \/ Flush \/ EndWait
  \/ \E h \in Host : RecvEvent(h)
  \/ \E p \in DS \X Host : RecvPayload(p)
  \/ \E h \in Host : HostDeliver(h)
  \/ \E h \in Host : DataCmd(h)
  \/ \E w \in Worker : WorkerTake(w)
  \/ \E w \in Worker : WorkerPublish(w)
  \/ \E p \in DS \X Host \X Host : DataStore(p)
  \/ Terminated
Spec == Init /\ [][Next]_vars /\ WF_vars(Controller) /\ WF_vars(Executors)

(***************************************************************************)
(* Properties.  One named invariant per clause; the driver maps names to   *)
(* property ids (harness/props/cascade_engine.py).                         *)
(***************************************************************************)
NoFlag(n) == n \notin g.flags
\* C02
DispatchOnce        == \A t \in Task : g.dispatched[t] <= 1
DispatchedAll       == c.pc = "done" => \A t \in Task : g.dispatched[t] = 1 /\ t \in c.done
ToFreeWorker        == NoFlag("dispatched_to_busy_worker") /\ NoFlag("dispatched_twice")
GpuRespected        == NoFlag("dispatched_without_gpu")
InputsProduced      == NoFlag("input_not_produced")
PresentOrCommanded  == NoFlag("input_neither_present_nor_commanded")
NeverStartsEarly    == NoFlag("ran_without_input")
IdleIsFree          == \A w \in c.idle : c.ongoing[w] = {} /\ ~WorkerBusy(w)
\* C04
SourceHolds         == NoFlag("source_lacks_dataset") /\ NoFlag("fetch_source_lacks_dataset")
                       /\ NoFlag("transmit_failure_not_held") /\ NoFlag("command_after_purge_at_data_server")
NoPurgeUnderCommand == NoFlag("purge_under_unanswered_command")
PurgeOnlyWhenDone   == NoFlag("purge_before_consumers_done") /\ NoFlag("purge_before_delivery")
NeverNeededAgain    == NoFlag("needed_after_purge")
\* C03
NoCrash             == \A f \in g.flags : f \notin {"crash_dataset_not_found", "crash_double_add", "crash_not_ongoing",
                                                    "crash_purging_tracker", "crash_malformed_origin"}
NoSpin              == NoFlag("spin")
KeysPresent         == c.pc \in {"assign", "migrate"} =>
                         \A w \in c.idle, t \in c.computable :
                            c.hostComp[HostOf(w)] = CompOf[t] => (<<w, t>> \in c.ovhKeys /\ w \in c.distKeys[CompOf[t]] /\ t \in c.w2tValues[CompOf[t]])
Terminates          == <>(c.pc = "done")
\* C01 (model part): at the end every requested output was delivered, from a host that held it
DeliveredAll        == c.pc = "done" => Ext \subseteq c.fetched
ChannelsDrained     == c.pc = "done" => (\A h \in Host : x.events[h] = <<>>) /\ x.payloads = {}

TypeOK ==
  /\ c.pc \in {"assign", "migrate", "flush", "wait", "notify", "done"}
  /\ c.computable \subseteq Task /\ c.idle \subseteq Worker
  /\ \A d \in DS, h \in Host : c.dsHost[d][h] \in {"missing", "preparing", "available"}
=============================================================================
