--------------------------------- MODULE Shm ---------------------------------
(***************************************************************************)
(* cascade.shm.dataset.Manager: the per-host shared-memory store.          *)
(*                                                                         *)
(* One action per public request handled by the (single threaded) server   *)
(* loop, plus the steps of the asynchronous page-out / page-in jobs that   *)
(* run on the Disk thread pools.  A page-out completion is split where the *)
(* code takes the `pageout_one` lock, because the server thread can handle *)
(* requests in between.  The lottery (cascade.shm.algorithms) is           *)
(* transcribed.  Everything is "as built": purge in transitional states,   *)
(* failing jobs, stale readers, and whether the batch lock is released     *)
(* when an eviction attempt finds no candidate (constant ReleaseWhenEmpty).*)
(*                                                                         *)
(* Segment contents are tracked (seg/file/content) so that "bytes read =   *)
(* bytes written" is a state invariant.                                    *)
(***************************************************************************)
EXTENDS Naturals, Sequences, FiniteSets, TLC, SequencesExt, FiniteSetsExt

CONSTANTS Key,              \* dataset keys
          Size,             \* [Key -> Nat \ {0}]
          Cap,              \* capacity
          MaxReaders,       \* bound on concurrent readers per key (model bound)
          MaxClock,         \* bound on the logical clock (model bound)
          AllowFail,        \* may disk jobs fail?
          AllowStale,       \* may the staleness window elapse?
          ReleaseWhenEmpty  \* page_out_at_least releases the batch lock when the lottery has no winner

VARIABLES
  st,        \* [Key -> "absent" | "created" | "in_memory" | "paging_out" | "on_disk" | "paged_in"]
  fresh,     \* [Key -> Nat] readers younger than the staleness window
  stale,     \* [Key -> Nat] readers older than it
  cstale,    \* [Key -> BOOLEAN] a dataset still being written whose creation is older than the window
  reads,     \* [Key -> 0..2] never / once / more than once retrieved
  ord,       \* [Key -> Nat] creation stamp
  lastRead,  \* [Key -> Nat] stamp of the last retrieval
  delayed,   \* [Key -> BOOLEAN] delayed_purge
  clock,
  free, lockAll, count,
  jobs,      \* set of [kind, k, phase, credit]: disk jobs submitted and not finished
  seg,       \* [Key -> <<>> | <<"blank">> | <<"v", n>>] the shared memory segment under the key's shmid
  file,      \* [Key -> same] the page file
  content,   \* [Key -> Nat] ghost: version the writer wrote (creation stamp)
  tainted,   \* ghost: a key was re-allocated while a disk job of its previous incarnation was pending (known finding)
  last       \* history: <<action, args..., answer>>
vars == <<st, fresh, stale, cstale, reads, ord, lastRead, delayed, clock, free, lockAll, count, jobs, seg, file, content, tainted, last>>
view == <<st, fresh, stale, cstale, reads, ord, lastRead, delayed, clock, free, lockAll, count, jobs, seg, file, content, tainted>>

Resident == {"created", "in_memory", "paging_out", "paged_in"}
None  == <<>>
Blank == <<"blank">>
V(n)  == <<"v", n>>
Sum(S) == FoldSet(LAMBDA k, acc : acc + Size[k], 0, S)
Readers(k) == fresh[k] + stale[k]

Init ==
  /\ st = [k \in Key |-> "absent"] /\ fresh = [k \in Key |-> 0] /\ stale = [k \in Key |-> 0]
  /\ cstale = [k \in Key |-> FALSE] /\ reads = [k \in Key |-> 0] /\ ord = [k \in Key |-> 0]
  /\ lastRead = [k \in Key |-> 0] /\ delayed = [k \in Key |-> FALSE] /\ clock = 1
  /\ free = Cap /\ lockAll = FALSE /\ count = 0 /\ jobs = {}
  /\ seg = [k \in Key |-> None] /\ file = [k \in Key |-> None] /\ content = [k \in Key |-> 0] /\ tainted = {}
  /\ last = <<"Init">>

(***************************************************************************)
(* lottery: once-read by creation, many-read by last access, never-read    *)
(* newest first; stop as soon as enough would be freed                     *)
(***************************************************************************)
Pageoutable(k) == (st[k] = "created" /\ cstale[k]) \/ (st[k] = "in_memory" /\ fresh[k] = 0)
Cand  == {k \in Key : Pageoutable(k)}
Once  == SetToSortSeq({k \in Cand : reads[k] = 1}, LAMBDA a, b : ord[a] < ord[b])
Mult  == SetToSortSeq({k \in Cand : reads[k] = 2}, LAMBDA a, b : lastRead[a] < lastRead[b])
Never == SetToSortSeq({k \in Cand : reads[k] = 0}, LAMBDA a, b : ord[a] > ord[b])
Order == Once \o Mult \o Never
RECURSIVE Take(_, _, _)
Take(s, i, need) == IF i > Len(s) THEN {} ELSE
                    IF Size[s[i]] >= need THEN {s[i]} ELSE {s[i]} \cup Take(s, i + 1, need - Size[s[i]])
Winners(amount) == Take(Order, 1, amount)

\* page_out_at_least(amount): effect on lockAll, count, st, jobs
Evict(amount) ==
  IF lockAll
  THEN UNCHANGED <<lockAll, count, st, jobs, tainted, cstale>>
  ELSE LET w == Winners(amount) IN
       /\ tainted' = tainted \cup (IF \E k \in w : st[k] = "created" THEN {"stale_create_evicted"} ELSE {})
       /\ lockAll' = (w # {} \/ ~ReleaseWhenEmpty)
       /\ count' = Cardinality(w)
       /\ st' = [k \in Key |-> IF k \in w THEN "paging_out" ELSE st[k]]
       /\ cstale' = [k \in Key |-> IF k \in w THEN FALSE ELSE cstale[k]]
       /\ jobs' = jobs \cup {[kind |-> "out", k |-> k, phase |-> "queued", credit |-> FALSE] : k \in w}

Forget(k) == \* datasets.pop(key)
  /\ fresh' = [fresh EXCEPT ![k] = 0] /\ stale' = [stale EXCEPT ![k] = 0] /\ cstale' = [cstale EXCEPT ![k] = FALSE]
  /\ reads' = [reads EXCEPT ![k] = 0] /\ delayed' = [delayed EXCEPT ![k] = FALSE]

(***************************************************************************)
(* requests                                                                *)
(***************************************************************************)
Add(k) ==
  /\ clock < MaxClock
  /\ IF st[k] # "absent"
     THEN /\ last' = <<"Add", k, "conflict">>
          /\ UNCHANGED <<st, fresh, stale, cstale, reads, ord, lastRead, delayed, clock, free, lockAll, count, jobs, seg, file, content, tainted>>
     ELSE IF Size[k] > Cap
     THEN /\ last' = <<"Add", k, "capacity exceeded">>
          /\ UNCHANGED <<st, fresh, stale, cstale, reads, ord, lastRead, delayed, clock, free, lockAll, count, jobs, seg, file, content, tainted>>
     ELSE IF Size[k] > free
     THEN /\ Evict(Size[k] - free)
          /\ last' = <<"Add", k, "wait">>
          /\ UNCHANGED <<fresh, stale, reads, ord, lastRead, delayed, clock, free, seg, file, content>>
     ELSE /\ free' = free - Size[k]
          /\ st' = [st EXCEPT ![k] = "created"]
          /\ ord' = [ord EXCEPT ![k] = clock] /\ clock' = clock + 1
          /\ lastRead' = [lastRead EXCEPT ![k] = 0]
          /\ Forget(k)
          \* the client creates the segment right after the grant (AllocatedBuffer(create=True))
          /\ seg' = [seg EXCEPT ![k] = Blank]
          /\ last' = <<"Add", k, "ok">>
          /\ tainted' = tainted \cup (IF \E j \in jobs : j.k = k THEN {"readd_during_job"} ELSE {})
          /\ UNCHANGED <<lockAll, count, jobs, file, content>>

\* Purge executed on the server thread (request) or from a callback: the part after the reader check
\* returns TRUE in `popped` iff the dataset was removed
DoPurgeEffect(k) ==
  IF seg[k] # None
  THEN /\ seg' = [seg EXCEPT ![k] = None] /\ free' = free + Size[k] /\ st' = [st EXCEPT ![k] = "absent"] /\ Forget(k)
  ELSE UNCHANGED <<seg, free, st, fresh, stale, cstale, reads, delayed>>   \* unlink raises, "failed to purge"

\* writer finished: close_callback(key, "")
CloseWrite(k) ==
  /\ st[k] # "absent"
  /\ IF st[k] = "created"
     THEN /\ st' = [st EXCEPT ![k] = "in_memory"] /\ cstale' = [cstale EXCEPT ![k] = FALSE]
          /\ seg' = [seg EXCEPT ![k] = IF seg[k] = None THEN None ELSE V(ord[k])]
          /\ content' = [content EXCEPT ![k] = ord[k]]
          /\ last' = <<"CloseWrite", k, "ok">>
     ELSE /\ last' = <<"CloseWrite", k, "error">> /\ UNCHANGED <<st, cstale, seg, content>>
  /\ UNCHANGED <<fresh, stale, reads, ord, lastRead, delayed, clock, free, lockAll, count, jobs, file, tainted>>

Get(k) ==
  /\ clock < MaxClock /\ st[k] # "absent"
  /\ IF st[k] \in {"created", "paged_in", "paging_out"}
     THEN /\ last' = <<"Get", k, "wait">>
          /\ UNCHANGED <<st, fresh, stale, cstale, reads, ord, lastRead, delayed, clock, free, lockAll, count, jobs, seg, file, content, tainted>>
     ELSE IF st[k] = "on_disk"
     THEN IF Size[k] > free
          THEN /\ Evict(Size[k] - free) /\ last' = <<"Get", k, "wait">>
               /\ UNCHANGED <<fresh, stale, reads, ord, lastRead, delayed, clock, free, seg, file, content>>
          ELSE /\ st' = [st EXCEPT ![k] = "paged_in"] /\ free' = free - Size[k]
               /\ jobs' = jobs \cup {[kind |-> "in", k |-> k, phase |-> "queued", credit |-> FALSE]}
               /\ last' = <<"Get", k, "wait">>
               /\ UNCHANGED <<fresh, stale, cstale, reads, ord, lastRead, delayed, clock, lockAll, count, seg, file, content, tainted>>
     ELSE /\ fresh[k] + stale[k] < MaxReaders
          /\ fresh' = [fresh EXCEPT ![k] = @ + 1]
          /\ reads' = [reads EXCEPT ![k] = IF @ = 0 THEN 1 ELSE 2]
          /\ lastRead' = [lastRead EXCEPT ![k] = clock] /\ clock' = clock + 1
          /\ last' = <<"Get", k, "ok", seg[k]>>          \* what the reader sees in the segment
          /\ UNCHANGED <<st, stale, cstale, ord, delayed, free, lockAll, count, jobs, seg, file, content, tainted>>

\* reader finished: close_callback(key, rdid); which = "fresh" | "stale"
CloseRead(k, which) ==
  /\ st[k] # "absent"
  /\ IF which = "fresh" THEN fresh[k] > 0 ELSE stale[k] > 0
  /\ IF st[k] # "in_memory"
     THEN /\ last' = <<"CloseRead", k, which, "error">>
          /\ UNCHANGED <<st, fresh, stale, cstale, reads, delayed, free, seg>>
     ELSE LET f2 == IF which = "fresh" THEN fresh[k] - 1 ELSE fresh[k]
              s2 == IF which = "stale" THEN stale[k] - 1 ELSE stale[k]
          IN /\ last' = <<"CloseRead", k, which, "ok">>
             /\ IF delayed[k] /\ f2 + s2 = 0 /\ seg[k] # None
                THEN DoPurgeEffect(k)      \* (readers are reset by Forget when the purge succeeds)
                ELSE /\ fresh' = [fresh EXCEPT ![k] = f2] /\ stale' = [stale EXCEPT ![k] = s2]
                     /\ UNCHANGED <<st, cstale, reads, delayed, free, seg>>
  /\ UNCHANGED <<ord, lastRead, clock, lockAll, count, jobs, file, content, tainted>>

Purge(k) ==
  /\ last' = <<"Purge", k, "ok">>
  /\ IF st[k] = "absent" THEN UNCHANGED <<st, fresh, stale, cstale, reads, delayed, free, seg>>
     ELSE IF Readers(k) > 0 THEN /\ delayed' = [delayed EXCEPT ![k] = TRUE]
                                  /\ UNCHANGED <<st, fresh, stale, cstale, reads, free, seg>>
     ELSE IF st[k] = "on_disk" THEN UNCHANGED <<st, fresh, stale, cstale, reads, delayed, free, seg>>
     ELSE DoPurgeEffect(k)
  /\ UNCHANGED <<ord, lastRead, clock, lockAll, count, jobs, file, content, tainted>>

\* the staleness window elapses for everything that exists now
GoStale ==
  /\ AllowStale
  /\ \E k \in Key : fresh[k] > 0 \/ (st[k] = "created" /\ ~cstale[k])
  /\ stale' = [k \in Key |-> stale[k] + fresh[k]] /\ fresh' = [k \in Key |-> 0]
  /\ cstale' = [k \in Key |-> st[k] = "created"]
  /\ last' = <<"GoStale">>
  /\ UNCHANGED <<st, reads, ord, lastRead, delayed, clock, free, lockAll, count, jobs, seg, file, content, tainted>>

(***************************************************************************)
(* disk jobs                                                               *)
(***************************************************************************)
Release == /\ count' = count - 1 /\ lockAll' = IF count = 1 THEN FALSE ELSE lockAll

\* Disk._page_out up to the point where the callback takes `pageout_one`
OutHalf1(j, ok) ==
  /\ j \in jobs /\ j.kind = "out" /\ j.phase = "queued"
  /\ (ok \/ AllowFail)
  /\ LET k == j.k
         really == ok /\ seg[k] # None       \* without a segment the write raises and the callback gets False
     IN IF really
        THEN \* file written, segment unlinked, callback(True): ds.status = on_disk   (ds = the object captured at submit)
             /\ file' = [file EXCEPT ![k] = seg[k]] /\ seg' = [seg EXCEPT ![k] = None]
             /\ st' = [st EXCEPT ![k] = IF st[k] = "paging_out" THEN "on_disk" ELSE st[k]]
             /\ jobs' = (jobs \ {j}) \cup {[j EXCEPT !.phase = "half", !.credit = TRUE]}
             /\ last' = <<"OutHalf1", k, "ok">>
             /\ UNCHANGED <<fresh, stale, cstale, reads, delayed, free>>
        ELSE \* callback(False): self.purge(key) in the disk thread, up to its `with pageout_one`
             /\ last' = <<"OutHalf1", k, "fail">>
             /\ UNCHANGED <<file, free>>
             /\ IF st[k] = "absent" THEN /\ jobs' = (jobs \ {j}) \cup {[j EXCEPT !.phase = "half", !.credit = FALSE]}
                                         /\ UNCHANGED <<seg, st, fresh, stale, cstale, reads, delayed>>
                ELSE IF Readers(k) > 0 THEN /\ delayed' = [delayed EXCEPT ![k] = TRUE]
                                            /\ jobs' = (jobs \ {j}) \cup {[j EXCEPT !.phase = "half", !.credit = FALSE]}
                                            /\ UNCHANGED <<seg, st, fresh, stale, cstale, reads>>
                ELSE IF st[k] = "on_disk" \/ seg[k] = None
                     THEN /\ jobs' = (jobs \ {j}) \cup {[j EXCEPT !.phase = "half", !.credit = FALSE]}
                          /\ UNCHANGED <<seg, st, fresh, stale, cstale, reads, delayed>>
                ELSE \* unlinked; credit and pop happen under the lock (second half)
                     /\ seg' = [seg EXCEPT ![k] = None]
                     /\ jobs' = (jobs \ {j}) \cup {[j EXCEPT !.phase = "half", !.credit = TRUE, !.kind = "outfail"]}
                     /\ UNCHANGED <<st, fresh, stale, cstale, reads, delayed>>
  /\ UNCHANGED <<ord, lastRead, clock, lockAll, count, content, tainted>>

OutHalf2(j) ==
  /\ j \in jobs /\ j.phase = "half"
  /\ jobs' = jobs \ {j}
  /\ Release
  /\ last' = <<"OutHalf2", j.k>>
  /\ IF j.kind = "out"
     THEN /\ free' = IF j.credit THEN free + Size[j.k] ELSE free
          /\ UNCHANGED <<st, fresh, stale, cstale, reads, delayed>>
     ELSE \* failed page-out whose purge unlinked the segment: credit, then datasets.pop(key)
          /\ free' = free + Size[j.k]
          /\ st' = [st EXCEPT ![j.k] = "absent"] /\ Forget(j.k)
  /\ UNCHANGED <<ord, lastRead, clock, seg, file, content, tainted>>

\* Disk._page_in and its callback (no lock involved: one step)
InDone(j, ok) ==
  /\ j \in jobs /\ j.kind = "in"
  /\ (ok \/ AllowFail)
  /\ jobs' = jobs \ {j}
  /\ LET k == j.k
         really == ok /\ seg[k] = None /\ file[k] # None     \* create=True fails if a segment of that name exists
     IN IF really
        THEN /\ seg' = [seg EXCEPT ![k] = file[k]]
             /\ st' = [st EXCEPT ![k] = IF st[k] = "paged_in" THEN "in_memory" ELSE st[k]]
             /\ last' = <<"InDone", k, "ok">>
             /\ UNCHANGED <<fresh, stale, cstale, reads, delayed, free>>
        ELSE \* Disk._page_in creates the segment first, so after a failure a (blank) segment exists; callback(False): self.purge(key)
             LET seg2 == IF seg[k] = None THEN Blank ELSE seg[k] IN
             /\ last' = <<"InDone", k, "fail">>
             /\ IF st[k] = "absent" \/ st[k] = "on_disk"
                THEN /\ seg' = [seg EXCEPT ![k] = seg2] /\ UNCHANGED <<st, fresh, stale, cstale, reads, delayed, free>>
                ELSE IF Readers(k) > 0
                THEN /\ delayed' = [delayed EXCEPT ![k] = TRUE] /\ seg' = [seg EXCEPT ![k] = seg2]
                     /\ UNCHANGED <<st, fresh, stale, cstale, reads, free>>
                ELSE /\ seg' = [seg EXCEPT ![k] = None] /\ free' = free + Size[k]
                     /\ st' = [st EXCEPT ![k] = "absent"] /\ Forget(k)
  /\ UNCHANGED <<ord, lastRead, clock, lockAll, count, file, content, tainted>>

\* read-only requests of the protocol (cascade.shm.server): what the store reports about itself
AllVarsUnchanged == UNCHANGED <<st, fresh, stale, cstale, reads, ord, lastRead, delayed, clock, free, lockAll, count, jobs, seg, file, content, tainted>>
AskFree == /\ last' = <<"AskFree", free>> /\ last # <<"AskFree", free>> /\ AllVarsUnchanged
\* DatasetStatusRequest: "ready" once the writer has finished (wherever the bytes are now), "not_present" before / unknown key
AskStatus(k) == /\ last' = <<"AskStatus", k, IF st[k] \in {"absent", "created"} THEN "not_present" ELSE "ready">>
                /\ last[1] # "AskStatus" /\ AllVarsUnchanged
\* requests that name a key the store does not know are answered with an error and change nothing
GetUnknown(k) == /\ st[k] = "absent" /\ last' = <<"Get", k, "error">> /\ last # <<"Get", k, "error">> /\ AllVarsUnchanged
CloseUnknown(k) == /\ st[k] = "absent" /\ last' = <<"CloseWrite", k, "error">> /\ last # <<"CloseWrite", k, "error">> /\ AllVarsUnchanged

\* Manager.atexit (the shm server is told to shut down): every dataset that still has a segment is unlinked, whatever its
\* status and whoever still reads it (C05: no shared-memory segment is left behind); page files go with the scratch directory
AtExit ==
  /\ tainted' = tainted \cup {"exited"}
  /\ seg' = [k \in Key |-> IF st[k] \in {"absent", "on_disk"} THEN seg[k] ELSE None]
  /\ st' = [k \in Key |-> IF st[k] \notin {"absent", "on_disk"} /\ seg[k] # None THEN "absent" ELSE st[k]]
  /\ fresh' = [k \in Key |-> IF st'[k] = "absent" THEN 0 ELSE fresh[k]]
  /\ stale' = [k \in Key |-> IF st'[k] = "absent" THEN 0 ELSE stale[k]]
  /\ cstale' = [k \in Key |-> IF st'[k] = "absent" THEN FALSE ELSE cstale[k]]
  /\ reads' = [k \in Key |-> IF st'[k] = "absent" THEN 0 ELSE reads[k]]
  /\ delayed' = [k \in Key |-> IF st'[k] = "absent" THEN FALSE ELSE delayed[k]]
  /\ file' = [k \in Key |-> None]
  /\ last' = <<"AtExit">>
  /\ UNCHANGED <<ord, lastRead, clock, free, lockAll, count, jobs, content>>
Running == "exited" \notin tainted
ExitLeavesNoSegment == ~Running => \A k \in Key : seg[k] = None \/ st[k] \in {"absent", "on_disk"}

NextRunning ==
  \/ AtExit
  \/ AskFree
  \/ \E k \in Key : AskStatus(k)
  \/ \E k \in Key : GetUnknown(k)
  \/ \E k \in Key : CloseUnknown(k)
  \/ \E k \in Key : Add(k)
  \/ \E k \in Key : CloseWrite(k)
  \/ \E k \in Key : Get(k)
  \/ \E k \in Key, w \in {"fresh", "stale"} : CloseRead(k, w)
  \/ \E k \in Key : Purge(k)
  \/ GoStale
  \/ \E j \in jobs, ok \in BOOLEAN : OutHalf1(j, ok)
  \/ \E j \in jobs : OutHalf2(j)
  \/ \E j \in jobs, ok \in BOOLEAN : InDone(j, ok)
Next == Running /\ NextRunning
Spec == Init /\ [][Next]_vars
\* A scheduling policy of the same system, "fast disk": a page-out job runs to its end before the server handles the next request
\* (in the real store the disk thread can even finish a job while the server thread is still launching the other jobs of the
\* batch; the replay runs the job synchronously inside the submit for these behaviours, see harness/drive/shm.py)
FastDiskNext == IF \E j \in jobs : j.kind \in {"out", "outfail"}
                THEN Running /\ ((\E j \in jobs : OutHalf1(j, TRUE)) \/ (\E j \in jobs : OutHalf2(j)))
                ELSE Next
FastDiskSpec == Init /\ [][FastDiskNext]_vars
FairSpec == Spec /\ WF_vars(\E j \in jobs : OutHalf1(j, TRUE)) /\ WF_vars(\E j \in jobs : OutHalf2(j))
                 /\ WF_vars(\E j \in jobs : InDone(j, TRUE))

(***************************************************************************)
(* C08                                                                     *)
(***************************************************************************)
ResidentKeys == {k \in Key : st[k] \in Resident}
\* page-outs whose file is written but whose space is not yet credited (between the halves)
PendingCredit == {j.k : j \in {i \in jobs : i.phase = "half" /\ i.credit /\ i.kind = "out"}}
NoOverdraw  == Sum(ResidentKeys) <= Cap
Accounting  == free + Sum(ResidentKeys) + Sum(PendingCredit) = Cap
FreeNeverNegative == free >= 0 /\ free <= Cap
(***************************************************************************)
(* C09                                                                     *)
(***************************************************************************)
\* whatever a reader is handed is exactly what the writer wrote
ReadsWhatWasWritten == (last[1] = "Get" /\ last[3] = "ok") => last[4] = V(content[last[2]])
BytesStable    == \A k \in Key : st[k] = "in_memory" /\ seg[k] # None => seg[k] = V(content[k])
SegmentPresent == \A k \in Key : st[k] = "in_memory" => seg[k] # None
\* a dataset with a fresh reader is in memory with its segment: neither paged out nor unlinked
FreshReaderProtected == \A k \in Key : fresh[k] > 0 => st[k] = "in_memory" /\ seg[k] # None
\* the batch lock is held only while a page-out is in flight
LockSane == lockAll => (count > 0 /\ \E j \in jobs : j.kind \in {"out", "outfail"})
CountSane == count = Cardinality({j \in jobs : j.kind \in {"out", "outfail"}})
\* a purge during a read takes effect when the last reader closes
DelayedPurgeTakesEffect ==
  [][\A k \in Key : (delayed[k] /\ st[k] = "in_memory" /\ Readers(k) = 1 /\ Readers(k)' = 0 /\ seg[k] # None) => st'[k] = "absent"]_vars
\* eviction liveness: if nothing else happens than job completions, a lock is eventually released
EvictionProgress == lockAll ~> ~lockAll
\* the same clauses outside the recorded known finding (see known_findings.json: re-allocation during a disk job)
U(P) == tainted # {} \/ P
NoOverdrawU == U(NoOverdraw)
AccountingU == U(Accounting)
FreeNeverNegativeU == U(FreeNeverNegative)
ReadsWhatWasWrittenU == U(ReadsWhatWasWritten)
BytesStableU == U(BytesStable)
SegmentPresentU == U(SegmentPresent)
FreshReaderProtectedU == U(FreshReaderProtected)
LockSaneU == U(LockSane)
CountSaneU == U(CountSane)
NotTainted == tainted = {}
\* C08: the free space the store REPORTS is the accounted one
ReportedFreeIsAccounted == (last[1] = "AskFree") => last[2] = free
TypeOK == /\ \A k \in Key : st[k] \in {"absent", "created", "in_memory", "paging_out", "on_disk", "paged_in"}
          /\ count \in 0..Cardinality(Key)
=============================================================================
