----------------------------- MODULE Preschedule -----------------------------
(***************************************************************************)
(* C16: what cascade.scheduler.graph.precompute must compute, as a         *)
(* post-condition over (job DAG, result).  The domain of job DAGs is       *)
(* defined here and enumerated by TLC (binding pattern P3: TLC generates   *)
(* the cases, the harness runs the real function on each, TLC evaluates    *)
(* Post on every (case, result) pair).                                     *)
(*                                                                         *)
(* A case is [n |-> number of tasks, outs |-> <<o_1..o_n>> (outputs per    *)
(* task, 1 or 2), edges |-> set of <<i, o, j>>] with i < j (acyclic by     *)
(* construction); task i is named "t<i>", output o is named "<o-1>".       *)
(***************************************************************************)
EXTENDS Naturals, Sequences, FiniteSets, TLC, Json, IOUtils, SequencesExt

CONSTANTS MaxN,        \* tasks per case: 0..MaxN
          MaxTwoOut    \* cases with up to this many tasks may have two-output tasks (multi-edges between a pair)

Name(i) == "t" \o ToString(i)
OName(o) == ToString(o - 1)

\* ---------------------------------------------------------------- domain
OutChoices(n) == IF n <= MaxTwoOut THEN [1..n -> 1..2] ELSE [1..n -> {1}]
PossibleEdges(n, outs) == {<<i, o, j>> \in (1..n) \X (1..2) \X (1..n) : i < j /\ o <= outs[i]}
CasesOf(n) == UNION {{[n |-> n, outs |-> outs, edges |-> E] : E \in SUBSET PossibleEdges(n, outs)} : outs \in OutChoices(n)}
Cases == UNION {CasesOf(n) : n \in 0..MaxN}

CaseJson(c) == [n |-> c.n,
                tasks |-> [i \in 1..c.n |-> [name |-> Name(i), outs |-> [o \in 1..c.outs[i] |-> OName(o)]]],
                edges |-> SetToSeq({<<Name(e[1]), OName(e[2]), Name(e[3])>> : e \in c.edges})]

\* ---------------------------------------------------------------- reference semantics
Tasks(c) == {Name(i) : i \in 1..c.n}
E(c)     == {<<Name(e[1]), OName(e[2]), Name(e[3])>> : e \in c.edges}      \* <<src task, output, sink task>>
Children(c, t) == {e[3] : e \in {y \in E(c) : y[1] = t}}
Parents(c, t)  == {e[1] : e \in {y \in E(c) : y[3] = t}}
Nbrs(c, t) == Children(c, t) \cup Parents(c, t)
RECURSIVE Flood(_, _, _)
Flood(c, S, k) == IF k = 0 THEN S ELSE Flood(c, S \cup UNION {Nbrs(c, t) : t \in S}, k - 1)
WCC(c, t) == Flood(c, {t}, c.n)
Components(c) == {WCC(c, t) : t \in Tasks(c)}
\* descendants within k steps
RECURSIVE Desc(_, _, _)
Desc(c, S, k) == IF k = 0 THEN S ELSE Desc(c, S \cup UNION {Children(c, t) : t \in S}, k - 1)
\* length of the longest path from t down to a sink
RECURSIVE Height(_, _)
Height(c, t) == IF Children(c, t) = {} THEN 0
                ELSE 1 + (CHOOSE m \in 0..c.n : (\E k \in Children(c, t) : Height(c, k) = m) /\ (\A k \in Children(c, t) : Height(c, k) <= m))
Depth(c, comp) == 1 + (CHOOSE m \in 0..c.n : (\E t \in comp : Height(c, t) = m) /\ (\A t \in comp : Height(c, t) <= m))
\* shortest distance from a to b along edges; Depth if b is not a descendant
Dist(c, comp, a, b) == IF b \in Desc(c, {a}, c.n)
                       THEN CHOOSE k \in 0..c.n : b \in Desc(c, {a}, k) /\ (k = 0 \/ b \notin Desc(c, {a}, k - 1))
                       ELSE Depth(c, comp)
Sinks(c, comp) == {t \in comp : Children(c, t) = {}}
MinOf(S) == CHOOSE m \in S : \A y \in S : m <= y
Max2(a, b) == IF a >= b THEN a ELSE b
ToNearestSink(c, comp, t) == MinOf({Dist(c, comp, t, s) : s \in Sinks(c, comp) \cap Desc(c, {t}, c.n)})
ValueOf(c, comp, t) == Depth(c, comp) - ToNearestSink(c, comp, t)
NCD(c, comp, a, b) == IF a = b THEN 0 ELSE MinOf({Depth(c, comp)} \cup {Max2(Dist(c, comp, a, x), Dist(c, comp, b, x)) : x \in comp})

\* ---------------------------------------------------------------- post-condition
SetOf(s) == {s[i] : i \in DOMAIN s}
\* res = [components |-> <<[nodes, sources, depth, value |-> [t |-> v], dist |-> [a |-> [b |-> d]]]>>,
\*        edge_o |-> <<<<task, out, <<sinks>> >>>>, edge_i |-> <<<<task, <<<<task, out>>>> >>>>, task_o |-> <<<<task, <<outs>> >>>>]
Post(c, res) ==
  LET comps == res.components
      nodeSets == {SetOf(comps[i].nodes) : i \in DOMAIN comps}
      allNodes == UNION nodeSets
      DSs == {<<Name(i), OName(o)>> : <<i, o>> \in {p \in (1..c.n) \X (1..2) : p[2] <= c.outs[p[1]]}}
      eo(d) == {e[3] : e \in {y \in E(c) : y[1] = d[1] /\ y[2] = d[2]}}
      ei(t) == {<<e[1], e[2]>> : e \in {y \in E(c) : y[3] = t}}
      resEo == {<<<<r[1], r[2]>>, SetOf(r[3])>> : r \in SetOf(res.edge_o)}
      resEi == {<<r[1], {<<p[1], p[2]>> : p \in SetOf(r[2])}>> : r \in SetOf(res.edge_i)}
      resTo == {<<r[1], SetOf(r[2])>> : r \in SetOf(res.task_o)}
  IN
     (IF nodeSets = Components(c) /\ Len(comps) = Cardinality(Components(c)) THEN {} ELSE {"partition_is_not_the_wcc"})
\cup (IF \A i \in DOMAIN comps : Len(comps[i].nodes) = Cardinality(SetOf(comps[i].nodes)) THEN {} ELSE {"task_listed_twice"})
\cup (IF allNodes = Tasks(c) THEN {} ELSE {"some_task_in_no_component"})
\cup (IF \A i, j \in DOMAIN comps : i < j => Len(comps[i].nodes) >= Len(comps[j].nodes) THEN {} ELSE {"not_heaviest_first"})
\cup (IF \A i \in DOMAIN comps : SetOf(comps[i].sources) = {t \in SetOf(comps[i].nodes) : Parents(c, t) = {}}
      THEN {} ELSE {"sources_wrong"})
\cup (IF nodeSets = Components(c)
      THEN (IF \A i \in DOMAIN comps : comps[i].depth = Depth(c, SetOf(comps[i].nodes)) THEN {} ELSE {"depth_wrong"})
      \cup (IF \A i \in DOMAIN comps : \A t \in SetOf(comps[i].nodes) :
                  comps[i].value[t] = ValueOf(c, SetOf(comps[i].nodes), t) THEN {} ELSE {"value_wrong"})
      \cup (IF \A i \in DOMAIN comps : \A a, b \in SetOf(comps[i].nodes) :
                  comps[i].dist[a][b] = NCD(c, SetOf(comps[i].nodes), a, b) THEN {} ELSE {"distance_wrong"})
      ELSE {})
\cup (IF \A d \in DSs : (eo(d) # {} => <<d, eo(d)>> \in resEo) /\ (\A r \in resEo : r[1] = d => r[2] = eo(d))
      THEN {} ELSE {"consumers_wrong"})
\cup (IF \A r \in resEo : r[1] \in DSs THEN {} ELSE {"consumers_of_unknown_dataset"})
\cup (IF \A t \in Tasks(c) : (ei(t) # {} => <<t, ei(t)>> \in resEi) /\ (\A r \in resEi : r[1] = t => r[2] = ei(t))
      THEN {} ELSE {"inputs_wrong"})
\cup (IF resTo = {<<Name(i), {OName(o) : o \in 1..c.outs[i]}>> : i \in 1..c.n} THEN {} ELSE {"outputs_wrong"})

\* ---------------------------------------------------------------- the two TLC passes
\* pass 1 (generate): write the domain
Generate == IF IOEnv.PASS # "generate" THEN TRUE ELSE JsonSerialize(IOEnv.CASES_FILE, [i \in 1..Cardinality(Cases) |-> CaseJson(SetToSeq(Cases)[i])])
\* pass 2 (judge): cases and results come back in the same order
FromJson(j) == [n |-> j.n, outs |-> [i \in 1..j.n |-> Len(j.tasks[i].outs)],
                edges |-> {<<CHOOSE i \in 1..j.n : Name(i) = e[1], (CHOOSE o \in 1..2 : OName(o) = e[2]), CHOOSE i \in 1..j.n : Name(i) = e[3]>> : e \in SetOf(j.edges)}]
Judge == IF IOEnv.PASS # "judge" THEN TRUE ELSE
  LET cs == JsonDeserialize(IOEnv.CASES_FILE)
      rs == JsonDeserialize(IOEnv.RESULTS_FILE)
  IN \A i \in DOMAIN cs :
       LET bad == IF "error" \in DOMAIN rs[i] THEN {"raised"} ELSE Post(FromJson(cs[i]), rs[i])
       IN bad = {} \/ PrintT("B|" \o ToString(i) \o "|" \o ToString(bad))
=============================================================================
