------------------------------ MODULE GraphSem ------------------------------
(***************************************************************************)
(* C11: what copy / rename / deduplicate / fuse / expand / split of        *)
(* earthkit.workflows.graph must preserve, as post-conditions over         *)
(* (case, result graph).  Binding pattern P3: TLC enumerates the cases     *)
(* (Generate), the harness builds real Node/Graph objects, applies the     *)
(* real transformation and dumps the resulting object graph (walking Node  *)
(* objects by identity); TLC evaluates Post on every (case, dump) pair.    *)
(*                                                                         *)
(* A graph (case graphs and dumps alike) is                                *)
(*   [nodes |-> << [name, payload, outputs |-> <<o..>>,                    *)
(*                  inputs |-> << <<input name, parent index, output>> >>] *)
(*              >>, sinks |-> <<node index..>>]                            *)
(* payload = [k |-> "atom", id |-> n]                                      *)
(*         | [k |-> "fused", pp, po, pouts, pin, cp, ci, cin]  (what the   *)
(*           harness' fusion callback writes: child payload cp whose input *)
(*           ci is output po of parent payload pp; pin/cin map the         *)
(*           parent's / child's remaining input names to the input names   *)
(*           of the fused node)                                            *)
(*         | [k |-> "none"]   (nodes created by the library itself)        *)
(***************************************************************************)
EXTENDS Naturals, Sequences, FiniteSets, TLC, Json, IOUtils, SequencesExt

CONSTANTS MaxN,      \* nodes per base graph
          FullN,     \* graphs with <= FullN nodes may have a two-output node and multi-edges; larger ones are single-output, simple
          MaxIn,     \* inputs per node
          Split3N,   \* split: key maps into {0,1,2} for graphs with <= Split3N nodes, into {0,1} above
          ExpN       \* expand: outer graphs with <= ExpN nodes

SetOf(s) == {s[i] : i \in DOMAIN s}

\* ======================================================================== domain
InName(k)   == <<"a", "aa", "input">>[k]           \* k-th input of a node ("input" is also what Splicer/Splitter use)
\* output names: "0" is Node.DEFAULT_OUTPUT; the second output is "b" (also a node name) unless stated otherwise
Code(i, o) == 4 * i + o                             \* <<parent index, output number>> as an orderable integer
PI(c) == c \div 4
PO(c) == c % 4

Srcs(j, outs) == {c \in {Code(i, o) : i \in 1..(j - 1), o \in 1..2} : PO(c) <= outs[PI(c)]}
InChoices(j, outs, multi) ==
  {s \in UNION {[1..m -> Srcs(j, outs)] : m \in 0..MaxIn} :
       \A x, y \in DOMAIN s : x < y => (IF multi THEN s[x] <= s[y] ELSE s[x] < s[y])}
RECURSIVE InsUpTo(_, _, _)
InsUpTo(j, outs, multi) == IF j = 0 THEN {<<>>}
                           ELSE {Append(p, s) : p \in InsUpTo(j - 1, outs, multi), s \in InChoices(j, outs, multi)}
ShapesWith(n, outs, multi) == {[n |-> n, outs |-> outs, ins |-> ins] : ins \in InsUpTo(n, outs, multi)}
OutPats(n, full) == IF full THEN {f \in [1..n -> 1..2] : Cardinality({i \in 1..n : f[i] = 2}) <= 1} ELSE {[i \in 1..n |-> 1]}
Shapes(n, full) == UNION {ShapesWith(n, outs, full) : outs \in OutPats(n, full)}
BaseShapes == UNION {Shapes(n, n <= FullN) : n \in 1..MaxN}

Terminal(sh, i) == \A j \in 1..sh.n : \A k \in DOMAIN sh.ins[j] : PI(sh.ins[j][k]) # i
IsSource(sh, i) == sh.ins[i] = <<>>
Terminals(sh) == {i \in 1..sh.n : Terminal(sh, i)}
\* termOut: terminal nodes keep their outputs (as in graphs built by the fluent API) / have none (classic sinks)
\* o2: the name of the second output of a two-output node
MkGraphO(sh, names, pay, termOut, o2) ==
  [nodes |-> [i \in 1..sh.n |->
                [name |-> names[i], payload |-> [k |-> "atom", id |-> pay[i]],
                 outputs |-> SubSeq(<<"0", o2>>, 1, IF Terminal(sh, i) /\ ~termOut THEN 0 ELSE sh.outs[i]),
                 inputs |-> [k \in 1..Len(sh.ins[i]) |-> <<InName(k), PI(sh.ins[i][k]), <<"0", o2>>[PO(sh.ins[i][k])]>>]]],
   sinks |-> SetToSortSeq(Terminals(sh), LAMBDA x, y : x < y)]
MkGraph(sh, names, pay, termOut) == MkGraphO(sh, names, pay, termOut, "b")

Unique == <<"a", "aa", "a.a", "ab", "b", "main">>      \* pairwise different, sharing characters and prefixes
Same   == <<"a", "a", "a", "a", "a", "a">>             \* "any names": nothing in copy/dedup/fuse may depend on names
Ident  == <<1, 2, 3, 4, 5, 6>>

CopyCases   == {[op |-> "copy", g |-> MkGraph(sh, Unique, Ident, t)] : sh \in BaseShapes, t \in BOOLEAN}
RenameCases == {[op |-> "rename", fn |-> f, g |-> MkGraph(sh, Unique, Ident, TRUE)] : sh \in BaseShapes, f \in {"prefix", "const"}}
FuseCases   == {[op |-> "fuse", cb |-> cb, g |-> MkGraph(sh, Unique, Ident, t)] :
                   sh \in BaseShapes, cb \in {"new", "inplace", "linear"}, t \in BOOLEAN}
               \cup {[op |-> "fuse", cb |-> "never", g |-> MkGraph(sh, Unique, Ident, TRUE)] : sh \in {s \in BaseShapes : s.n <= 2}}
\* payloads from {1,2} (first node fixed to 1: the other half is symmetric) so that equal sub-expressions exist
Pays(n) == {p \in [1..n -> 1..2] : p[1] = 1}
\* the inputs of a node are declared in the order of its `inputs` sequence (the harness passes the keyword arguments in that
\* order); duplicates must be recognised whatever the order: graphs with the inputs of one two-input node, or of all, reversed
RevInputs(g, R) == [g EXCEPT !.nodes = [i \in DOMAIN g.nodes |-> IF i \in R THEN [g.nodes[i] EXCEPT !.inputs = Reverse(g.nodes[i].inputs)]
                                                                  ELSE g.nodes[i]]]
TwoIn(sh) == {i \in 1..sh.n : Len(sh.ins[i]) = 2}
RevChoices(sh) == {{}} \cup {{i} : i \in TwoIn(sh)} \cup {TwoIn(sh)}
DedupCasesF == UNION {{[op |-> "dedup", g |-> RevInputs(MkGraph(sh, Same, p, TRUE), R)] : p \in Pays(sh.n), R \in RevChoices(sh)} : sh \in BaseShapes}
\* "any output name": outputs called like attributes of the Node class
TwoOutShapes == {sh \in BaseShapes : \E i \in 1..sh.n : sh.outs[i] = 2 /\ ~Terminal(sh, i)}
AttrNames == {"payload", "name"}
\* every attribute / method name of Node and of the internal sub-graph proxy of expand
MoreAttrNames == {"inputs", "outputs", "copy", "get_output", "serialise", "parent", "leaves", "output_map", "inner_sinks"}
AttrPairs == (TwoOutShapes \X AttrNames) \cup ({sh \in TwoOutShapes : sh.n <= 2} \X MoreAttrNames)
AttrCasesC == {[op |-> "copy", g |-> MkGraphO(sh, Unique, Ident, TRUE, o2)] : <<sh, o2>> \in AttrPairs}
AttrCasesF == {[op |-> "fuse", cb |-> "new", g |-> MkGraphO(sh, Unique, Ident, TRUE, o2)] : <<sh, o2>> \in AttrPairs}
AttrCasesR == {[op |-> "rename", fn |-> "prefix", g |-> MkGraphO(sh, Unique, Ident, TRUE, o2)] : <<sh, o2>> \in AttrPairs}
AttrCasesD == {[op |-> "dedup", g |-> MkGraphO(sh, Same, [i \in 1..sh.n |-> 1], TRUE, o2)] : <<sh, o2>> \in AttrPairs}
AttrCasesS == {[op |-> "split", key |-> [i \in 1..sh.n |-> i % 2], g |-> MkGraphO(sh, Unique, Ident, TRUE, o2)] : <<sh, o2>> \in AttrPairs}
KeyMaps(n) == {k \in [1..n -> (IF n <= Split3N THEN 0..2 ELSE 0..1)] : k[1] = 0}
SplitCases  == UNION {{[op |-> "split", key |-> k, g |-> MkGraph(sh, Unique, Ident, sh.n % 2 = 0)] : k \in KeyMaps(sh.n)} : sh \in BaseShapes}

\* ---------------------------------------------------------------- sink lists that name consumed nodes
\* A Graph is given by a LIST of sinks, which may also name nodes that other listed nodes consume (fluent graphs list every
\* node): "all" = every node, ancestors before descendants; "all_rev" = descendants first; "first_terms" = the first node
\* followed by the terminal nodes.  Each listed node is one sink of the input and must have its counterpart, once, in the result.
SinkModes == {"all", "all_rev", "first_terms"}
WithSinks(g, m) == [g EXCEPT !.sinks = IF m = "all" THEN [i \in 1..Len(g.nodes) |-> i]
                                       ELSE IF m = "all_rev" THEN [i \in 1..Len(g.nodes) |-> Len(g.nodes) + 1 - i]
                                       ELSE IF m = "first_terms" THEN <<1>> \o SelectSeq(g.sinks, LAMBDA i : i # 1) ELSE @]
SinkShapes == {sh \in BaseShapes : sh.n >= 2 /\ sh.n <= FullN /\ \E j \in 1..sh.n : sh.ins[j] # <<>>}
\* (fuse: being a listed sink is a use of a node, so a listed node is never offered to the callback as the parent to replace;
\*  the recycling callback is judged here too)
SinkCasesC == {[op |-> "copy", g |-> WithSinks(MkGraph(sh, Unique, Ident, TRUE), m)] : sh \in SinkShapes, m \in SinkModes}
SinkCasesR == {[op |-> "rename", fn |-> f, g |-> WithSinks(MkGraph(sh, Unique, Ident, TRUE), m)] : sh \in SinkShapes, m \in SinkModes, f \in {"prefix"}}
SinkCasesF == {[op |-> "fuse", cb |-> cb, g |-> WithSinks(MkGraph(sh, Unique, Ident, TRUE), m)] : sh \in SinkShapes, m \in SinkModes, cb \in {"new", "inplace", "linear"}}
SinkCasesD == {[op |-> "dedup", g |-> WithSinks(MkGraph(sh, Same, [i \in 1..sh.n |-> 1], TRUE), m)] : sh \in SinkShapes, m \in SinkModes}
SinkCasesS == {[op |-> "split", key |-> k, g |-> WithSinks(MkGraph(sh, Unique, Ident, TRUE), m)] :
                  sh \in SinkShapes, m \in SinkModes, k \in {[i \in 1..3 |-> i % 2], [i \in 1..3 |-> i - 1]}}

\* ---------------------------------------------------------------- expand: outer graph, node x to expand, sub-graph, maps, names
Ones(n) == [i \in 1..n |-> 1]
\* sub-graph node names by role: sources share names with the inputs of x ("a", "aa": the default input map applies),
\* sinks share names with the outputs of x ("0", "b": the default output map applies) and characters with the name of x
Schemes == {[src |-> <<"a", "aa", "x">>,  mid |-> <<"m1", "m2">>, snk |-> <<"0", "b", "ab">>],
            [src |-> <<"aa", "a", "x">>,  mid |-> <<"m1", "m2">>, snk |-> <<"a.a", "ab", "main">>],
            [src |-> <<"x", "a", "aa">>,  mid |-> <<"m1", "m2">>, snk |-> <<"m", "main", "0">>],
            [src |-> <<"a", "aa", "x">>,  mid |-> <<"m1", "m2">>, snk |-> <<"b.c", "a.b", "c">>]}
Benign == [src |-> <<"a", "aa", "x">>, mid |-> <<"m1", "m2">>, snk |-> <<"0", "b", "k3">>]
\* names of the expanded node: sharing characters with the sink names, and containing dots themselves (as the nodes made by
\* an earlier expand_graph or by join_namespaced do)
XNames == {"a", "b", "main", "n", "a.a", "a.b.c", "n.x"}
Rank(S, j) == Cardinality({i \in S : i <= j})
Sources(sh) == {i \in 1..sh.n : IsSource(sh, i)}
SubNames(sh, sch) == [j \in 1..sh.n |-> IF IsSource(sh, j) THEN sch.src[Rank(Sources(sh), j)]
                                        ELSE IF Terminal(sh, j) THEN sch.snk[Rank(Terminals(sh), j)]
                                        ELSE sch.mid[Rank((1..sh.n) \ (Sources(sh) \cup Terminals(sh)), j)]]
SubGraphP(sh, sch, base) == MkGraph(sh, SubNames(sh, sch), [j \in 1..sh.n |-> base + j], FALSE)
SubGraph(sh, sch) == SubGraphP(sh, sch, 10)
OuterNames(x, xn) == [i \in 1..6 |-> IF i = x THEN xn ELSE <<"n1", "n2", "n3", "n4", "n5", "n6">>[i]]
\* sub-graphs: simple single-output shapes whose terminal nodes are proper sinks (no outputs, at least one input)
SubShapes == {sh \in UNION {ShapesWith(n, Ones(n), FALSE) : n \in 2..3} : \A i \in Terminals(sh) : ~IsSource(sh, i)}
Fork == [n |-> 3, outs |-> Ones(3), ins |-> <<<<>>, <<Code(1, 1)>>, <<Code(1, 1)>>>>]
Chain2 == [n |-> 2, outs |-> Ones(2), ins |-> <<<<>>, <<Code(1, 1)>>>>]
\* outer contexts: every simple DAG with <= ExpN nodes and every choice of x, x with one or two outputs
OuterCtx == UNION {UNION {{<<sh, x>> : sh \in ShapesWith(n, [i \in 1..n |-> IF i = x /\ two THEN 2 ELSE 1], FALSE)} :
                             x \in 1..n, two \in BOOLEAN} : n \in 1..ExpN}
O1 == <<[n |-> 3, outs |-> Ones(3), ins |-> <<<<>>, <<Code(1, 1)>>, <<Code(2, 1)>>>>], 2>>                 \* p -> x -> c
O2 == <<[n |-> 4, outs |-> <<1, 1, 2, 1>>, ins |-> <<<<>>, <<>>, <<Code(1, 1), Code(2, 1)>>, <<Code(3, 1), Code(3, 2)>>>>], 3>>
O3 == <<[n |-> 1, outs |-> <<1>>, ins |-> <<<<>>>>], 1>>                                                    \* x alone
O4 == <<[n |-> 3, outs |-> <<1, 2, 1>>, ins |-> <<<<>>, <<Code(1, 1)>>, <<Code(2, 2), Code(1, 1)>>>>], 2>>   \* c reads x.b and p
PairsOf(f) == SetToSeq({<<k, f[k]>> : k \in DOMAIN f})
ExpCasesForO(ctx, termOut, xn, ssh, sch, allMaps, pre, out2) ==
  LET sh == ctx[1]
      x == ctx[2]
      g == MkGraphO(sh, OuterNames(x, xn), Ident, termOut, out2)
      sub == SubGraph(ssh, sch)
      xin == {inp[1] : inp \in SetOf(g.nodes[x].inputs)}
      xout == SetOf(g.nodes[x].outputs)
      srcs == {sub.nodes[j].name : j \in Sources(ssh)}
      snks == {sub.nodes[j].name : j \in Terminals(ssh)}
      omaps == IF allMaps THEN [xout -> snks] ELSE {f \in [xout -> snks] : \A o1, o2 \in xout : o1 # o2 => f[o1] # f[o2]}
      \* explicit input maps: {} (nothing is spliced, whatever the names), partial, full -- exactly the listed sources are spliced
      imaps == IF xin = {} THEN {<<>>} ELSE UNION {[S -> xin] : S \in SUBSET srcs}
      \* partial output maps: any proper subset of the outputs is mapped, the others fall back to the sink of the same name
      pomaps == UNION {[D -> snks] : D \in {D \in SUBSET xout : D # xout /\ (xout \ D) \subseteq snks}}
  IN  {[op |-> "expand", pre |-> pre, g |-> g, x |-> x, sub |-> sub, imapNone |-> TRUE, imap |-> <<>>, omapNone |-> FALSE, omap |-> PairsOf(om)] :
          om \in pomaps}
      \cup
      {[op |-> "expand", pre |-> pre, g |-> g, x |-> x, sub |-> sub, imapNone |-> FALSE, imap |-> PairsOf(im), omapNone |-> FALSE, omap |-> PairsOf(om)] :
          im \in imaps, om \in omaps}
      \cup (IF xout \subseteq snks
            THEN {[op |-> "expand", pre |-> pre, g |-> g, x |-> x, sub |-> sub, imapNone |-> TRUE, imap |-> <<>>, omapNone |-> TRUE, omap |-> <<>>]}
                 \cup {[op |-> "expand", pre |-> pre, g |-> g, x |-> x, sub |-> sub, imapNone |-> FALSE, imap |-> PairsOf(im), omapNone |-> TRUE, omap |-> <<>>] : im \in imaps}
            ELSE {})
      \cup {[op |-> "expand", pre |-> pre, g |-> g, x |-> x, sub |-> sub, imapNone |-> TRUE, imap |-> <<>>, omapNone |-> FALSE, omap |-> PairsOf(om)] : om \in omaps}
ExpCasesFor(ctx, termOut, xn, ssh, sch, allMaps, pre) == ExpCasesForO(ctx, termOut, xn, ssh, sch, allMaps, pre, "b")
\* (A) every outer context x one sub-graph; (B) four outer contexts x every sub-graph x every map; (C) names x names
ExpandCases ==
     UNION {ExpCasesFor(ctx, t, "n", Fork, Benign, FALSE, "") : ctx \in OuterCtx, t \in BOOLEAN}
\cup UNION {ExpCasesFor(ctx, TRUE, "n", ssh, Benign, TRUE, "") : ctx \in {O1, O2, O3, O4}, ssh \in SubShapes}
\cup UNION {ExpCasesFor(ctx, TRUE, xn, ssh, sch, FALSE, "") : ctx \in {O1, O2}, xn \in XNames, ssh \in {Fork, Chain2}, sch \in Schemes}
\* (D) the graph is first put into a namespace (join_namespaced(ns = g): every name becomes "ns.<name>"), then expanded
\cup UNION {ExpCasesFor(ctx, TRUE, xn, Fork, sch, FALSE, "ns") : ctx \in {O1, O2}, xn \in {"n", "a", "a.a"}, sch \in Schemes}
\* (F) the second output of the expanded node is called like an attribute of Node / of the sub-graph proxy, and is consumed
\cup UNION {ExpCasesForO(ctx, TRUE, "n", Fork, Benign, FALSE, "", o2) : ctx \in {O2, O4}, o2 \in AttrNames \cup MoreAttrNames}
\* (G) sink lists naming consumed nodes, of the outer graph and / or of the sub-graph
\cup UNION {{[c EXCEPT !.g = WithSinks(c.g, m), !.sub = WithSinks(c.sub, ms)] : m \in SinkModes \cup {""}, ms \in {"all", "all_rev", ""}} \ {c}
              : c \in UNION {ExpCasesFor(ctx, TRUE, "n", ssh, Benign, FALSE, "") : ctx \in {O1, O2, O4}, ssh \in {Fork, Chain2}}}
\* (E) two levels: x is expanded (explicit maps), then the spliced leaf "<x>.<sink>" of the result is expanded in turn
Expand2Cases ==
  UNION {UNION {{[op |-> "expand2", pre |-> "", g |-> c1.g, x |-> c1.x, sub |-> c1.sub, imapNone |-> FALSE, imap |-> c1.imap,
                  omapNone |-> FALSE, omap |-> c1.omap, x2 |-> c1.omap[k][2],
                  sub2 |-> SubGraphP(Chain2, sch, 20), imap2None |-> TRUE, imap2 |-> <<>>, omap2None |-> FALSE,
                  omap2 |-> <<<<"0", sch.snk[1]>>>>] : k \in DOMAIN c1.omap, sch \in Schemes}
                : c1 \in {c \in ExpCasesFor(ctx, TRUE, xn, Fork, Benign, FALSE, "") : ~c.imapNone /\ ~c.omapNone}}
         : ctx \in {O1, O2}, xn \in {"n", "a", "a.a"}}

\* ======================================================================== reference semantics: the term a node denotes
Lookup(m, k) == (CHOOSE p \in m : p[1] = k)[2]
\* term = <<payload id, outputs, {<<input name, <<term of the parent, output>> >>}>>; fused payloads are unfolded
RECURSIVE Unfuse(_, _, _)
Unfuse(p, outs, m) ==
  IF p.k = "atom" THEN <<p.id, outs, m>>
  ELSE IF p.k = "fused"
  THEN LET pt == Unfuse(p.pp, p.pouts, {<<pr[1], Lookup(m, pr[2])>> : pr \in SetOf(p.pin)})
       IN  Unfuse(p.cp, outs, {<<p.ci, <<pt, p.po>>>>} \cup {<<pr[1], Lookup(m, pr[2])>> : pr \in SetOf(p.cin)})
  ELSE <<0, outs, m>>
RECURSIVE NT(_, _)
NT(g, i) == LET n == g.nodes[i]
            IN Unfuse(n.payload, n.outputs, {<<inp[1], <<NT(g, inp[2]), inp[3]>>>> : inp \in SetOf(n.inputs)})
Denote(g, i, o) == <<NT(g, i), o>>
SinkTerms(g) == {NT(g, s) : s \in SetOf(g.sinks)}
SinkTermSeq(g) == [k \in DOMAIN g.sinks |-> NT(g, g.sinks[k])]

\* ---------------------------------------------------------------- shape of a dump
N(g) == Len(g.nodes)
WellFormed(g) == /\ \A s \in SetOf(g.sinks) : s \in 1..N(g)
                 /\ \A i \in 1..N(g) : \A inp \in SetOf(g.nodes[i].inputs) :
                        inp[2] \in 1..N(g) /\ inp[3] \in SetOf(g.nodes[inp[2]].outputs)
Parents(g, i) == {inp[2] : inp \in SetOf(g.nodes[i].inputs)}
RECURSIVE Anc(_, _, _)
Anc(g, S, k) == IF k = 0 THEN S ELSE Anc(g, S \cup UNION {Parents(g, i) : i \in S}, k - 1)
Acyclic(g) == \A i \in 1..N(g) : i \notin Anc(g, Parents(g, i), N(g))
Struct(g) == IF ~WellFormed(g) THEN {"input_is_not_an_output_of_a_result_node"} ELSE IF ~Acyclic(g) THEN {"result_has_a_cycle"} ELSE {}

\* ======================================================================== post-conditions
\* copy, rename, fuse: the k-th sink of the result denotes what the k-th sink of the input denotes
PostSame(c, r) ==
  IF Struct(r.g) # {} THEN Struct(r.g)
  ELSE IF SinkTermSeq(r.g) = SinkTermSeq(c.g) THEN {} ELSE {"sink_terms_differ"}

RenFn(f, nm) == IF f = "prefix" THEN "a." \o nm ELSE "a"
PostRename(c, r) ==
  PostSame(c, r) \cup
  (IF \A i \in 1..N(r.g) : \E j \in 1..N(c.g) : /\ c.g.nodes[j].payload = r.g.nodes[i].payload
                                                 /\ r.g.nodes[i].name = RenFn(c.fn, c.g.nodes[j].name)
   THEN {} ELSE {"name_is_not_func_of_old_name"})

NoDup(g) == \A i, j \in 1..N(g) : i < j => ~(/\ g.nodes[i].payload = g.nodes[j].payload
                                             /\ g.nodes[i].outputs = g.nodes[j].outputs
                                             /\ SetOf(g.nodes[i].inputs) = SetOf(g.nodes[j].inputs))
PostDedup(c, r) ==
  IF Struct(r.g) \cup Struct(r.g2) # {} THEN Struct(r.g) \cup Struct(r.g2)
  ELSE (IF SinkTerms(r.g) = SinkTerms(c.g) THEN {} ELSE {"sink_terms_differ"})
  \cup (IF NoDup(r.g) THEN {} ELSE {"duplicates_left"})
  \cup (IF N(r.g2) = N(r.g) /\ Len(r.g2.sinks) = Len(r.g.sinks) /\ SinkTerms(r.g2) = SinkTerms(r.g) THEN {} ELSE {"not_idempotent"})

\* split: r = [nodes, parts |-> << <<key, <<sink index..>> >> >>, cuts |-> <<[name, sk, sn, so, dk, dn, di]>>]
PostSplit(c, r) ==
  LET G == [nodes |-> r.nodes, sinks |-> <<>>]
      P == DOMAIN r.parts
      Members(p) == Anc(G, SetOf(r.parts[p][2]), N(G))                \* nodes of part p = everything its sinks reach
      CutNames == {r.cuts[k].name : k \in DOMAIN r.cuts}
      nm(i) == r.nodes[i].name
      IsReal(i) == nm(i) \notin CutNames
      Orig(name) == CHOOSE j \in 1..N(c.g) : c.g.nodes[j].name = name
      OrigNames == {c.g.nodes[j].name : j \in 1..N(c.g)}
      Where(name) == {<<p, i>> \in {<<p, i>> : p \in P, i \in 1..N(G)} : i \in Members(p) /\ nm(i) = name}
      \* the sink that the reported cut `name` left behind (searched in every part)
      CutSinks(name) == {i \in UNION {Members(p) : p \in P} : nm(i) = name /\ r.nodes[i].outputs = <<>> /\ Len(r.nodes[i].inputs) = 1}
      Resolve(inp) == IF IsReal(inp[2]) THEN <<inp[1], nm(inp[2]), inp[3]>>
                      ELSE IF r.nodes[inp[2]].inputs # <<>> \/ Cardinality(CutSinks(nm(inp[2]))) # 1 THEN <<inp[1], "?", "?">>
                      ELSE LET s == r.nodes[CHOOSE i \in CutSinks(nm(inp[2])) : TRUE].inputs[1]
                           IN  <<inp[1], nm(s[2]), s[3]>>
      OrigInputs(j) == {<<inp[1], c.g.nodes[inp[2]].name, inp[3]>> : inp \in SetOf(c.g.nodes[j].inputs)}
      CrossEdges == {<<c.key[inp[2]], c.g.nodes[inp[2]].name, inp[3], c.key[j], c.g.nodes[j].name, inp[1]>> :
                        <<j, inp>> \in {<<j, inp>> \in (1..N(c.g)) \X UNION {SetOf(c.g.nodes[j].inputs) : j \in 1..N(c.g)} :
                                           inp \in SetOf(c.g.nodes[j].inputs) /\ c.key[inp[2]] # c.key[j]}}
      Reported == {<<r.cuts[k].sk, r.cuts[k].sn, r.cuts[k].so, r.cuts[k].dk, r.cuts[k].dn, r.cuts[k].di>> : k \in DOMAIN r.cuts}
      RealSinks == {nm(i) : i \in {i \in UNION {SetOf(r.parts[p][2]) : p \in P} : IsReal(i)}}
  IN
  IF Struct(G) # {} \/ \E p \in P : ~(SetOf(r.parts[p][2]) \subseteq 1..N(G)) THEN Struct(G) \cup {"part_sink_is_not_a_node"}
  ELSE (IF /\ \A name \in OrigNames : Cardinality(Where(name)) = 1
           /\ \A i \in 1..N(G) : Cardinality({p \in P : i \in Members(p)}) <= 1
           /\ \A p \in P : \A i \in Members(p) : IsReal(i) => nm(i) \in OrigNames
        THEN {} ELSE {"node_not_in_exactly_one_part"})
  \cup (IF \A p \in P : \A i \in Members(p) : (IsReal(i) /\ nm(i) \in OrigNames) => c.key[Orig(nm(i))] = r.parts[p][1]
        THEN {} ELSE {"node_in_part_of_other_key"})
  \cup (IF Reported = CrossEdges /\ Len(r.cuts) = Cardinality(CrossEdges) THEN {} ELSE {"cut_edges_are_not_the_cross_part_edges"})
  \cup (IF \A p \in P : \A i \in Members(p) : (IsReal(i) /\ nm(i) \in OrigNames) =>
              LET j == Orig(nm(i)) IN /\ r.nodes[i].payload = c.g.nodes[j].payload
                                      /\ r.nodes[i].outputs = c.g.nodes[j].outputs
                                      /\ {Resolve(inp) : inp \in SetOf(r.nodes[i].inputs)} = OrigInputs(j)
        THEN {} ELSE {"rejoined_parts_differ_from_original"})
  \cup (IF RealSinks = {c.g.nodes[s].name : s \in SetOf(c.g.sinks)} THEN {} ELSE {"sinks_differ"})

\* expand: the reference is the documented splice, as terms.  x is replaced by the sub-graph: a sub-graph source named in the
\* input map becomes a processor (same payload and outputs) reading, through "input", what x read through the mapped input;
\* a sub-graph sink selected by the output map becomes a processor with the default output; output o of x is that output.
XN(c) == c.g.nodes[c.x]
XInput(c, iname) == CHOOSE inp \in SetOf(XN(c).inputs) : inp[1] = iname
EffIn(c) == IF c.imapNone THEN {<<inp[1], inp[1]>> : inp \in SetOf(XN(c).inputs)} ELSE SetOf(c.imap)   \* {<<source name, input of x>>}
EffOut(c, o) == IF c.omapNone \/ (\A pr \in SetOf(c.omap) : pr[1] # o) THEN o ELSE (CHOOSE pr \in SetOf(c.omap) : pr[1] = o)[2]
LeafNames(c) == {EffOut(c, o) : o \in SetOf(XN(c).outputs)}
SubIdx(c, name) == CHOOSE j \in 1..N(c.sub) : c.sub.nodes[j].name = name
RECURSIVE ET(_, _), EOut(_, _, _), ST(_, _)
EOut(c, i, o) == IF i = c.x THEN <<ST(c, SubIdx(c, EffOut(c, o))), "0">> ELSE <<ET(c, i), o>>
ET(c, i) == LET n == c.g.nodes[i] IN <<n.payload.id, n.outputs, {<<inp[1], EOut(c, inp[2], inp[3])>> : inp \in SetOf(n.inputs)}>>
ST(c, j) == LET n == c.sub.nodes[j]
                ins == {<<inp[1], <<ST(c, inp[2]), inp[3]>>>> : inp \in SetOf(n.inputs)}
            IN IF n.inputs = <<>> /\ \E pr \in EffIn(c) : pr[1] = n.name
               THEN LET xi == XInput(c, (CHOOSE pr \in EffIn(c) : pr[1] = n.name)[2])
                    IN  <<n.payload.id, n.outputs, {<<"input", EOut(c, xi[2], xi[3])>>}>>
               ELSE IF n.outputs = <<>> /\ n.name \in LeafNames(c) THEN <<n.payload.id, <<"0">>, ins>>
               ELSE <<n.payload.id, n.outputs, ins>>
PostExpand(c, r) ==
  LET outerSinks == SetOf(c.g.sinks)
      subSinkTerms == {ST(c, j) : j \in SetOf(c.sub.sinks)}
      must == {ET(c, s) : s \in outerSinks \ {c.x}} \cup (IF c.x \in outerSinks THEN subSinkTerms ELSE {})
      consumers == {<<j, inp>> \in (1..N(c.g)) \X UNION {SetOf(c.g.nodes[j].inputs) : j \in 1..N(c.g)} :
                       inp \in SetOf(c.g.nodes[j].inputs) /\ inp[2] = c.x}
      Wired(j, inp) == \E i \in 1..N(r.g) : /\ r.g.nodes[i].payload = c.g.nodes[j].payload
                                            /\ \E ri \in SetOf(r.g.nodes[i].inputs) :
                                                  /\ ri[1] = inp[1] /\ ri[3] = "0"
                                                  /\ r.g.nodes[ri[2]].payload = c.sub.nodes[SubIdx(c, EffOut(c, inp[3]))].payload
  IN
  IF Struct(r.g) # {} THEN Struct(r.g)
  ELSE (IF {ET(c, s) : s \in outerSinks \ {c.x}} \subseteq SinkTerms(r.g) THEN {} ELSE {"sink_terms_differ"})
  \cup (IF c.x \in outerSinks => subSinkTerms \subseteq SinkTerms(r.g) THEN {} ELSE {"expanded_sink_has_no_counterpart"})
  \cup (IF SinkTerms(r.g) \subseteq (must \cup subSinkTerms) THEN {} ELSE {"sink_of_result_denotes_nothing_of_the_input"})
  \cup (IF \A cn \in consumers : Wired(cn[1], cn[2]) THEN {} ELSE {"consumer_not_wired_to_selected_leaf"})

\* two levels: the dump of the first result is the graph of the second expansion
PostExpand2(c, r) ==
  LET first == PostExpand(c, [g |-> r.g])
      x2n == XN(c).name \o "." \o c.x2
      cands == {i \in 1..N(r.g) : r.g.nodes[i].name = x2n}
  IN IF first # {} THEN first
     ELSE IF Cardinality(cands) # 1 THEN {"spliced_node_is_not_named_parent_dot_name"}
     ELSE LET c2 == [g |-> r.g, x |-> CHOOSE i \in cands : TRUE, sub |-> c.sub2, imapNone |-> c.imap2None, imap |-> c.imap2,
                     omapNone |-> c.omap2None, omap |-> c.omap2]
          IN {"second_level:" \o b : b \in PostExpand(c2, [g |-> r.g2])}

Post(c, r) == CASE c.op = "copy"   -> PostSame(c, r)
                [] c.op = "rename" -> PostRename(c, r)
                [] c.op = "fuse"   -> PostSame(c, r)
                [] c.op = "dedup"  -> PostDedup(c, r)
                [] c.op = "split"  -> PostSplit(c, r)
                [] c.op = "expand" -> PostExpand(c, r)
                [] c.op = "expand2" -> PostExpand2(c, r)

\* ======================================================================== the two TLC passes
Generate == JsonSerialize(IOEnv.CASES_FILE,
               SetToSeq(CopyCases) \o SetToSeq(RenameCases) \o SetToSeq(FuseCases) \o SetToSeq(DedupCasesF) \o SetToSeq(SplitCases) \o SetToSeq(ExpandCases) \o SetToSeq(Expand2Cases)
               \o SetToSeq(AttrCasesC) \o SetToSeq(AttrCasesF) \o SetToSeq(AttrCasesR)
               \o SetToSeq(AttrCasesD) \o SetToSeq(AttrCasesS)
               \o SetToSeq(SinkCasesC) \o SetToSeq(SinkCasesR) \o SetToSeq(SinkCasesF) \o SetToSeq(SinkCasesD) \o SetToSeq(SinkCasesS))
Judge ==
  LET cs == JsonDeserialize(IOEnv.CASES_FILE)
      rs == JsonDeserialize(IOEnv.RESULTS_FILE)
  IN \A i \in DOMAIN cs :
       LET bad == IF "error" \in DOMAIN rs[i] THEN {"raised"} ELSE Post(cs[i], rs[i])
       IN bad = {} \/ PrintT("B|" \o ToString(i) \o "|" \o ToString({cs[i].op \o ":" \o b : b \in bad}))
=============================================================================
