-------------------------------- MODULE Acked --------------------------------
(***************************************************************************)
(* The acknowledged-send layer of cascade.executor.comms in BOTH           *)
(* directions between the controller (Bridge.recv_events loop) and one     *)
(* executor (Executor.recv_loop): ReliableSender (idx, inflight, retry     *)
(* budget), a lossy / duplicating / reordering network, Listener           *)
(* (always ack, deliver only an unseen Syn(idx, addr)).                    *)
(*                                                                         *)
(* One action per iteration of an endpoint's receive loop: the iteration   *)
(* handles one frame (or none) and then -- iff that endpoint's loop drives *)
(* retries at all, constant Retries[e] -- calls maybe_retry().  Whether a  *)
(* loop calls maybe_retry is code, not design; the conformance harness     *)
(* replays behaviours of this module into the real loops.                  *)
(***************************************************************************)
EXTENDS Naturals, Sequences, FiniteSets, TLC, Json, IOUtils, SequencesExt

CONSTANTS N,         \* [Endpoint -> Nat] messages the application hands to the layer at each endpoint
          R,         \* max_retries_per_message
          Faults,    \* total budget of network faults (drop / duplicate)
          Retries,   \* [Endpoint -> BOOLEAN] does the endpoint's loop call maybe_retry()
          MaxAges    \* how often "a long time passes" (Age) may happen

Endpoint == {"ctrl", "exec"}
Peer(e) == IF e = "ctrl" THEN "exec" ELSE "ctrl"

VARIABLES
  sidx,       \* [Endpoint -> Nat] next idx of the endpoint's ReliableSender
  inflight,   \* [Endpoint -> [idx -> [rem, stale]]] unacknowledged records
  net,        \* [Endpoint -> bag of frames addressed to it], a frame is <<"data", i>> or <<"ack", i>> (from the peer)
  acked,      \* [Endpoint -> set of idx] Listener.acked (the address component is the peer's, constant here)
  delivered,  \* [Endpoint -> Seq(idx)] messages handed to the receiving application, in order
  raised,     \* [Endpoint -> BOOLEAN] maybe_retry raised ("retried too many times")
  sends,      \* [Endpoint -> [idx -> Nat]] ghost: how often the data frame was put on the wire
  faults,
  ages,       \* how often a long time has passed (model bound MaxAges)
  last
vars == <<sidx, inflight, net, acked, delivered, raised, sends, faults, ages, last>>
view == <<sidx, inflight, net, acked, delivered, raised, sends, faults, ages>>

Count(b, f) == IF f \in DOMAIN b THEN b[f] ELSE 0
Put(b, f)   == [g \in DOMAIN b \cup {f} |-> Count(b, g) + (IF g = f THEN 1 ELSE 0)]
Take(b, f)  == [g \in {h \in DOMAIN b : h # f \/ b[h] > 1} |-> IF g = f THEN b[g] - 1 ELSE b[g]]
Empty == [f \in {} |-> 0]
Rng(s) == {s[i] : i \in 1..Len(s)}

Init ==
  /\ sidx = [e \in Endpoint |-> 0] /\ inflight = [e \in Endpoint |-> Empty]
  /\ net = [e \in Endpoint |-> Empty] /\ acked = [e \in Endpoint |-> {}]
  /\ delivered = [e \in Endpoint |-> <<>>] /\ raised = [e \in Endpoint |-> FALSE]
  /\ sends = [e \in Endpoint |-> Empty] /\ faults = 0 /\ ages = 0 /\ last = <<"Init">>

\* ReliableSender.send: the application hands message sidx[e] to the layer
Send(e) ==
  /\ sidx[e] < N[e] /\ ~raised[e]
  /\ LET i == sidx[e] IN
     /\ inflight' = [inflight EXCEPT ![e] = [j \in DOMAIN @ \cup {i} |-> IF j = i THEN [rem |-> R, stale |-> FALSE] ELSE @[j]]]
     /\ net' = [net EXCEPT ![Peer(e)] = Put(@, <<"data", i>>)]
     /\ sends' = [sends EXCEPT ![e] = Put(@, i)]
     /\ sidx' = [sidx EXCEPT ![e] = i + 1]
     /\ last' = <<"Send", e, i>>
  /\ UNCHANGED <<acked, delivered, raised, faults, ages>>

\* maybe_retry: records in idx order; resend, refresh, decrement; raise at the first record whose budget is spent
Stale(infl) == {i \in DOMAIN infl : infl[i].stale}
RetryOutcome(e, infl) ==
  LET st == Stale(infl)
      spent == {i \in st : infl[i].rem <= 1}
      first == IF spent = {} THEN 0 ELSE CHOOSE i \in spent : \A j \in spent : i <= j
      upto == IF spent = {} THEN st ELSE {i \in st : i <= first}
  IN [resent |-> upto, raises |-> spent # {},
      infl |-> [i \in DOMAIN infl |-> IF i \in upto THEN [rem |-> infl[i].rem - 1, stale |-> FALSE] ELSE infl[i]]]

RECURSIVE PutAll(_, _)
PutAll(b, S) == IF S = {} THEN b ELSE LET i == CHOOSE j \in S : TRUE IN PutAll(Put(b, i), S \ {i})

\* one iteration of e's receive loop handling frame f (or "none"), then maybe_retry if the loop has it
Iter(e, f) ==
  /\ ~raised[e]
  /\ f = <<"none">> \/ Count(net[e], f) > 0
  /\ LET p == Peer(e)
         net1 == IF f = <<"none">> THEN net[e] ELSE Take(net[e], f)
         isData == f[1] = "data"
         isAck == f[1] = "ack"
         fresh == isData /\ f[2] \notin acked[e]
         infl1 == IF isAck THEN [j \in DOMAIN inflight[e] \ {f[2]} |-> inflight[e][j]] ELSE inflight[e]
         ro == IF Retries[e] THEN RetryOutcome(e, infl1) ELSE [resent |-> {}, raises |-> FALSE, infl |-> infl1]
         toPeer0 == IF isData THEN Put(net[p], <<"ack", f[2]>>) ELSE net[p]          \* always ack
         toPeer == PutAll(toPeer0, {<<"data", i>> : i \in ro.resent})
     IN /\ acked' = [acked EXCEPT ![e] = IF fresh THEN @ \cup {f[2]} ELSE @]
        /\ delivered' = [delivered EXCEPT ![e] = IF fresh THEN Append(@, f[2]) ELSE @]
        /\ inflight' = [inflight EXCEPT ![e] = ro.infl]
        /\ net' = [net EXCEPT ![e] = net1, ![p] = toPeer]
        /\ sends' = [sends EXCEPT ![e] = PutAll(@, ro.resent)]
        /\ raised' = [raised EXCEPT ![e] = ro.raises]
        /\ last' = <<"Iter", e, f, ro.raises>>
  /\ UNCHANGED <<sidx, faults, ages>>

\* the resend grace elapses (one clock for everybody)
Tick ==
  /\ \E e \in Endpoint : \E i \in DOMAIN inflight[e] : ~inflight[e][i].stale
  /\ inflight' = [e \in Endpoint |-> [i \in DOMAIN inflight[e] |-> [inflight[e][i] EXCEPT !.stale = TRUE]]]
  /\ last' = <<"Tick">>
  /\ UNCHANGED <<sidx, net, acked, delivered, raised, sends, faults, ages>>

\* a long time passes (a minute: far beyond every grace period and beyond the whole retry budget): nothing may be forgotten
Age ==
  /\ ages < MaxAges
  /\ ages' = ages + 1
  /\ inflight' = [e \in Endpoint |-> [i \in DOMAIN inflight[e] |-> [inflight[e][i] EXCEPT !.stale = TRUE]]]
  /\ last' = <<"Age">>
  /\ UNCHANGED <<sidx, net, acked, delivered, raised, sends, faults>>

Drop(e, f) == /\ faults < Faults /\ Count(net[e], f) > 0
              /\ net' = [net EXCEPT ![e] = Take(@, f)] /\ faults' = faults + 1 /\ last' = <<"Drop", e, f>>
              /\ UNCHANGED <<sidx, inflight, acked, delivered, raised, sends, ages>>
Dup(e, f)  == /\ faults < Faults /\ Count(net[e], f) > 0
              /\ net' = [net EXCEPT ![e] = Put(@, f)] /\ faults' = faults + 1 /\ last' = <<"Dup", e, f>>
              /\ UNCHANGED <<sidx, inflight, acked, delivered, raised, sends, ages>>

Frames == {<<"none">>} \cup {<<k, i>> : k \in {"data", "ack"}, i \in 0..3}
Next == \/ \E e \in Endpoint : Send(e)
        \/ \E e \in Endpoint, f \in Frames : Iter(e, f)
        \/ Tick \/ Age
        \/ \E e \in Endpoint, f \in Frames : Drop(e, f)
        \/ \E e \in Endpoint, f \in Frames : Dup(e, f)
Spec == Init /\ [][Next]_vars
\* fairness: loops keep iterating (on every frame kind), time passes, the application sends what it has
Fair == /\ \A e \in Endpoint : WF_vars(Send(e))
        /\ \A e \in Endpoint, f \in Frames : WF_vars(Iter(e, f))
        /\ WF_vars(Tick)
FairSpec == Spec /\ Fair

(***************************************************************************)
(* C06                                                                     *)
(***************************************************************************)
AtMostOnce == \A e \in Endpoint : \A a, b \in 1..Len(delivered[e]) : a # b => delivered[e][a] # delivered[e][b]
NoForgery  == \A e \in Endpoint : Rng(delivered[e]) \subseteq 0..(sidx[Peer(e)] - 1)
\* a message whose record was retired (acknowledged) really reached the application
AckedImpliesDelivered ==
  \A e \in Endpoint : \A i \in 0..(sidx[e] - 1) : (i \notin DOMAIN inflight[e]) => i \in Rng(delivered[Peer(e)])
\* the sender gives up only after the whole budget: the frame was put on the wire R + 1 times
GiveUpOnlyAfterBudget == \A e \in Endpoint : raised[e] => \E i \in DOMAIN sends[e] : sends[e][i] = R + 1
BudgetRespected == \A e \in Endpoint : \A i \in DOMAIN sends[e] : sends[e][i] <= R + 1
\* every message handed to the layer is eventually delivered, or the sender has raised
ExactlyOnceOrRaise == \A e \in Endpoint : <>[](raised[e] \/ \A i \in 0..(N[e] - 1) : i \in Rng(delivered[Peer(e)]))
TypeOK == /\ \A e \in Endpoint : sidx[e] \in 0..N[e] /\ faults \in 0..Faults

(***************************************************************************)
(* Listener._recv_one as a function of the shape of a multipart message    *)
(* (used by the malformed-frame catalogue of the conformance harness).     *)
(* part kinds: "syn", "hdr" (payload header), "msg" (any other message),   *)
(* "raw" (bytes that are not a pickled message, only valid as a payload).  *)
(* outcome: [ack |-> BOOLEAN, res |-> "error" | "none" | "msg" | "payload"]*)
(***************************************************************************)
RecvOne(shape, seen) ==
  IF Len(shape) = 0 THEN [ack |-> FALSE, res |-> "error"]
  ELSE IF shape[1] = "syn"
       THEN IF Len(shape) = 1 THEN [ack |-> TRUE, res |-> "error"]
            ELSE IF seen THEN [ack |-> TRUE, res |-> "none"]
            ELSE IF shape[2] = "syn" THEN [ack |-> TRUE, res |-> "error"]
            ELSE IF shape[2] = "hdr" THEN (IF Len(shape) = 3 THEN [ack |-> TRUE, res |-> "payload"] ELSE [ack |-> TRUE, res |-> "error"])
            ELSE IF shape[2] = "raw" THEN [ack |-> TRUE, res |-> "error"]
            ELSE (IF Len(shape) = 2 THEN [ack |-> TRUE, res |-> "msg"] ELSE [ack |-> TRUE, res |-> "error"])
  ELSE IF shape[1] = "hdr" THEN (IF Len(shape) = 2 THEN [ack |-> FALSE, res |-> "payload"] ELSE [ack |-> FALSE, res |-> "error"])
  ELSE IF shape[1] = "raw" THEN [ack |-> FALSE, res |-> "error"]
  ELSE (IF Len(shape) = 1 THEN [ack |-> FALSE, res |-> "msg"] ELSE [ack |-> FALSE, res |-> "error"])
Parts == {"syn", "hdr", "msg", "raw"}
Shapes == UNION {[1..n -> Parts] : n \in 0..4}
\* what the property demands of every shape: a well-formed one is delivered as itself, anything else is an error
WellFormed(shape) == shape \in {<<"syn", "msg">>, <<"syn", "hdr", "raw">>, <<"msg">>, <<"hdr", "raw">>,
                                <<"syn", "hdr", "msg">>, <<"hdr", "msg">>, <<"syn", "hdr", "syn">>, <<"hdr", "syn">>,
                                <<"syn", "hdr", "hdr">>, <<"hdr", "hdr">>}
MalformedRejected == \A s \in Shapes : ~WellFormed(s) => RecvOne(s, FALSE).res \in {"error"}
WellFormedDelivered == \A s \in Shapes : WellFormed(s) => RecvOne(s, FALSE).res \in {"msg", "payload"}
\* the table the conformance harness compares the real Listener with (pattern P3)
ShapeSeq == SetToSeq(Shapes)
Generate == IF IOEnv.PASS # "shapes" THEN TRUE ELSE JsonSerialize(IOEnv.CASES_FILE, [i \in 1..Len(ShapeSeq) |-> ShapeSeq[i]])
Judge == IF IOEnv.PASS # "shapesj" THEN TRUE ELSE
  LET cs == JsonDeserialize(IOEnv.CASES_FILE)
      rs == JsonDeserialize(IOEnv.RESULTS_FILE)     \* [shape, seen, ack, res] per (shape, seen)
  IN \A i \in DOMAIN rs :
       LET want == RecvOne(rs[i].shape, rs[i].seen /\ Len(rs[i].shape) > 0 /\ rs[i].shape[1] = "syn")
           bad == (IF rs[i].res = want.res THEN {} ELSE {"listener_outcome_" \o want.res \o "_got_" \o rs[i].res})
               \cup (IF rs[i].ack = want.ack THEN {} ELSE {"listener_ack"})
       IN bad = {} \/ PrintT("B|" \o ToString(i) \o "|" \o ToString(bad))

(***************************************************************************)
(* Several senders into one Listener (the controller's listener hears      *)
(* every executor and every data server; their idx counters all start at   *)
(* 0).  A delivery is identified by (sender address, idx): the same idx    *)
(* from another sender is another message.                                 *)
(***************************************************************************)
Senders == {"A", "B", "D"}
\* ... and long histories: a re-sent message is recognised however many other messages were received in between
Long(n, rep) == [i \in 1..(n + Len(rep)) |-> IF i <= n THEN <<"A", i - 1>> ELSE <<"A", rep[i - n]>>]
\* ... and late first arrivals: the first frame of message k was lost, its re-send arrives after n newer messages of the same
\* sender (and once more after that): it is a NEW message however old its number looks (a window of recent numbers is not enough)
Late(n, k) == LET rest == SelectSeq([i \in 1..(n + 1) |-> i - 1], LAMBDA x : x # k)
              IN [i \in 1..(n + 2) |-> IF i <= n THEN <<"A", rest[i]>> ELSE <<"A", k>>]
Deliveries == UNION {[1..n -> Senders \X (0..1)] : n \in 0..4} \cup {Long(700, <<0, 350, 699, 0>>), Long(1100, <<0>>)}
              \cup {Late(20, 0), Late(70, 0), Late(300, 7), Late(1100, 0)}
ExpectedDelivered(seq) == SelectSeq([i \in 1..Len(seq) |-> IF \E j \in 1..(i - 1) : seq[j] = seq[i] THEN <<>> ELSE seq[i]],
                                    LAMBDA e : e # <<>>)
GenerateSenders == IF IOEnv.PASS # "senders" THEN TRUE ELSE JsonSerialize(IOEnv.CASES_FILE, SetToSeq(Deliveries))
JudgeSenders == IF IOEnv.PASS # "sendersj" THEN TRUE ELSE
  LET cs == JsonDeserialize(IOEnv.CASES_FILE)
      rs == JsonDeserialize(IOEnv.RESULTS_FILE)     \* [delivered |-> <<<<sender, idx>>...>>, acks |-> <<<<sender, idx>>...>>]
  IN \A i \in DOMAIN cs :
       LET bad == (IF rs[i].delivered = ExpectedDelivered(cs[i]) THEN {} ELSE {"delivery_not_exactly_once_per_sender_and_idx"})
              \cup (IF rs[i].acks = cs[i] THEN {} ELSE {"ack_not_sent_to_the_sender_with_its_idx"})
       IN bad = {} \/ PrintT("B|" \o ToString(i) \o "|" \o ToString(bad))
=============================================================================
