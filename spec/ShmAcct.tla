------------------------------- MODULE ShmAcct -------------------------------
(***************************************************************************)
(* The accounting skeleton of cascade.shm.dataset.Manager (property C08),  *)
(* small enough for an unbounded, inductive argument:                      *)
(*   - Apalache proves IndInv inductive for EVERY capacity and EVERY size  *)
(*     function over a fixed set of keys (spec/MC_ShmAcct.tla);            *)
(*   - TLC checks that spec/Shm.tla (the implementation-shaped model that  *)
(*     is bound to the real Manager by behaviour replay) refines this      *)
(*     module under the mapping of spec/ShmRefine.tla.                     *)
(***************************************************************************)
EXTENDS Integers, FiniteSets, FiniteSetsExt

CONSTANTS
  \* @type: Set(Str);
  Key,
  \* @type: Str -> Int;
  Size,
  \* @type: Int;
  Cap

VARIABLES
  \* @type: Str -> Str;
  ast,      \* "absent" | "resident" (created, in_memory, paging_out, paged_in) | "on_disk"
  \* @type: Int;
  afree,
  \* @type: Set(Str);
  pend      \* page-outs whose bytes left memory but whose space is not credited yet
avars == <<ast, afree, pend>>

\* @type: Set(Str) => Int;
ASum(S) == FoldSet(LAMBDA k, acc : acc + Size[k], 0, S)
AResident == {k \in Key : ast[k] = "resident"}

AInit == ast = [k \in Key |-> "absent"] /\ afree = Cap /\ pend = {}

\* allocate: granted only when the size fits into the free space
AAlloc(k)   == ast[k] = "absent" /\ Size[k] <= afree
               /\ ast' = [ast EXCEPT ![k] = "resident"] /\ afree' = afree - Size[k] /\ UNCHANGED pend
\* the page-out job has written the file and unlinked the segment; the credit comes later, under the lock
APageOut(k) == ast[k] = "resident" /\ k \notin pend
               /\ ast' = [ast EXCEPT ![k] = "on_disk"] /\ pend' = pend \cup {k} /\ UNCHANGED afree
ACredit(k)  == k \in pend /\ pend' = pend \ {k} /\ afree' = afree + Size[k] /\ UNCHANGED ast
\* page-in: space reserved when the job is issued
APageIn(k)  == ast[k] = "on_disk" /\ Size[k] <= afree
               /\ ast' = [ast EXCEPT ![k] = "resident"] /\ afree' = afree - Size[k] /\ UNCHANGED pend
\* purge (immediate, delayed, or by a failed disk job)
ADrop(k)    == ast[k] = "resident"
               /\ ast' = [ast EXCEPT ![k] = "absent"] /\ afree' = afree + Size[k] /\ UNCHANGED pend

ANext == \E k \in Key : AAlloc(k) \/ APageOut(k) \/ ACredit(k) \/ APageIn(k) \/ ADrop(k)
ASpec == AInit /\ [][ANext]_avars

ATypeOK     == ast \in [Key -> {"absent", "resident", "on_disk"}] /\ pend \subseteq Key
AAccounting == afree + ASum(AResident) + ASum(pend) = Cap
ANoOverdraw == ASum(AResident) <= Cap
AFreeSane   == afree >= 0 /\ afree <= Cap
\* the inductive invariant (needs sizes >= 0, which is an assumption on the constants)
IndInv      == ATypeOK /\ AAccounting /\ afree >= 0
=============================================================================
