-------------------------------- MODULE Wire --------------------------------
(***************************************************************************)
(* C17: every wire / file encoding of cascade returns the message that was *)
(* sent, over the whole value domain of each field; a value outside the    *)
(* domain is refused by the encoder or survives exactly - it is never      *)
(* turned into a different message.                                        *)
(* Binding pattern P3: TLC enumerates the messages (the sets below), the   *)
(* harness builds the REAL objects, pushes them through the real encoders  *)
(* and decoders and dumps what comes out; TLC evaluates Post on every      *)
(* (case, result) pair.                                                    *)
(*                                                                         *)
(* A message is a value tree  [t |-> type, v |-> text, k |-> children]:    *)
(*   int (v = decimal text: TLC integers are 32 bit, sizes are not),       *)
(*   str (ASCII text), xstr (v = hex of the UTF-8 bytes of a non-ASCII     *)
(*   string), bytes (v = hex), none, bool, enum (v = qualified member),    *)
(*   list / tuple (ordered children), set, dict (children = pairs),        *)
(*   obj (v = qualified class name, children = fields), field (v = name).  *)
(* Structural equality = same type, same text, same children (ordered for  *)
(* list/tuple/pair/field, unordered for set/dict/obj).                     *)
(*                                                                         *)
(* proto says which real code path carries the message:                    *)
(*   shm            cascade.shm.api.ser / deser                            *)
(*   exec_plain     cascade.executor.serde.ser_message / des_message       *)
(*   exec_callback  comms.callback -> 1 frame -> comms.Listener._recv_one  *)
(*   exec_reliable  comms.ReliableSender.send -> (Syn, message) frames ->  *)
(*                  Listener._recv_one, which must acknowledge the Syn     *)
(*   exec_data      comms.send_data -> (Syn, header, value) frames ->      *)
(*                  Listener._recv_one; exec_data_nosyn: the same frames   *)
(*                  without the Syn (the 2-frame form the decoder accepts) *)
(*   report         cascade.controller.report.serialize / deserialize      *)
(*   exec_xproc, report_xproc   the two pickled protocols with the decoder  *)
(*                  in another interpreter (see XprocCases)                 *)
(*   gateway        client.request_response (request encoder, response     *)
(*                  decoder) against client.parse_request /                *)
(*                  client.serialize_response (msg = request, msg2 =       *)
(*                  response)                                              *)
(*   jobfile        the job instance file written by gateway.router.       *)
(*                  _spawn_local and read by cascade.benchmarks get_job    *)
(***************************************************************************)
EXTENDS Naturals, Sequences, FiniteSets, TLC, Json, IOUtils, SequencesExt

CONSTANTS Rich     \* 0 = quick domain, 1 = thorough (larger cross products)

\* ---------------------------------------------------------------- value trees
V(t, v, k) == [t |-> t, v |-> v, k |-> k]
I(s) == V("int", s, <<>>)
S(s) == V("str", s, <<>>)
X(hex) == V("xstr", hex, <<>>)
B(hex) == V("bytes", hex, <<>>)
None == V("none", "", <<>>)
Bool(b) == V("bool", IF b THEN "True" ELSE "False", <<>>)
En(q) == V("enum", q, <<>>)
L(seq) == V("list", "", seq)
Tup(seq) == V("tuple", "", seq)
SetV(seq) == V("set", "", seq)
Pair(a, b) == V("pair", "", <<a, b>>)
D(seq) == V("dict", "", seq)
F(n, x) == V("field", n, <<x>>)
O(cls, fields) == V("obj", cls, fields)

A == "cascade.shm.api."
M == "cascade.executor.msg."
C == "cascade.low.core."
G == "cascade.gateway.api."
R == "cascade.controller.report."

\* ---------------------------------------------------------------- field domains
\* sizes and free-space figures: 0 .. 2^63-1, sampled at the widths' boundaries
Sizes == {"0", "1", "255", "256", "2147483647", "2147483648", "4294967295", "4294967296", "1099511627776", "9223372036854775807"}
\* not a size: negative, or beyond eight bytes
BadSizes == {"-1", "18446744073709551616"}
X16 == "0123456789abcdef"
X64 == X16 \o X16 \o X16 \o X16
X255 == X64 \o X64 \o X64 \o X16 \o X16 \o X16 \o "0123456789abcde"
Keys == {"", "k", "t1.0", "a b~!/:", X255}             \* ASCII keys, empty and 255 characters included
NonAscii == X("63616672c3a9")                          \* "cafe" with e-acute: not an ASCII key
HexLong == X64 \o X64 \o X64 \o X64 \o X64 \o X64 \o X64 \o X64 \o X64 \o X64     \* 320 bytes
Bytes == {"", "00ff80", HexLong}
Idx == {"0", "1", "2147483648", "9223372036854775807", "36893488147419103232"}   \* pickled: no width at all
Addrs == {S(""), S("tcp://host-1:5555")}
Texts == {S(""), S("x y"), NonAscii}

\* how: the way the harness must arrive at the message object before handing it to the encoder -
\*   "ctor"     every field is passed to the constructor;
\*   "inplace"  every pydantic model in the message is constructed WITHOUT its defaulted fields (JobInstance.serdes /
\*              ext_outputs, TaskDefinition.entrypoint / func / needs_gpu) and these are then brought to their final value on
\*              the live object: lists and dicts filled in place (append / item assignment), scalars assigned.
\* The message handed to the encoder is the same value either way, so Post does not distinguish them.
Case(p, m, ok) == [proto |-> p, msg |-> m, msg2 |-> None, ok |-> ok, how |-> "ctor"]
Case2(p, m, m2, ok) == [proto |-> p, msg |-> m, msg2 |-> m2, ok |-> ok, how |-> "ctor"]
InPlace(c) == [c EXCEPT !.how = "inplace"]

\* ---------------------------------------------------------------- cascade.shm.api
KeyReq(cls, k) == O(A \o cls, <<F("key", k)>>)
GetResponse(shmid, l, rdid, error, df) == O(A \o "GetResponse", <<F("shmid", S(shmid)), F("l", I(l)), F("rdid", S(rdid)), F("error", S(error)), F("deser_fun", S(df))>>)
AllocateRequest(k, l, df) == O(A \o "AllocateRequest", <<F("key", k), F("l", I(l)), F("deser_fun", S(df))>>)
AllocateResponse(shmid, error) == O(A \o "AllocateResponse", <<F("shmid", S(shmid)), F("error", S(error))>>)
CloseCallback(k, rdid) == O(A \o "CloseCallback", <<F("key", k), F("rdid", S(rdid))>>)
OkResponse(e) == O(A \o "OkResponse", <<F("error", S(e))>>)
FreeSpaceResponse(n) == O(A \o "FreeSpaceResponse", <<F("free_space", I(n))>>)
\* <<shmid, rdid, error, deser_fun>>
GetStrs == {<<"", "", "", "">>, <<"shm-1", "rd-1", "", "cloudpickle.loads">>, <<"", "rd-2", "wait", "m.f">>, <<X255, "r", X255, "">>}
ShmMsgs ==
       {[m |-> KeyReq(c, S(k)), ok |-> TRUE] : c \in {"GetRequest", "PurgeRequest", "DatasetStatusRequest"}, k \in Keys}
  \cup {[m |-> KeyReq(c, NonAscii), ok |-> FALSE] : c \in {"GetRequest", "PurgeRequest", "DatasetStatusRequest"}}
  \cup {[m |-> O(A \o "DatasetStatusResponse", <<F("status", En(A \o "DatasetStatus." \o s))>>), ok |-> TRUE] : s \in {"not_ready", "ready", "not_present"}}
  \cup {[m |-> GetResponse(s[1], l, s[2], s[3], s[4]), ok |-> TRUE] : s \in GetStrs, l \in Sizes}
  \cup {[m |-> GetResponse("shm-1", l, "rd-1", "", "f"), ok |-> FALSE] : l \in BadSizes}
  \cup {[m |-> AllocateRequest(S(k), l, df), ok |-> TRUE] : k \in Keys, l \in Sizes, df \in {"", "cloudpickle.loads"}}
  \cup {[m |-> AllocateRequest(S("k"), l, "f"), ok |-> FALSE] : l \in BadSizes}
  \cup {[m |-> AllocateRequest(NonAscii, "1", "f"), ok |-> FALSE]}
  \cup {[m |-> AllocateResponse(a, b), ok |-> TRUE] : a \in {"", "shm-1", X255}, b \in {"", "wait", X255}}
  \cup {[m |-> CloseCallback(S(k), r), ok |-> TRUE] : k \in Keys, r \in {"", "rd-1"}}
  \cup {[m |-> O(A \o c, <<>>), ok |-> TRUE] : c \in {"ShutdownCommand", "StatusInquiry", "FreeSpaceRequest"}}
  \cup {[m |-> OkResponse(e), ok |-> TRUE] : e \in {"", "wait", "conflict", X255}}
  \cup {[m |-> FreeSpaceResponse(n), ok |-> TRUE] : n \in Sizes}
  \cup {[m |-> FreeSpaceResponse(n), ok |-> FALSE] : n \in BadSizes}
\* every text field of every shm message over a ladder of lengths (the other fields at ordinary values).  Up to 512
\* characters the text must arrive; longer texts (a traceback in `error`, say) exceed what the single 1024-byte datagram read
\* of the transport returns, so the encoder may refuse them - but must not shorten or otherwise alter them
X256 == X255 \o "Y"
X512 == X256 \o X255 \o "Z"
X1000 == X512 \o X256 \o X64 \o X64 \o X64 \o "0123456789abcdef0123456789abcdef01234567"
LenIn == {"", "k", X255, X256, X512}
LenBeyond == {X512 \o "W", X1000, X1000 \o X1000 \o X1000 \o X1000}          \* 513, 1000, 4000 characters
TextFieldMsgs(s) ==
  {KeyReq(c, S(s)) : c \in {"GetRequest", "PurgeRequest", "DatasetStatusRequest"}}
  \cup {GetResponse(s, "7", "rd-1", "", "m.f"), GetResponse("shm-1", "7", s, "", "m.f"), GetResponse("shm-1", "7", "rd-1", s, "m.f"),
        GetResponse("shm-1", "7", "rd-1", "", s)}
  \cup {AllocateRequest(S(s), "7", "m.f"), AllocateRequest(S("k"), "7", s)}
  \cup {AllocateResponse(s, ""), AllocateResponse("shm-1", s)}
  \cup {CloseCallback(S(s), "rd-1"), CloseCallback(S("k"), s)}
  \cup {OkResponse(s)}
ShmTextMsgs == {[m |-> x, ok |-> TRUE] : x \in UNION {TextFieldMsgs(s) : s \in LenIn}}
          \cup {[m |-> x, ok |-> FALSE] : x \in UNION {TextFieldMsgs(s) : s \in LenBeyond}}
ShmCases == {Case("shm", x.m, x.ok) : x \in ShmMsgs \cup ShmTextMsgs}

\* ---------------------------------------------------------------- cascade.executor.msg
W(h, w) == O(C \o "WorkerId", <<F("host", S(h)), F("worker", S(w))>>)
Ds(t, o) == O(C \o "DatasetId", <<F("task", S(t)), F("output", S(o))>>)
\* host ids as real deployments have them (short name, FQDN, IP address, several dots, an address-like one) and worker names
\* with digits and dots: the separator of the textual form "host.worker" / "task.output" occurs INSIDE the components, so
\* only field-wise transport is faithful.  Decoded and original are compared field by field (host, worker), never by repr.
Workers == {W("h0", "w0"), W("", ""), W("node-12.cluster", "w10"), W("10.0.0.7", "gpu.0"), W("a.b.c", "w0"), W("h:1", ".")}
Dss == {Ds("t1", "0"), Ds("", ""), Ds("step.1:sum", "out.0")}
Syn(i, a) == O(M \o "Syn", <<F("idx", I(i)), F("addr", a)>>)
Ack(i) == O(M \o "Ack", <<F("idx", I(i))>>)
WorkerRec(w, c, g, mem) == O(M \o "Worker", <<F("worker_id", w), F("cpu", I(c)), F("gpu", I(g)), F("memory_mb", I(mem))>>)
Syns == {Syn(i, a) : i \in Idx, a \in Addrs}
OtherMsgs ==
       {Ack(i) : i \in Idx}
  \cup {O(M \o "TaskSequence", <<F("worker", w), F("tasks", L(ts)), F("publish", SetV(pub))>>)
          : w \in Workers, ts \in {<<>>, <<S("t1"), S("t2")>>}, pub \in {<<>>, <<Ds("t1", "0"), Ds("t1", "1")>>}}
  \cup {O(M \o "TaskFailure", <<F("worker", w), F("task", t), F("detail", d)>>) : w \in Workers, t \in {None, S("t1"), S("")}, d \in Texts}
  \cup {O(M \o "DatasetPublished", <<F("origin", o), F("ds", ds), F("transmit_idx", ti)>>)
          : o \in Workers \cup {S("h0")}, ds \in Dss, ti \in {None} \cup {I(i) : i \in Idx}}
  \cup {O(M \o "DatasetPurge", <<F("ds", ds)>>) : ds \in Dss}
  \cup {O(M \o "DatasetTransmitCommand", <<F("source", S(h[1])), F("target", S(h[2])), F("daddress", a), F("ds", ds), F("idx", I(i))>>)
          : h \in {<<"h0", "h1">>, <<"", "">>}, a \in Addrs, ds \in Dss, i \in Idx}
  \cup {O(M \o c, <<F("host", S(h)), F("detail", d)>>) : c \in {"DatasetTransmitFailure", "ExecutorFailure"}, h \in {"h0", ""}, d \in Texts}
  \cup {O(M \o "ExecutorExit", <<F("host", S(h))>>) : h \in {"h0", ""}}
  \cup {O(M \o "ExecutorRegistration", <<F("host", S(h)), F("maddress", a), F("daddress", a), F("workers", L(ws))>>)
          : h \in {"h0", "node-12.cluster"}, a \in Addrs, ws \in {<<>>, <<WorkerRec(W("h0", "w0"), "1", "0", "1024"), WorkerRec(W("h0", "w1"), "64", "8", "4294967296")>>,
                            <<WorkerRec(W("node-12.cluster", "gpu.0"), "1", "1", "1"), WorkerRec(W("10.0.0.7", "w10"), "2", "0", "2")>>}}
  \cup {O(M \o "ExecutorShutdown", <<>>), O(M \o "WorkerShutdown", <<>>)}
  \cup {O(M \o "WorkerReady", <<F("worker", w)>>) : w \in Workers}
Header(a, i, ds, df) == O(M \o "DatasetTransmitPayloadHeader", <<F("confirm_address", a), F("confirm_idx", I(i)), F("ds", ds), F("deser_fun", S(df))>>)
Payloads == {O(M \o "DatasetTransmitPayload", <<F("header", Header(a, i, Ds("t1", "0"), df)), F("value", B(b))>>)
               : a \in Addrs, i \in Idx, df \in {"cloudpickle.loads", ""}, b \in Bytes}
\* the Syn a reliable sender / the data server puts in front (idx is the sender's counter, addr where the Ack must go)
FrontSyns == {Syn(i, S("tcp://sender:1")) : i \in {"0", "7", "2147483648"}}
ExecCases ==
       {Case("exec_plain", m, TRUE) : m \in Syns \cup OtherMsgs \cup Payloads}
  \cup {Case("exec_callback", m, TRUE) : m \in OtherMsgs \cup Payloads}
  \cup {Case2("exec_reliable", m, s, TRUE) : m \in OtherMsgs, s \in (IF Rich = 1 THEN FrontSyns ELSE {Syn("7", S("tcp://sender:1"))})}
  \cup {Case2("exec_data", m, s, TRUE) : m \in Payloads, s \in FrontSyns}
  \cup {Case2("exec_data_nosyn", m, Syn("0", S("tcp://sender:1")), TRUE) : m \in Payloads}

\* ---------------------------------------------------------------- cascade.controller.report
Report(j, st, ts, res) == O(R \o "ControllerReport", <<F("job_id", S(j)), F("current_status", st), F("timestamp", I(ts)), F("results", L(res))>>)
ReportCases == {Case("report", Report(j, st, ts, res), TRUE)
                  : j \in {"", "job-1"}, st \in {None, S("0.00"), S("Shutdown")}, ts \in Idx,
                    res \in {<<>>, <<Tup(<<Ds("t1", "0"), B("")>>), Tup(<<Ds("t1", "1"), B("00ff80")>>)>>, <<Tup(<<Ds("t2", "0"), B(HexLong)>>)>>}}

\* ---------------------------------------------------------------- job instances (JSON) and the gateway API
TaskDef(ep, func, env, ins, outs, gpu) == O(C \o "TaskDefinition", <<F("entrypoint", S(ep)), F("func", func), F("environment", L(env)),
                                              F("input_schema", D(ins)), F("output_schema", D(outs)), F("needs_gpu", Bool(gpu))>>)
TaskInst(def, kw, ps) == O(C \o "TaskInstance", <<F("definition", def), F("static_input_kw", D(kw)), F("static_input_ps", D(ps))>>)
Edge(src, sink, kw, ps) == O(C \o "Task2TaskEdge", <<F("source", src), F("sink_task", S(sink)), F("sink_input_kw", kw), F("sink_input_ps", ps)>>)
Job(tasks, edges, serdes, ext) == O(C \o "JobInstance", <<F("tasks", D(tasks)), F("edges", L(edges)), F("serdes", D(serdes)), F("ext_outputs", L(ext))>>)
SP(a, b) == Pair(S(a), S(b))
\* producer with two outputs; consumer fed through a keyword and a positional edge; static inputs of several JSON types
Producer == TaskInst(TaskDef("pkg.mod.produce", None, <<S("numpy"), S("pkg==1.0")>>, <<>>, <<SP("0", "int"), SP("1", "str")>>, FALSE), <<>>, <<>>)
Consumer == TaskInst(TaskDef("", S("Z2FyYmFnZQ=="), <<>>, <<SP("a", "int"), SP("b", "Any")>>, <<SP("0", "Any")>>, TRUE),
                     <<Pair(S("b"), L(<<I("1"), S("x"), L(<<>>), None, Bool(TRUE)>>)), Pair(S("c"), D(<<Pair(S("k"), I("4294967296"))>>))>>,
                     <<Pair(S("0"), S("")), Pair(S("1"), I("-5"))>>)
Jobs == {Job(<<>>, <<>>, <<>>, <<>>),
         Job(<<Pair(S("only"), Producer)>>, <<>>, <<>>, <<Ds("only", "0"), Ds("only", "1")>>),
         Job(<<Pair(S("t1"), Producer), Pair(S("t2"), Consumer)>>,
             <<Edge(Ds("t1", "0"), "t2", S("a"), None), Edge(Ds("t1", "1"), "t2", None, I("0")), Edge(Ds("t1", "1"), "t2", None, I("2"))>>,
             <<Pair(S("numpy.ndarray"), Tup(<<S("m.ser"), S("m.des")>>))>>, <<Ds("t2", "0")>>)}
JobFileCases == {Case("jobfile", j, TRUE) : j \in Jobs}

JobSpec(bn, env, ji, wph, hosts, slurm) == O(G \o "JobSpec", <<F("benchmark_name", bn), F("envvars", D(env)), F("job_instance", ji),
                                               F("workers_per_host", I(wph)), F("hosts", I(hosts)), F("use_slurm", Bool(slurm))>>)
OptTexts == {None, S(""), S("boom"), NonAscii}
JobSubmitReqs == {O(G \o "SubmitJobRequest", <<F("job", JobSpec(None, <<>>, j, "2147483648", "9223372036854775807", TRUE))>>) : j \in Jobs}
SubmitReqs == {O(G \o "SubmitJobRequest", <<F("job", JobSpec(S("generators"), <<SP("GENERATORS_N", "8"), SP("EMPTY", "")>>, None, "1", "2", FALSE))>>),
               O(G \o "SubmitJobRequest", <<F("job", JobSpec(S(""), <<>>, None, "0", "0", TRUE))>>)}
          \cup JobSubmitReqs
SubmitResps == {O(G \o "SubmitJobResponse", <<F("job_id", j), F("error", e)>>) : j \in {None, S("job-1"), S("")}, e \in OptTexts}
ProgressReqs == {O(G \o "JobProgressRequest", <<F("job_ids", L(ids))>>) : ids \in {<<>>, <<S("job-1"), S("")>>}}
ProgressResps == {O(G \o "JobProgressResponse", <<F("progresses", D(p)), F("error", e)>>)
                    : p \in {<<>>, <<SP("job-1", "0.00"), SP("job-2", "Shutdown"), SP("", "99.99")>>}, e \in OptTexts}
ResultReqs == {O(G \o "ResultRetrievalRequest", <<F("job_id", S(j)), F("dataset_id", ds)>>) : j \in {"", "job-1"}, ds \in Dss}
ResultResps == {O(G \o "ResultRetrievalResponse", <<F("result", r), F("error", e)>>) : r \in {None, S(""), S("gASVBQAAAAAAAABLKi4=")}, e \in OptTexts}
ShutdownReqs == {O(G \o "ShutdownRequest", <<>>)}
ShutdownResps == {O(G \o "ShutdownResponse", <<F("error", e)>>) : e \in OptTexts}
GatewayCases == {Case2("gateway", q, p, TRUE) : q \in SubmitReqs, p \in SubmitResps}
           \cup {Case2("gateway", q, p, TRUE) : q \in ProgressReqs, p \in ProgressResps}
           \cup {Case2("gateway", q, p, TRUE) : q \in ResultReqs, p \in ResultResps}
           \cup {Case2("gateway", q, p, TRUE) : q \in ShutdownReqs, p \in ShutdownResps}

\* every message that contains pydantic models with defaulted fields, once more built in place: the job file and the
\* gateway requests that embed a job instance
InPlaceCases == {InPlace(c) : c \in JobFileCases} \cup {InPlace(Case2("gateway", q, p, TRUE)) : q \in JobSubmitReqs, p \in SubmitResps}
\* CROSS-PROCESS leg of the pickled protocols (proto exec_xproc / report_xproc): the message is encoded in the harness process
\* - after its ids have been hashed, as happens as soon as the library puts them into a set or dict - and decoded by the real
\* decoder in a separately started interpreter with another string-hash seed, which is what a receiving host is.  There the
\* decoded message must be interchangeable with a locally built message of the same description: equal to it, hashing like it,
\* and found in / finding the sets and dicts built from the other one.
XprocCases == {Case("exec_xproc", m, TRUE) : m \in Syns \cup OtherMsgs \cup Payloads} \cup {Case("report_xproc", c.msg, TRUE) : c \in ReportCases}
Cases == ShmCases \cup ExecCases \cup ReportCases \cup JobFileCases \cup GatewayCases \cup InPlaceCases \cup XprocCases

\* ---------------------------------------------------------------- post-condition
Unordered == {"set", "dict", "obj"}
RECURSIVE Canon(_)
Canon(x) == [t |-> x.t, v |-> x.v,
             k |-> {<<(IF x.t \in Unordered THEN 0 ELSE i), Canon(x.k[i])>> : i \in DOMAIN x.k}]
Same(a, b) == Canon(a) = Canon(b)
FieldOf(o, n) == (CHOOSE f \in {o.k[i] : i \in DOMAIN o.k} : f.v = n).k[1]

\* what must come out at the second observation point
Want2(c) == IF c.proto \in {"exec_reliable", "exec_data"} THEN Ack(FieldOf(c.msg2, "idx").v)     \* the Syn is acknowledged
            ELSE c.msg2                                                                         \* gateway: the response; else nothing
Frames(c) == IF c.proto = "exec_callback" THEN 1 ELSE IF c.proto \in {"exec_reliable", "exec_data_nosyn"} THEN 2
             ELSE IF c.proto = "exec_data" THEN 3 ELSE 0

\* (xeq, xhash, xfound: what the receiving interpreter observed - decoded == local and local == decoded; equal hashes of
\*  every hashable part; every part found in a set/dict made of its counterpart and every element/key of a local set/dict
\*  found in the decoded one and vice versa)
\* r = [built |-> "ok"|"raised", sent, sent2 : trees of the objects the harness built,
\*      enc |-> "ok"|"raised", dec |-> "ok"|"raised"|"skipped", back, back2 : trees of what came out, frames |-> n, error |-> text]
Post(c, r) ==
  IF r.built # "ok" THEN (IF c.ok THEN {"harness_could_not_build"} ELSE {})      \* an out-of-domain value may already be refused by the class
  ELSE (IF Same(r.sent, c.msg) /\ Same(r.sent2, c.msg2) THEN {} ELSE {"harness_built_other_message"})
  \cup (IF c.ok
        THEN (IF r.enc = "raised" THEN {"in_domain_message_rejected"} ELSE {})
        \cup (IF r.enc = "ok" /\ r.dec = "raised" THEN {"decoding_raised"} ELSE {})
        \cup (IF r.enc = "ok" /\ r.dec = "ok" /\ ~Same(r.back, c.msg) THEN {"decoded_message_differs"} ELSE {})
        \cup (IF r.enc = "ok" /\ r.dec = "ok" /\ ~Same(r.back2, Want2(c))
              THEN {IF c.proto = "gateway" THEN "decoded_response_differs" ELSE "acknowledgement_differs"} ELSE {})
        \cup (IF r.enc = "ok" /\ r.dec = "ok" /\ r.frames # Frames(c) THEN {"wrong_frame_count"} ELSE {})
        \* observations of the receiving interpreter (TRUE for the same-process protocols, which do not make them)
        \cup (IF r.enc = "ok" /\ r.dec = "ok" /\ ~r.xeq THEN {"decoded_not_equal_to_local_message"} ELSE {})
        \cup (IF r.enc = "ok" /\ r.dec = "ok" /\ ~r.xhash THEN {"decoded_hashes_differently"} ELSE {})
        \cup (IF r.enc = "ok" /\ r.dec = "ok" /\ ~r.xfound THEN {"decoded_not_found_in_local_containers"} ELSE {})
        ELSE \* outside the domain: refused when encoding, or exact - never a different message
             (IF r.enc = "ok" /\ (r.dec # "ok" \/ ~Same(r.back, c.msg)) THEN {"out_of_domain_value_altered"} ELSE {}))

\* ---------------------------------------------------------------- the two TLC passes
\* TLC evaluates every constant-level definition when it loads the module, also the one a pass does not use: the judge
\* pass therefore gets CASES_FILE = "none" (Generate does nothing) and reads the cases from JUDGE_CASES
Generate == IF IOEnv.CASES_FILE = "none" THEN TRUE ELSE
            LET s == SetToSeq(Cases) IN JsonSerialize(IOEnv.CASES_FILE, s)
Judge ==
  LET cs == JsonDeserialize(IOEnv.JUDGE_CASES)
      rs == JsonDeserialize(IOEnv.RESULTS_FILE)
  IN \A i \in DOMAIN cs :
       LET bad == Post(cs[i], rs[i])
       IN bad = {} \/ PrintT("B|" \o ToString(i) \o "|" \o ToString(bad))
=============================================================================
