----------------------------- MODULE GraphSerde -----------------------------
(***************************************************************************)
(* C12: de-serialising a serialised graph gives back an equal graph        *)
(* (earthkit.workflows.graph.export serialise/deserialise, to_json/        *)
(* from_json, and the dill file written by earthkit.workflows.Cascade).    *)
(* Binding pattern P3: TLC enumerates the graphs (Cases), the harness      *)
(* builds each one from real Node objects, runs the three real round trips *)
(* and dumps what came back; TLC evaluates Post on every (case, result).   *)
(*                                                                         *)
(* A "plain" case is a DAG with unique node names (n1..nN, or names that   *)
(* coincide with output names, input names and keys).  Node j has an       *)
(* output list taken from OutKinds (no output at all, the default output   *)
(* "0", named outputs, two outputs, default+named), for each input name    *)
(* in INames either nothing or one output of an earlier node, and a        *)
(* payload out of Payloads.  The graph handed to the library is            *)
(* Graph(sinks) with sinks = the nodes nobody consumes - they may or may   *)
(* not declare outputs (that is the point of the property).                *)
(* A "fluent" case is a small fluent program (from_source over n sources,  *)
(* optionally multi-output sources, followed by map / reduce / add steps): *)
(* its terminal nodes always declare outputs.                              *)
(***************************************************************************)
EXTENDS Naturals, Sequences, FiniteSets, TLC, Json, IOUtils, SequencesExt

CONSTANTS MaxN,        \* plain graphs have 0..MaxN nodes
          MaxPayN,     \* graphs with up to MaxPayN nodes are repeated for every payload rotation
          MaxRichN,    \* graphs with up to MaxRichN nodes draw from all five output lists, larger ones from three
          MaxOps       \* fluent programs have 0..MaxOps steps after from_source

\* node naming schemes: 0 = names of their own (n1, n2, n3); 1.. = names taken from the OTHER name spaces of a serialised
\* graph - output names ("0", "a", "b", rotated, so that each node, terminal ones included, is once named like an
\* output some node may consume), input names and the keys of a serialised node
Schemes == IF MaxRichN >= 3 THEN << <<"a", "b", "0">>, <<"0", "a", "b">>, <<"b", "0", "a">>, <<"y", "inputs", "x">> >>
           ELSE << <<"a", "b", "0">>, <<"0", "a", "b">>, <<"y", "inputs", "x">> >>
\* the last scheme (input names / keys) is applied to graphs of up to MaxRichN nodes only
SchemesFor(n) == IF n <= MaxRichN THEN DOMAIN Schemes ELSE (DOMAIN Schemes) \ {Len(Schemes)}
Name(sch, i) == IF sch = 0 THEN "n" \o ToString(i) ELSE Schemes[sch][i]
INames == {"x", "y"}

\* ---------------------------------------------------------------- domain
\* twelve numbered outputs in their natural order 0, 1, 2, ..., 11 - which is NOT the lexicographic order of their names
Twelve == <<"0", "1", "2", "3", "4", "5", "6", "7", "8", "9", "10", "11">>
OutKinds(n) == (IF n <= MaxRichN THEN {<<>>, <<"0">>, <<"a">>, <<"a", "b">>, <<"0", "a">>} ELSE {<<>>, <<"0">>, <<"a", "b">>})
               \cup (IF n <= 2 THEN {Twelve} ELSE {})
\* the ORDER of a node's outputs is part of the node (the values of a multi-output task are bound to them in that order):
\* every graph with a multi-output node is generated a second time with all its output lists reversed (rev), so that each
\* two-output list occurs in both orders and the numbered list also counting down
HasMulti(outs) == \E j \in DOMAIN outs : Len(outs[j]) >= 2
Reversed(q) == [i \in 1..Len(q) |-> q[Len(q) + 1 - i]]

\* py: a Python literal in repr-normal form (the harness evaluates it to build the payload and reports repr(payload) of
\* what comes back, so the expected report IS py); json: JSON represents the value faithfully
Payloads == <<
  [py |-> "None", json |-> TRUE],
  [py |-> "0", json |-> TRUE],
  [py |-> "7", json |-> TRUE],
  [py |-> "1099511627776", json |-> TRUE],
  [py |-> "''", json |-> TRUE],
  [py |-> "'p'", json |-> TRUE],
  [py |-> "True", json |-> TRUE],
  [py |-> "1.5", json |-> TRUE],
  [py |-> "[]", json |-> TRUE],
  [py |-> "[1, 'a', [2, []]]", json |-> TRUE],
  [py |-> "{}", json |-> TRUE],
  [py |-> "{'k': 1, 'j': {'i': [2]}}", json |-> TRUE],
  [py |-> "(1, 2)", json |-> FALSE],
  [py |-> "{1: 'a'}", json |-> FALSE]
>>
NP == Len(Payloads)
PayloadOf(off, i) == Payloads[((off + i - 1) % NP) + 1]

NoSrc == <<0, "">>
Srcs(outs, j) == {<<i, outs[i][k]>> : <<i, k>> \in {p \in (1..(j - 1)) \X (1..2) : p[2] <= Len(outs[p[1]])}}
RECURSIVE InsUpTo(_, _)
InsUpTo(outs, j) == IF j = 0 THEN {<<>>}
                    ELSE {Append(s, f) : s \in InsUpTo(outs, j - 1), f \in [INames -> Srcs(outs, j) \cup {NoSrc}]}
Offsets(n) == IF n = 0 THEN {0} ELSE IF n <= MaxPayN THEN 0..(NP - 1) ELSE IF n <= MaxRichN THEN {0, 5} ELSE {0}
\* <<naming scheme, payload rotation, sink list>>: payload rotations under scheme 0, every other scheme with rotation 0.
\* Sink list handed to Graph(...): "terminals" = exactly the nodes nobody consumes; "all" = every node, i.e. the list also
\* names consumed nodes (as hand-built graphs and unions of graphs do) - same graph, other representation; only generated
\* when the graph has an edge (otherwise the two lists coincide)
HasEdge(ins) == \E j \in DOMAIN ins : \E x \in INames : ins[j][x] # NoSrc
Variants(n, ins, outs) == {<<0, off, "terminals", FALSE>> : off \in Offsets(n)}
               \cup (IF n = 0 THEN {} ELSE {<<sch, 0, "terminals", FALSE>> : sch \in SchemesFor(n)})
               \* (the two representation variants for graphs of up to MaxRichN nodes)
               \cup (IF n <= MaxRichN /\ HasEdge(ins) THEN {<<0, 0, "all", FALSE>>} ELSE {})
               \cup (IF n <= MaxRichN /\ HasMulti(outs) THEN {<<0, 0, "terminals", TRUE>>} ELSE {})
PlainOf(n) == UNION {UNION {{[kind |-> "plain", n |-> n, outs |-> outs, ins |-> ins, off |-> v[2], sch |-> v[1], sinks |-> v[3], rev |-> v[4]]
                               : v \in Variants(n, ins, outs)} : ins \in InsUpTo(outs, n)} : outs \in [1..n -> OutKinds(n)]}
Plain == UNION {PlainOf(n) : n \in 0..MaxN}

RECURSIVE SeqsUpTo(_, _)
SeqsUpTo(S, k) == IF k = 0 THEN {<<>>} ELSE SeqsUpTo(S, k - 1) \cup {Append(s, x) : s \in SeqsUpTo(S, k - 1), x \in S}
FluentOps == {"map", "reduce", "add_self", "scale"}
\* union: the graph is Cascade.from_actions([sources, final action]) - the union of an action with one of its ancestors,
\* whose sink list therefore also names consumed nodes
FluentAll == {[kind |-> "fluent", n |-> n, yields |-> y, ops |-> ops, union |-> u] : u \in BOOLEAN, n \in 1..3, y \in {0, 2},
             ops \in {o \in SeqsUpTo(FluentOps, MaxOps) : Cardinality({i \in DOMAIN o : o[i] = "reduce"}) <= 1}}   \* "reduce" consumes the only dimension

Fluent == {c \in FluentAll : c.union => c.ops # <<>>}
\* the domain is Plain followed by Fluent (two record shapes, kept apart)

NodeJson(c, j) == [name |-> Name(c.sch, j), outs |-> IF c.rev THEN Reversed(c.outs[j]) ELSE c.outs[j],
                   inputs |-> SetToSeq({<<x, Name(c.sch, c.ins[j][x][1]), c.ins[j][x][2]>> : x \in {y \in INames : c.ins[j][y] # NoSrc}}),
                   payload |-> PayloadOf(c.off, j).py, jsonok |-> PayloadOf(c.off, j).json]
CaseJson(c) == IF c.kind = "plain" THEN [kind |-> "plain", sinks |-> c.sinks, nodes |-> [j \in 1..c.n |-> NodeJson(c, j)]]
               ELSE [kind |-> "fluent", n |-> c.n, yields |-> c.yields, ops |-> c.ops, union |-> c.union]

\* ---------------------------------------------------------------- post-condition
SetOf(s) == {s[i] : i \in DOMAIN s}
\* a dumped node -> a comparable value; inputs become a set of <<input name, parent name, output name>>
Norm(d) == [name |-> d.name, outputs |-> d.outputs, inputs |-> {<<t[1], t[2], t[3]>> : t \in SetOf(d.inputs)}, payload |-> d.payload]
\* what the case describes (plain cases): the reference semantics of a round trip is the identity
Described(cj) == {[name |-> nd.name, outputs |-> nd.outs, inputs |-> {<<t[1], t[2], t[3]>> : t \in SetOf(nd.inputs)},
                   payload |-> nd.payload] : nd \in SetOf(cj.nodes)}

\* one round trip `v` (a record [nodes, eq] or [error]) against the expected set of nodes; `tag` prefixes the clause names
Trip(tag, want, v) ==
  IF "error" \in DOMAIN v THEN {tag \o "_raised"}
  ELSE LET got == {Norm(d) : d \in SetOf(v.nodes)}
           names(S) == {d.name : d \in S}
           both == names(want) \cap names(got)
           w(nm) == CHOOSE d \in want : d.name = nm
           g(nm) == CHOOSE d \in got : d.name = nm
       IN (IF names(want) \subseteq names(got) THEN {} ELSE {tag \o "_nodes_lost"})
     \cup (IF names(got) \subseteq names(want) THEN {} ELSE {tag \o "_nodes_invented"})
     \cup (IF Len(v.nodes) = Cardinality(names(got)) THEN {} ELSE {tag \o "_node_listed_twice"})
     \cup (IF \A nm \in both : w(nm).outputs = g(nm).outputs THEN {} ELSE {tag \o "_outputs_differ"})
     \cup (IF \A nm \in both : w(nm).inputs = g(nm).inputs THEN {} ELSE {tag \o "_inputs_differ"})
     \cup (IF \A nm \in both : w(nm).payload = g(nm).payload THEN {} ELSE {tag \o "_payload_differs"})
     \cup (IF v.eq = (got = want /\ Len(v.nodes) = Cardinality(names(got))) THEN {} ELSE {tag \o "_library_eq_disagrees"})

\* res = [orig |-> <<node dumps>>, dict |-> trip, json |-> trip, file |-> trip]
Post(cj, res) ==
  LET orig == {Norm(d) : d \in SetOf(res.orig)}
      want == IF cj.kind = "plain" THEN Described(cj) ELSE orig
      jsonok == cj.kind = "plain" /\ \A nd \in SetOf(cj.nodes) : nd.jsonok
  IN (IF cj.kind = "plain" /\ orig # want THEN {"graph_built_is_not_the_case"} ELSE {})
\cup (IF cj.kind = "fluent" /\ Cardinality(orig) < (IF cj.union THEN 1 ELSE cj.n) THEN {"fluent_graph_too_small"} ELSE {})   \* a union merges equal sources
\cup Trip("dict", want, res.dict)
\cup Trip("file", want, res.file)
\cup (IF jsonok THEN Trip("json", want, res.json) ELSE {})

\* ---------------------------------------------------------------- the two TLC passes
\* TLC evaluates every constant-level definition when it loads the module, also the one a pass does not use: the judge
\* pass therefore gets CASES_FILE = "none" (Generate does nothing) and reads the cases from JUDGE_CASES
Generate == IF IOEnv.CASES_FILE = "none" THEN TRUE ELSE
            LET s == SetToSeq(Plain) \o SetToSeq(Fluent)
              IN JsonSerialize(IOEnv.CASES_FILE, [i \in 1..Len(s) |-> CaseJson(s[i])])
Judge ==
  LET cs == JsonDeserialize(IOEnv.JUDGE_CASES)
      rs == JsonDeserialize(IOEnv.RESULTS_FILE)
  IN \A i \in DOMAIN cs :
       LET bad == IF "error" \in DOMAIN rs[i] THEN {"harness_could_not_build"} ELSE Post(cs[i], rs[i])
       IN bad = {} \/ PrintT("B|" \o ToString(i) \o "|" \o ToString(bad))
=============================================================================
