------------------------------- MODULE Session -------------------------------
(***************************************************************************)
(* Life cycle of a run around the controller loop: executor registration   *)
(* (Bridge.__init__: executors announce themselves, possibly repeatedly    *)
(* because a heartbeat re-sends the registration) and shutdown             *)
(* (Bridge.shutdown: ExecutorShutdown to every host, wait for ExecutorExit).*)
(* All messages travel through the acknowledged layer of Acked.tla; here   *)
(* only what the two loops do with them is modelled.  Constant             *)
(* ShutdownRetries says whether the shutdown loop drives re-sends.         *)
(***************************************************************************)
EXTENDS Naturals, FiniteSets, Sequences, TLC

CONSTANTS Host, Faults, MaxReg, ShutdownRetries

VARIABLES phase,     \* "registering" | "running" | "shutting" | "ended"
          known,     \* hosts in sender.hosts (registered, not yet exited)
          env,       \* sequence of hosts whose workers were added to the environment (must have no duplicates)
          exec,      \* [Host -> "up" | "gone"]
          regs,      \* [Host -> Nat] registrations sent so far
          unacked,   \* [Host -> "none" | "fresh" | "stale"] the ExecutorShutdown record of the controller's ReliableSender
          net,       \* bag of frames: <<"reg", h>>, <<"shut", h>>, <<"exit", h>>, <<"ack", h>> (ack of the shutdown, to the controller)
          gaveUp, faults, last
vars == <<phase, known, env, exec, regs, unacked, net, gaveUp, faults, last>>
view == <<phase, known, env, exec, regs, unacked, net, gaveUp, faults>>

Count(b, f) == IF f \in DOMAIN b THEN b[f] ELSE 0
Put(b, f)   == [g \in DOMAIN b \cup {f} |-> Count(b, g) + (IF g = f THEN 1 ELSE 0)]
Take(b, f)  == [g \in {h \in DOMAIN b : h # f \/ b[h] > 1} |-> IF g = f THEN b[g] - 1 ELSE b[g]]
RECURSIVE PutAll(_, _)
PutAll(b, S) == IF S = {} THEN b ELSE LET f == CHOOSE g \in S : TRUE IN PutAll(Put(b, f), S \ {f})

Init == /\ phase = "registering" /\ known = {} /\ env = <<>> /\ exec = [h \in Host |-> "up"]
        /\ regs = [h \in Host |-> 0] /\ unacked = [h \in Host |-> "none"]
        /\ net = [f \in {} |-> 0] /\ gaveUp = FALSE /\ faults = 0 /\ last = <<"Init">>

\* Executor.register / heartbeat: the registration message (each time a new message of the acknowledged layer)
Register(h) == /\ exec[h] = "up" /\ regs[h] < MaxReg /\ phase \in {"registering", "running"}
               /\ regs' = [regs EXCEPT ![h] = @ + 1] /\ net' = Put(net, <<"reg", h>>)
               /\ last' = <<"Register", h>>
               /\ UNCHANGED <<phase, known, env, exec, unacked, gaveUp, faults>>

\* one iteration of the registration loop of Bridge.__init__ on a registration frame
CtrlRegister(h) ==
  /\ phase = "registering" /\ Count(net, <<"reg", h>>) > 0
  /\ net' = Take(net, <<"reg", h>>)
  /\ IF h \in known THEN UNCHANGED <<known, env, phase>>      \* "double registration ... suggesting network congestion"
     ELSE /\ known' = known \cup {h} /\ env' = Append(env, h)
          /\ phase' = IF known \cup {h} = Host THEN "running" ELSE phase
  /\ last' = <<"CtrlRegister", h>>
  /\ UNCHANGED <<exec, regs, unacked, gaveUp, faults>>

\* a late registration (heartbeat) seen by the controller loop while running is ignored
CtrlIgnoreReg(h) == /\ phase = "running" /\ Count(net, <<"reg", h>>) > 0 /\ net' = Take(net, <<"reg", h>>)
                    /\ last' = <<"CtrlIgnoreReg", h>>
                    /\ UNCHANGED <<phase, known, env, exec, regs, unacked, gaveUp, faults>>

\* Bridge.shutdown: ExecutorShutdown to every known host
StartShutdown == /\ phase = "running" /\ phase' = IF known = {} THEN "ended" ELSE "shutting"
                 /\ net' = PutAll(net, {<<"shut", h>> : h \in known})
                 /\ unacked' = [h \in Host |-> IF h \in known THEN "fresh" ELSE "none"]
                 /\ last' = <<"StartShutdown">>
                 /\ UNCHANGED <<known, env, exec, regs, gaveUp, faults>>

\* Executor.recv_loop on ExecutorShutdown: ack, answer ExecutorExit, terminate (a duplicate finds nobody listening)
ExecShutdown(h) == /\ Count(net, <<"shut", h>>) > 0 /\ exec[h] = "up"
                   /\ net' = Put(Put(Take(net, <<"shut", h>>), <<"ack", h>>), <<"exit", h>>)
                   /\ exec' = [exec EXCEPT ![h] = "gone"]
                   /\ last' = <<"ExecShutdown", h>>
                   /\ UNCHANGED <<phase, known, env, regs, unacked, gaveUp, faults>>

\* one iteration of the shutdown loop: a frame (exit / ack / late registration) or none; then re-sends if the loop drives them
Resend(kn, un) == IF ShutdownRetries THEN {h \in kn : un[h] = "stale"} ELSE {}
CtrlShutIter(f) ==
  /\ phase = "shutting"
  /\ f = <<"none">> \/ (Count(net, f) > 0 /\ f[1] \in {"exit", "ack", "reg"})
  /\ LET net1 == IF f = <<"none">> THEN net ELSE Take(net, f)
         kn == IF f[1] = "exit" THEN known \ {f[2]} ELSE known
         un == IF f[1] = "exit" THEN [unacked EXCEPT ![f[2]] = "none"] ELSE unacked    \* (acks are ignored by this loop)
         rs == Resend(kn, un)
     IN /\ known' = kn
        /\ net' = PutAll(net1, {<<"shut", h>> : h \in rs})
        /\ unacked' = [h \in Host |-> IF h \in rs THEN "fresh" ELSE un[h]]
        /\ phase' = IF kn = {} THEN "ended" ELSE phase
  /\ last' = <<"CtrlShutIter", f>>
  /\ UNCHANGED <<env, exec, regs, gaveUp, faults>>

Tick == /\ \E h \in Host : unacked[h] = "fresh"
        /\ unacked' = [h \in Host |-> IF unacked[h] = "fresh" THEN "stale" ELSE unacked[h]]
        /\ last' = <<"Tick">> /\ UNCHANGED <<phase, known, env, exec, regs, net, gaveUp, faults>>
\* the 3 minute grace of the shutdown loop runs out
GiveUp == /\ phase = "shutting" /\ phase' = "ended" /\ gaveUp' = TRUE /\ last' = <<"GiveUp">>
          \* the last iteration still re-sends what is unconfirmed by then (everything is stale after 3 minutes)
          /\ net' = IF ShutdownRetries THEN PutAll(net, {<<"shut", h>> : h \in {k \in known : unacked[k] # "none"}}) ELSE net
          /\ UNCHANGED <<known, env, exec, regs, unacked, faults>>
Drop(f) == /\ faults < Faults /\ Count(net, f) > 0 /\ net' = Take(net, f) /\ faults' = faults + 1 /\ last' = <<"Drop", f>>
           /\ UNCHANGED <<phase, known, env, exec, regs, unacked, gaveUp>>
Dup(f)  == /\ faults < Faults /\ Count(net, f) > 0 /\ net' = Put(net, f) /\ faults' = faults + 1 /\ last' = <<"Dup", f>>
           /\ UNCHANGED <<phase, known, env, exec, regs, unacked, gaveUp>>

Frames == {<<"none">>} \cup {<<k, h>> : k \in {"reg", "shut", "exit", "ack"}, h \in Host}
Next == \/ \E h \in Host : Register(h) \/ CtrlRegister(h) \/ CtrlIgnoreReg(h) \/ ExecShutdown(h)
        \/ StartShutdown \/ Tick \/ GiveUp
        \/ \E f \in Frames : CtrlShutIter(f)
        \/ \E f \in Frames : Drop(f) \/ Dup(f)
Spec == Init /\ [][Next]_vars
\* for liveness the 3 minute give-up timer is left out: it is two orders of magnitude longer than the resend period, so a
\* design that relies on it to end the run has effectively hung
NextLive == \/ \E h \in Host : Register(h) \/ CtrlRegister(h) \/ CtrlIgnoreReg(h) \/ ExecShutdown(h)
            \/ StartShutdown \/ Tick
            \/ \E f \in Frames : CtrlShutIter(f)
            \/ \E f \in Frames : Drop(f) \/ Dup(f)
\* fairness: everything except faults and the give-up timer
FairSpec == Init /\ [][NextLive]_vars /\ WF_vars(StartShutdown) /\ WF_vars(Tick)
                 /\ \A h \in Host : WF_vars(Register(h)) /\ WF_vars(CtrlRegister(h)) /\ WF_vars(ExecShutdown(h))
                 /\ \A f \in Frames : WF_vars(CtrlShutIter(f))

\* every host's workers enter the environment exactly once, however often it registers
EnvExact == \A a, b \in 1..Len(env) : a # b => env[a] # env[b]
RunsWithAll == phase \in {"running", "shutting", "ended"} => {env[i] : i \in 1..Len(env)} = Host
\* the run ends normally only when every executor has gone
EndedMeansGone == (phase = "ended" /\ ~gaveUp) => \A h \in Host : exec[h] = "gone"
\* every executor is eventually told to shut down (no reliance on the 3 minute timer)
AllShutDown == <>(\A h \in Host : exec[h] = "gone")
\* model bound: at most two identical frames in flight (re-sends would make the bag unbounded)
NetBounded == \A f \in DOMAIN net : net[f] <= 2
TypeOK == phase \in {"registering", "running", "shutting", "ended"}
=============================================================================
