------------------------------- MODULE Arrays -------------------------------
(***************************************************************************)
(* C15: what the array backends of earthkit.workflows.backends must        *)
(* compute, as exact arithmetic over small integers / rationals, and which *)
(* variadic functions may carry the `batchable` marker.                    *)
(*                                                                         *)
(* An array is [shape |-> <<d1..dk>>, data |-> <<row-major values>>]; a     *)
(* value is a rational <<num, den>> in lowest terms with den > 0 (integers  *)
(* are <<x, 1>>).  `std` is compared squared (its specification value is    *)
(* the variance; the harness logs sign(s)*s^2).  Arrays are float64 unless  *)
(* the case says bool or int8 (see NarrowCases: what NumPy documents for    *)
(* narrow dtypes is the exact integer for sum/prod, wrap-around for a+b).   *)
(*                                                                         *)
(* Binding pattern P3: Generate writes the domain (Cases), the harness runs *)
(* the real backends on numpy arrays and on the same data as DataArrays,    *)
(* Judge evaluates Post on every (case, result); JudgeMarks decides in the  *)
(* model which variadic functions are batchable (BatchableInModel) and      *)
(* compares with the set of functions the library marks.  TLC evaluates     *)
(* every parameterless constant definition when it starts, so the three     *)
(* passes are guarded by IOEnv.PASS and the expensive definitions take a    *)
(* parameter.  The module is also the arithmetic library of Fluent.tla.     *)
(***************************************************************************)
EXTENDS Integers, Sequences, FiniteSets, TLC, Json, IOUtils, SequencesExt

CONSTANTS MaxArgs,      \* multi-argument reductions take 2..MaxArgs arrays
          PoolSize,     \* arrays per shape with more than one element (shape (1): all of Vals)
          Wide,         \* TRUE: shape (2,3) is part of the domain
          BatchArgs     \* batchability is decided on 1..BatchArgs arguments, every composition

\* ------------------------------------------------------------------ rationals
Abs(x) == IF x < 0 THEN -x ELSE x
RECURSIVE GCD(_, _)
GCD(a, b) == IF b = 0 THEN a ELSE GCD(b, a % b)
Q(n, d) == LET s == IF d < 0 THEN -1 ELSE 1
               g == GCD(Abs(n), Abs(d))
           IN <<(s * n) \div g, (s * d) \div g>>
QI(x) == <<x, 1>>
\* TLC integers are 32 bit and an overflow aborts the run: every operation first checks that its operands are
\* within Lim (2 * Lim^2 < 2^31); beyond it the result is Undef = "outside the model", and no claim is made.
Undef == <<0, 0>>
Lim == 30000
Fits(a, b) == /\ a # Undef /\ b # Undef
              /\ Abs(a[1]) <= Lim /\ a[2] <= Lim /\ Abs(b[1]) <= Lim /\ b[2] <= Lim
RAdd(a, b) == IF Fits(a, b) THEN Q(a[1] * b[2] + b[1] * a[2], a[2] * b[2]) ELSE Undef
RSub(a, b) == IF Fits(a, b) THEN Q(a[1] * b[2] - b[1] * a[2], a[2] * b[2]) ELSE Undef
RMul(a, b) == IF Fits(a, b) THEN Q(a[1] * b[1], a[2] * b[2]) ELSE Undef
RDiv(a, b) == IF Fits(a, b) /\ b[1] # 0 THEN Q(a[1] * b[2], a[2] * b[1]) ELSE Undef
RLe(a, b)  == a[1] * b[2] <= b[1] * a[2]
RMin(a, b) == IF ~Fits(a, b) THEN Undef ELSE IF RLe(a, b) THEN a ELSE b
RMax(a, b) == IF ~Fits(a, b) THEN Undef ELSE IF RLe(a, b) THEN b ELSE a
RECURSIVE RPowN(_, _)
RPowN(a, e) == IF e = 0 THEN QI(1) ELSE RMul(a, RPowN(a, e - 1))
\* integer exponent (den 1); 0^0 = 1 as NumPy; a negative exponent needs a # 0
RPow(a, b) == IF ~Fits(a, b) \/ b[2] # 1 \/ Abs(b[1]) > 8 THEN Undef
              ELSE IF b[1] >= 0 THEN RPowN(a, b[1]) ELSE RDiv(QI(1), RPowN(a, 0 - b[1]))
\* exact square root of a rational, Undef when it is not a rational
SqrtQ(q) == LET rn == {r \in 0..Abs(q[1]) : r * r = q[1]}
                rd == {r \in 1..q[2] : r * r = q[2]}
            IN IF q = Undef \/ rn = {} \/ rd = {} THEN Undef ELSE <<CHOOSE r \in rn : TRUE, CHOOSE r \in rd : TRUE>>

Op2(op, x, y) == CASE op \in {"sum", "add"} -> RAdd(x, y)
                   [] op \in {"prod", "multiply"} -> RMul(x, y)
                   [] op = "min" -> RMin(x, y)
                   [] op = "max" -> RMax(x, y)
                   [] op = "subtract" -> RSub(x, y)
                   [] op = "divide" -> RDiv(x, y)
                   [] op = "pow" -> RPow(x, y)

RECURSIVE FoldOp(_, _)
FoldOp(op, s) == IF Len(s) = 1 THEN s[1] ELSE Op2(op, FoldOp(op, SubSeq(s, 1, Len(s) - 1)), s[Len(s)])
MeanQ(s) == RDiv(FoldOp("sum", s), QI(Len(s)))
VarQ(s)  == LET m == MeanQ(s) IN RSub(MeanQ([i \in DOMAIN s |-> RMul(s[i], s[i])]), RMul(m, m))
\* reduction of a non-empty sequence of values; "std" denotes the variance (compared squared),
\* "std_exact" the exact root where it exists (only used to decide batchability)
ReduceSeq(f, s) == CASE f \in {"sum", "prod", "min", "max"} -> FoldOp(f, s)
                     [] f = "mean" -> MeanQ(s)
                     [] f \in {"var", "std"} -> VarQ(s)
                     [] f = "std_exact" -> SqrtQ(VarQ(s))

\* ------------------------------------------------------------------ arrays
RECURSIVE ProdSeq(_)
ProdSeq(s) == IF s = <<>> THEN 1 ELSE Head(s) * ProdSeq(Tail(s))
RECURSIVE SumInts(_)
SumInts(s) == IF s = <<>> THEN 0 ELSE Head(s) + SumInts(Tail(s))
Stride(shape, i) == ProdSeq(SubSeq(shape, i + 1, Len(shape)))
Unflat(off, shape) == [i \in 1..Len(shape) |-> (off \div Stride(shape, i)) % shape[i]]   \* 0-based multi-index
Flat(idx, shape) == SumInts([i \in 1..Len(shape) |-> idx[i] * Stride(shape, i)])
At(a, idx) == a.data[Flat(idx, a.shape) + 1]
MkArr(shape, F(_)) == [shape |-> shape, data |-> [k \in 1..ProdSeq(shape) |-> F(Unflat(k - 1, shape))]]
InsAt(s, p, x) == SubSeq(s, 1, p - 1) \o <<x>> \o SubSeq(s, p, Len(s))     \* x becomes element p
RemAt(s, p) == SubSeq(s, 1, p - 1) \o SubSeq(s, p + 1, Len(s))
Err == [shape |-> <<0 - 1>>, data |-> <<>>]                                   \* "no value" (the call is an error)
IsErr(a) == a.shape = <<0 - 1>>
SameShapes(args) == \A i \in DOMAIN args : args[i].shape = args[1].shape
AnyErr(args) == \E i \in DOMAIN args : IsErr(args[i])
IntArr(shape, ints) == [shape |-> shape, data |-> [i \in DOMAIN ints |-> QI(ints[i])]]
Scalar(q) == [shape |-> <<>>, data |-> <<q>>]

\* axes are 0-based as in NumPy
Stack(args, axis) ==
  IF AnyErr(args) \/ ~SameShapes(args) \/ axis > Len(args[1].shape) THEN Err
  ELSE MkArr(InsAt(args[1].shape, axis + 1, Len(args)),
             LAMBDA idx : At(args[idx[axis + 1] + 1], RemAt(idx, axis + 1)))
\* f over a new leading axis of the arguments (what sum(a, b, c) means)
MultiN(f, args) ==
  IF AnyErr(args) \/ ~SameShapes(args) THEN Err
  ELSE MkArr(args[1].shape, LAMBDA idx : ReduceSeq(f, [k \in DOMAIN args |-> At(args[k], idx)]))
ReduceAxis(f, a, axis) ==
  MkArr(RemAt(a.shape, axis + 1),
        LAMBDA idx : ReduceSeq(f, [k \in 1..a.shape[axis + 1] |-> At(a, InsAt(idx, axis + 1, k - 1))]))
ReduceAll(f, a) == Scalar(ReduceSeq(f, a.data))
RECURSIVE Locate(_, _, _, _)
Locate(args, axis, p, k) == IF p < args[k].shape[axis + 1] THEN <<k, p>>
                            ELSE Locate(args, axis, p - args[k].shape[axis + 1], k + 1)
ConcatOk(args, axis) == \A i \in DOMAIN args :
                           /\ Len(args[i].shape) = Len(args[1].shape) /\ axis < Len(args[i].shape)
                           /\ RemAt(args[i].shape, axis + 1) = RemAt(args[1].shape, axis + 1)
Concat(args, axis) ==
  IF AnyErr(args) \/ ~ConcatOk(args, axis) THEN Err
  ELSE MkArr([args[1].shape EXCEPT ![axis + 1] = SumInts([k \in DOMAIN args |-> args[k].shape[axis + 1]])],
             LAMBDA idx : LET l == Locate(args, axis, idx[axis + 1], 1)
                          IN At(args[l[1]], [idx EXCEPT ![axis + 1] = l[2]]))
Take(a, i, axis) == MkArr(RemAt(a.shape, axis + 1), LAMBDA idx : At(a, InsAt(idx, axis + 1, i)))
TakeSeq(a, is, axis) == MkArr([a.shape EXCEPT ![axis + 1] = Len(is)],
                              LAMBDA idx : At(a, [idx EXCEPT ![axis + 1] = is[idx[axis + 1] + 1]]))
\* two-argument arithmetic: equal shapes, or one side a scalar (shape <<>>)
Binary(op, a, b) ==
  IF IsErr(a) \/ IsErr(b) \/ (a.shape # b.shape /\ a.shape # <<>> /\ b.shape # <<>>) THEN Err
  ELSE MkArr(IF a.shape = <<>> THEN b.shape ELSE a.shape,
             LAMBDA idx : Op2(op, IF a.shape = <<>> THEN a.data[1] ELSE At(a, idx),
                                  IF b.shape = <<>> THEN b.data[1] ELSE At(b, idx)))

Reds == {"sum", "prod", "min", "max", "mean", "std", "var"}
Variadic == Reds \cup {"stack", "concat"}
\* the n-ary application every variadic backend function denotes
Apply(f, args, axis) == CASE f \in Reds \cup {"std_exact"} -> MultiN(f, args)
                          [] f = "stack" -> Stack(args, axis)
                          [] f = "concat" -> Concat(args, axis)

\* ------------------------------------------------------------------ batchability, decided in the model
\* A batch of one argument is handed on unchanged (this is how fluent.reduce/_batch_transform use the
\* marker, and f over a new leading axis of one array is that array).
RECURSIVE Split(_, _)
Split(args, parts) == IF parts = <<>> THEN <<>>
                      ELSE <<SubSeq(args, 1, parts[1])>> \o Split(SubSeq(args, parts[1] + 1, Len(args)), Tail(parts))
Batched(f, args, parts, axis) ==
  LET bs == Split(args, parts)
      inner == [i \in DOMAIN bs |-> IF Len(bs[i]) = 1 THEN bs[i][1] ELSE Apply(f, bs[i], axis)]
  IN IF Len(parts) = 1 THEN inner[1] ELSE Apply(f, inner, axis)
RECURSIVE Comps(_)
Comps(n) == IF n = 0 THEN {<<>>} ELSE UNION {{<<k>> \o c : c \in Comps(n - k)} : k \in 1..n}
HasUndef(a) == \E i \in DOMAIN a.data : a.data[i] = Undef
BVals == {0 - 2, 0, 1, 3}
BatchTuples(n) == {[i \in 1..n |-> IntArr(<<1>>, <<t[i]>>)] : t \in [1..n -> BVals]}
               \cup {[i \in 1..n |-> IntArr(<<2>>, <<t[i], 1 - t[i]>>)] : t \in [1..n -> {0 - 1, 2}]}
ModelName(f) == IF f = "std" THEN "std_exact" ELSE f
\* std: only the nestings whose inner roots are rational are defined; one of them refutes batchability
BatchableOn(f, n) == \A t \in BatchTuples(n) : \A parts \in Comps(n) : \A ax \in (IF f = "stack" THEN {0, 1} ELSE {0}) :
                        LET r == Batched(ModelName(f), t, parts, ax)
                            w == Apply(ModelName(f), t, ax)
                        IN (~IsErr(r) /\ (HasUndef(r) \/ HasUndef(w))) \/ r = w
BatchableInModel(f) == \A n \in 1..BatchArgs : BatchableOn(f, n)
\* (operators with a parameter: TLC evaluates every parameterless constant definition when it starts, in every pass)
BatchableSet(fs) == {f \in fs : BatchableInModel(f)}
\* backends/__init__.py, docstring of `batchable`: "Examples of batchable functions are sum, prod, min
\* and non-batchable are mean and std."
DocBatchable == {"sum", "prod", "min"}
DocNotBatchable == {"mean", "std"}

\* ------------------------------------------------------------------ domain
Vals == (0 - 2)..3
Shapes == {<<1>>, <<2>>, <<3>>, <<2, 2>>} \cup (IF Wide THEN {<<2, 3>>} ELSE {})
PoolInts(shape, s) == [k \in 1..ProdSeq(shape) |-> ((s * 7 + (k - 1) * (s + 2) + (((k - 1) * (k - 1)) % 3)) % 6) - 2]
Pool(shape) == IF ProdSeq(shape) = 1 THEN {[shape |-> shape, data |-> <<v>>] : v \in Vals}
               ELSE {[shape |-> shape, data |-> PoolInts(shape, s)] : s \in 1..PoolSize}
Small(shape) == IF ProdSeq(shape) = 1 THEN {[shape |-> shape, data |-> <<v>>] : v \in {0 - 2, 0, 3}}
                ELSE {[shape |-> shape, data |-> PoolInts(shape, s)] : s \in 1..2}
Tuples(S, n) == [1..n -> S]
Axes(shape) == 0..(Len(shape) - 1)
NoZero(a) == \A i \in DOMAIN a.data : a.data[i] # 0
PowOk(a, b) == \A i \in DOMAIN a.data : \A j \in DOMAIN b.data : a.data[i] # 0 \/ b.data[j] >= 0
IdxSeqs(n) == UNION {[1..l -> 0..(n - 1)] : l \in 1..2} \cup {[i \in 1..n |-> n - i]}
\* dt: the dtype the harness gives the arrays: "f8" float64 (every case above), "bool" (entries 0/1), "i1" int8
CD(k, op, args, axis, idx, parts, dt) == [k |-> k, op |-> op, args |-> args, axis |-> axis, idx |-> idx, parts |-> parts, dt |-> dt]
C(k, op, args, axis, idx, parts) == CD(k, op, args, axis, idx, parts, "f8")
\* Narrow dtypes.  What NumPy documents: sum/prod over the stacked arguments accumulate bool and sub-word integers in the
\* platform integer (the exact count / sum / product); min/max stay in the dtype (exact); mean is computed in float64
\* (exact here); element-wise add/multiply of two int8 arrays stay int8 and WRAP modulo 256.  bool (op) bool for the
\* two-argument functions (logical or/and in NumPy) and var/std of narrow integers (squares leave the model's integer
\* range) are left out of the domain.
NarrowOps == {"sum", "prod", "min", "max", "mean"}
NarrowBatchOps == {"sum", "prod", "min", "max"}
BoolShapes == {<<1>>, <<2>>, <<3>>, <<2, 2>>}
BoolPool(sh) == IF ProdSeq(sh) <= 2 THEN {[shape |-> sh, data |-> d] : d \in [1..ProdSeq(sh) -> {0, 1}]}
                ELSE {[shape |-> sh, data |-> [k \in 1..ProdSeq(sh) |-> ((k + s) \div s) % 2]] : s \in 1..3}
I1Vals == <<100, 127, 0 - 128, 2>>
I1Shapes == {<<1>>, <<2>>, <<2, 2>>}
I1Pool(sh) == {[shape |-> sh, data |-> [k \in 1..ProdSeq(sh) |-> I1Vals[((k + s) % 4) + 1]]] : s \in 1..(IF ProdSeq(sh) = 4 THEN 3 ELSE 4)}
Wrap8(q) == IF q = Undef \/ q[2] # 1 THEN Undef ELSE QI(((q[1] + 128) % 256) - 128)
WrapArr8(a) == IF IsErr(a) THEN a ELSE [a EXCEPT !.data = [i \in DOMAIN a.data |-> Wrap8(a.data[i])]]
\* Negative axis / dim arguments: NumPy counts them from the end (axis + rank; for stack the rank of the RESULT).
\* Every place where an axis is a parameter: one-array reductions, stack, concat, take with an integer and a sequence.
NegAxisCases(maxArgs) ==
       UNION {IF 0 - ax <= Len(sh) THEN {C("single", f, <<a>>, ax, <<>>, <<>>) : <<f, a>> \in Reds \X Small(sh)} ELSE {}
              : sh \in Shapes, ax \in (0 - 2)..(0 - 1)}
  \cup UNION {IF 0 - ax <= Len(sh) + 1 THEN {C("stack", "stack", t, ax, <<>>, <<>>) : t \in Tuples(Small(sh), n)} ELSE {}
              : sh \in Shapes, n \in 1..maxArgs, ax \in (0 - 3)..(0 - 1)}
  \cup UNION {IF 0 - ax <= Len(sh) THEN {C("concat", "concat", t, ax, <<>>, <<>>) : t \in Tuples(Small(sh), n)} ELSE {}
              : sh \in Shapes, n \in 1..maxArgs, ax \in (0 - 2)..(0 - 1)}
  \cup UNION {IF 0 - ax <= Len(sh) THEN {C("take1", "take", <<a>>, ax, <<i>>, <<>>) : <<a, i>> \in Pool(sh) \X (0..(sh[Len(sh) + ax + 1] - 1))} ELSE {}
              : sh \in Shapes, ax \in (0 - 2)..(0 - 1)}
  \cup UNION {IF 0 - ax <= Len(sh) THEN {C("taken", "take", <<a>>, ax, is, <<>>) : <<a, is>> \in Small(sh) \X IdxSeqs(sh[Len(sh) + ax + 1])} ELSE {}
              : sh \in Shapes, ax \in (0 - 2)..(0 - 1)}
\* Arguments of MIXED RANK (0-d, 1-d, 2-d; every shape a suffix of the largest, so NumPy broadcasts them), in every order.
\* The library defines: stack (array-API: "broadcastable to the same shape"; xarray: concat broadcasts by dimension name),
\* the two-argument arithmetic (both), and on the xarray backend the multi-argument reductions (they stack first).
\* Not defined, hence not in the domain: array-API multi-argument reductions (np.asarray of ragged arguments raises) and
\* concat of arrays of different rank (NumPy has no value).  Reference: NumPy on the broadcast arguments.
MixFamilies == {<<[shape |-> <<>>, data |-> <<3>>], [shape |-> <<2>>, data |-> <<0 - 1, 2>>], [shape |-> <<2, 2>>, data |-> <<1, 0, 0 - 2, 3>>]>>,
                <<[shape |-> <<>>, data |-> <<0 - 2>>], [shape |-> <<3>>, data |-> <<2, 0 - 2, 1>>], [shape |-> <<2, 3>>, data |-> <<0, 1, 3, 0 - 1, 2, 0 - 2>>]>>}
MixLists(n) == UNION {{t \in [1..n -> {F[i] : i \in 1..3}] : \E i, j \in 1..n : Len(t[i].shape) # Len(t[j].shape)} : F \in MixFamilies}
MaxRank(t) == CHOOSE r \in 0..2 : (\E i \in DOMAIN t : Len(t[i].shape) = r) /\ (\A i \in DOMAIN t : Len(t[i].shape) <= r)
MixedRankCases(top) ==
       UNION {{C("bstack", "stack", t, ax, <<>>, <<>>) : ax \in (0 - (MaxRank(t) + 1))..MaxRank(t)} : t \in UNION {MixLists(n) : n \in 2..top}}
  \cup {C("bmulti", f, t, 0, <<>>, <<>>) : <<f, t>> \in {"sum", "prod", "min", "max", "mean"} \X UNION {MixLists(n) : n \in 2..top}}
  \cup {C("bbin", op, t, 0, <<>>, <<>>) : <<op, t>> \in {"add", "subtract", "multiply"} \X MixLists(2)}
\* take with negative, repeated and out-of-range indices (scalar and sequence), every axis counted from both ends
OddIndexCases(shapes) ==
  UNION {IF ax < Len(sh) /\ 0 - ax <= Len(sh)
         THEN LET n == sh[(IF ax < 0 THEN ax + Len(sh) ELSE ax) + 1] IN
                 {C("take1", "take", <<a>>, ax, <<i>>, <<>>) : <<a, i>> \in Small(sh) \X {0 - 1, 0 - n, n, 0 - n - 1}}
            \cup {C("taken", "take", <<a>>, ax, is, <<>>) : <<a, is>> \in Small(sh) \X
                      {<<0 - 1, 0>>, <<0 - n, n - 1>>, <<0 - 1, 0 - 1>>, <<0, 0, 0>>, <<n>>, <<0, 0 - n - 1>>, <<n + 1, 0>>}}
         ELSE {}
         : sh \in shapes, ax \in (0 - 2)..1}
\* array (op) PYTHON SCALAR, scalar on either side, over dtypes bool, int8, uint8, float32, float64 (kind "sbin":
\* idx = <<num, den>> of the scalar, parts = <<kind: 0 bool / 1 int / 2 float, position: 0 array op scalar / 1 scalar op array>>).
\* What NumPy (2.x, NEP 50) gives for `array <op> python_scalar`: the scalar is WEAK - it does not widen the array's
\* dtype within its kind; a bool scalar never changes it, an int scalar turns bool into the default integer, a float
\* scalar turns bool/integers into float64; true division of bool/integers gives float64.  Integer results wrap
\* modulo 2^8 in int8/uint8.  Left out: bool array with a bool scalar (logical operators), int scalars that do not fit
\* the dtype (OverflowError), irrational powers, results float32 cannot hold exactly, and pow on bool arrays (NumPy's
\* operator shortcut for exponent 2 squares in int8 where np.power, which the xarray backend calls, gives int64).
SDtypes == {"bool", "int8", "uint8", "float32", "float64"}
SPoolA(dt) == CASE dt = "bool" -> <<1, 0, 1, 1>> [] dt = "int8" -> <<120, 0 - 128, 2, 1>> [] dt = "uint8" -> <<250, 2, 0, 1>> [] OTHER -> <<120, 2, 0, 1>>
SPoolP(dt) == IF dt = "bool" THEN <<1, 1, 1, 1>> ELSE <<8, 2, 1, 4>>          \* divisors / exponents
SScalars == {<<1, 1, 0>>, <<2, 1, 1>>, <<9, 1, 1>>, <<1, 2, 2>>, <<2, 1, 2>>}     \* <<num, den, kind>>: True, 2, 9, 0.5, 2.0
ScalarCases(dts) ==
  {CD("sbin", op, <<[shape |-> sh, data |-> IF pos = 1 /\ op \in {"divide", "pow"} THEN SPoolP(dt) ELSE SPoolA(dt)]>>,
      0, <<sc[1], sc[2]>>, <<sc[3], pos>>, dt)
   : <<op, dt, sc, pos, sh>> \in {x \in {"add", "subtract", "multiply", "divide", "pow"} \X dts \X SScalars \X {0, 1} \X {<<4>>, <<2, 2>>} :
        /\ ~(x[2] = "bool" /\ x[3][3] = 0)
        /\ (x[1] \in {"divide", "pow"} => x[3][1] # 9)
        /\ (x[1] = "pow" => x[3][2] = 1 /\ x[2] # "bool")}}
\* Several arguments AND an explicit axis= (array-API) / dim= (xarray) keyword in the same call.  The library's contract as
\* HEAD behaves: with two or more arguments the reduction is ACROSS THE ARGUMENTS whatever the keyword says (both backends
\* overwrite it with the stacking axis / dimension), so the value is the one of the call without keyword; the marked
\* functions stay batchable under the same calls ("batchedk": the keyword is passed to the inner and the outer calls).
KeywordCases(top) ==
       UNION {IF ax < Len(sh) THEN {C("multik", f, t, ax, <<>>, <<>>) : <<f, t>> \in Reds \X Tuples(Small(sh), n)} ELSE {}
              : sh \in Shapes, n \in 2..top, ax \in 0..1}
  \cup UNION {IF ax < Len(sh) THEN {C("batchedk", f, t, ax, <<>>, parts) : <<f, t, parts>> \in
                                     {"sum", "prod", "min", "max"} \X Tuples(Small(sh), 3) \X {<<1, 2>>, <<2, 1>>}} ELSE {}
              : sh \in {<<2>>, <<2, 2>>}, ax \in 0..1}
NarrowCases(top) ==          \* (a parameter so that TLC does not evaluate it when it starts)
       {CD("multi", f, t, 0, <<>>, <<>>, "bool") : <<f, t>> \in UNION {NarrowOps \X Tuples(BoolPool(sh), n) : <<sh, n>> \in BoolShapes \X (2..top)}}
  \cup {CD("multi", f, t, 0, <<>>, <<>>, "i1") : <<f, t>> \in UNION {NarrowOps \X Tuples(I1Pool(sh), n) : <<sh, n>> \in I1Shapes \X (2..top)}}
  \cup {CD("bin", op, t, 0, <<>>, <<>>, "i1") : <<op, t>> \in {"add", "multiply"} \X UNION {I1Pool(sh) \X I1Pool(sh) : sh \in I1Shapes}}
  \cup {CD("batched", f, t, 0, <<>>, parts, dt[1]) : <<f, t, parts, dt>> \in
           UNION {NarrowBatchOps \X Tuples(d[2], 3) \X {<<1, 2>>, <<2, 1>>} \X {d} : d \in {<<"bool", BoolPool(<<1>>)>>, <<"i1", {a \in I1Pool(<<1>>) : a.data[1] # 2}>>}}}
ScalarArgs == {[shape |-> <<>>, data |-> <<v>>] : v \in {0 - 1, 2, 3}}

Cases(maxArgs) ==
  \* f(a1..an): reduction over a new leading axis
       {C("multi", f, t, 0, <<>>, <<>>) : <<f, t>> \in UNION {Reds \X Tuples(IF n >= 3 /\ ProdSeq(sh) = 1 THEN Small(sh) ELSE Pool(sh), n) : <<sh, n>> \in Shapes \X (2..maxArgs)}}
  \* f(a) and f(a, axis): what NumPy gives for one array
  \cup {C("all", f, <<a>>, 0, <<>>, <<>>) : <<f, a>> \in UNION {Reds \X Pool(sh) : sh \in Shapes}}
  \cup UNION {IF ax < Len(sh) THEN {C("single", f, <<a>>, ax, <<>>, <<>>) : <<f, a>> \in Reds \X Pool(sh)} ELSE {}
              : sh \in Shapes, ax \in 0..1}
  \* stack at every axis, concat along every axis (equal shapes, and 1-D arrays of different lengths)
  \cup UNION {IF ax <= Len(sh) THEN {C("stack", "stack", t, ax, <<>>, <<>>) : t \in Tuples(Small(sh), n)} ELSE {}
              : sh \in Shapes, n \in 1..maxArgs, ax \in 0..2}
  \cup UNION {IF ax < Len(sh) THEN {C("concat", "concat", t, ax, <<>>, <<>>) : t \in Tuples(Small(sh), n)} ELSE {}
              : sh \in Shapes, n \in 1..maxArgs, ax \in 0..1}
  \cup {C("concat", "concat", t, 0, <<>>, <<>>) : t \in UNION {Tuples(UNION {Small(sh) : sh \in {<<1>>, <<2>>, <<3>>}}, n) : n \in 2..3}}
  \* take with an integer and with a sequence of indices
  \cup UNION {IF ax < Len(sh) THEN {C("take1", "take", <<a>>, ax, <<i>>, <<>>) : <<a, i>> \in Pool(sh) \X (0..(sh[ax + 1] - 1))} ELSE {}
              : sh \in Shapes, ax \in 0..1}
  \cup UNION {IF ax < Len(sh) THEN {C("taken", "take", <<a>>, ax, is, <<>>) : <<a, is>> \in Small(sh) \X IdxSeqs(sh[ax + 1])} ELSE {}
              : sh \in Shapes, ax \in 0..1}
  \* two-argument arithmetic: equal shapes and array (op) scalar
  \cup {C("bin", op, t, 0, <<>>, <<>>) : <<op, t>> \in {x \in {"add", "subtract", "multiply", "divide", "pow"}
                                                          \X UNION {Pool(sh) \X (Pool(sh) \cup ScalarArgs) : sh \in Shapes} :
                                                        /\ x[1] = "divide" => NoZero(x[2][2])
                                                        /\ x[1] = "pow" => PowOk(x[2][1], x[2][2])}}
  \* f(f(batch_1), .., f(batch_k)) computed by the implementation, every composition with 1 < k < n
  \cup UNION {IF SumInts(parts) = n /\ Len(parts) > 1 /\ Len(parts) < n
              THEN {C("batched", f, t, 0, <<>>, parts) : <<f, t>> \in Variadic \X Tuples(Small(sh), n)} ELSE {}
              : sh \in {<<1>>, <<2>>, <<2, 2>>}, n \in 3..maxArgs, parts \in UNION {Comps(m) : m \in 3..maxArgs}}
  \cup NarrowCases(3)
  \cup NegAxisCases(maxArgs)
  \cup MixedRankCases(3)
  \cup OddIndexCases(Shapes)
  \cup ScalarCases(SDtypes)
  \cup KeywordCases(3)

\* TLC evaluates every constant definition of a module when it starts, so each pass is guarded by IOEnv.PASS
Generate == IOEnv.PASS = "generate" => (LET cs == SetToSeq(Cases(MaxArgs)) IN JsonSerialize(IOEnv.CASES_FILE, [i \in 1..Len(cs) |-> cs[i]]))

\* ------------------------------------------------------------------ post-condition
AsSeq(x) == [i \in DOMAIN x |-> x[i]]
ArgsOf(c) == [i \in DOMAIN c.args |-> IntArr(AsSeq(c.args[i].shape), AsSeq(c.args[i].data))]
\* broadcasting of trailing-aligned shapes
BShapeOf(args) == args[CHOOSE i \in DOMAIN args : \A j \in DOMAIN args : Len(args[j].shape) <= Len(args[i].shape)].shape
BroadcastTo(a, sh) == MkArr(sh, LAMBDA idx : At(a, SubSeq(idx, Len(sh) - Len(a.shape) + 1, Len(sh))))
BArgs(args) == [i \in DOMAIN args |-> BroadcastTo(args[i], BShapeOf(args))]
BKinds == {"bstack", "bmulti", "bbin"}
\* NumPy indexing: a negative index counts from the end; outside -n..n-1 the call raises IndexError (-1 here, see Post)
NormIndex(i, n) == IF i >= n \/ i < 0 - n THEN 0 - 1 ELSE IF i < 0 THEN i + n ELSE i
\* result dtype and value of array (op) python scalar (see ScalarCases)
ScalarDtype(op, dt, kind) ==
  LET base == CASE kind = 0 -> dt
                [] kind = 1 -> (IF dt = "bool" THEN "int64" ELSE dt)
                [] kind = 2 -> (IF dt \in {"float32", "float64"} THEN dt ELSE "float64")
  IN IF op = "divide" /\ base \notin {"float32", "float64"} THEN "float64" ELSE base
WrapU8(q) == IF q = Undef \/ q[2] # 1 THEN Undef ELSE QI(q[1] % 256)
WrapTo(a, rdt) == IF IsErr(a) \/ rdt \notin {"int8", "uint8"} THEN a
                  ELSE [a EXCEPT !.data = [i \in DOMAIN a.data |-> IF rdt = "int8" THEN Wrap8(a.data[i]) ELSE WrapU8(a.data[i])]]
ScalarSpec(c, a) == LET sc == Scalar(Q(c.idx[1], c.idx[2]))
                        r == IF c.parts[2] = 0 THEN Binary(c.op, a[1], sc) ELSE Binary(c.op, sc, a[1])
                    IN WrapTo(r, ScalarDtype(c.op, c.dt, c.parts[1]))
NormAxis(ax, rank) == IF ax < 0 THEN ax + rank ELSE ax            \* NumPy: a negative axis counts from the end
Spec(c) == LET a == ArgsOf(c)
               ax == NormAxis(c.axis, Len(a[1].shape) + (IF c.k = "stack" THEN 1 ELSE 0)) IN
  CASE c.k = "multi" -> MultiN(c.op, a)
    [] c.k = "all" -> ReduceAll(c.op, a[1])
    [] c.k = "single" -> ReduceAxis(c.op, a[1], ax)
    [] c.k = "stack" -> Stack(a, ax)
    [] c.k = "concat" -> Concat(a, ax)
    [] c.k = "take1" -> LET i == NormIndex(c.idx[1], a[1].shape[ax + 1]) IN IF i < 0 THEN Err ELSE Take(a[1], i, ax)
    [] c.k = "taken" -> LET is == [j \in DOMAIN c.idx |-> NormIndex(c.idx[j], a[1].shape[ax + 1])]
                        IN IF \E j \in DOMAIN is : is[j] < 0 THEN Err ELSE TakeSeq(a[1], is, ax)
    [] c.k = "bin" -> IF c.dt = "i1" THEN WrapArr8(Binary(c.op, a[1], a[2])) ELSE Binary(c.op, a[1], a[2])
    [] c.k = "batched" -> Apply(c.op, a, c.axis)
    [] c.k = "sbin" -> ScalarSpec(c, a)
    [] c.k = "multik" -> MultiN(c.op, a)              \* the keyword does not change what several arguments mean
    [] c.k = "batchedk" -> MultiN(c.op, a)
    [] c.k = "bstack" -> Stack(BArgs(a), NormAxis(c.axis, Len(BShapeOf(a)) + 1))
    [] c.k = "bmulti" -> MultiN(c.op, BArgs(a))
    [] c.k = "bbin" -> Binary(c.op, BArgs(a)[1], BArgs(a)[2])
\* xarray identifies dimensions by NAME (the harness names the dimensions of an argument d<k> by their position in the
\* broadcast shape): for mixed-rank arguments the result is compared by name - same set of dimensions, the new
\* dimension of stack at the position the axis asks for, values equal after transposing to NumPy's order.
WantDims(c) == LET a == ArgsOf(c)
                   base == [i \in 1..Len(BShapeOf(a)) |-> "d" \o ToString(i - 1)]
               IN IF c.k = "bstack" THEN InsAt(base, NormAxis(c.axis, Len(base) + 1) + 1, "new") ELSE base
TransposeTo(got, gd, wd) ==
  LET perm == [i \in DOMAIN wd |-> CHOOSE j \in DOMAIN gd : gd[j] = wd[i]]
  IN MkArr([i \in DOMAIN wd |-> got.shape[perm[i]]],
           LAMBDA idx : At(got, [j \in DOMAIN gd |-> idx[CHOOSE i \in DOMAIN perm : perm[i] = j]]))
ImplArr(r) == [shape |-> AsSeq(r.shape), data |-> [i \in DOMAIN r.data |-> Q(r.data[i][1], r.data[i][2])]]
\* r = [np |-> res, xr |-> res], res = [shape, data] or [error] or [skip]; marked = names carrying the marker
PostOne(c, res, be, marked) ==
  LET n(what) == {be \o ":" \o c.op \o ":" \o c.k \o (IF c.dt = "f8" THEN "" ELSE "[" \o c.dt \o "]") \o ":" \o what}
      want == Spec(c)
  IN IF c.k \in {"batched", "batchedk"} /\ c.op \notin marked THEN {}          \* nothing is promised for unmarked functions
     ELSE IF c.k = "bmulti" /\ be = "np" THEN {}                 \* not defined by the array-API backend (ragged np.asarray)
     ELSE IF "skip" \in DOMAIN res THEN {}                      \* the backend's API has no such call (axis given by name)
     ELSE IF HasUndef(want) THEN n("outside_model_range")      \* cannot happen on this domain; never skip silently
     \* NumPy has no value (an index out of range): the backend must raise IndexError as NumPy does
     ELSE IF IsErr(want) THEN (IF "error" \in DOMAIN res /\ res.etype = "IndexError" THEN {} ELSE n("index_error_not_raised"))
     ELSE IF "error" \in DOMAIN res THEN n("raised")
     ELSE IF be = "xr" /\ c.k \in BKinds
     THEN LET gd == AsSeq(res.dims)
              wd == WantDims(c) IN
          IF Len(gd) # Len(wd) \/ {gd[i] : i \in DOMAIN gd} # {wd[i] : i \in DOMAIN wd} THEN n("dims_differ")
          ELSE IF c.k = "bstack" /\ (CHOOSE j \in DOMAIN gd : gd[j] = "new") # (CHOOSE j \in DOMAIN wd : wd[j] = "new")
          THEN n("new_dimension_misplaced")
          ELSE LET got == TransposeTo(ImplArr(res), gd, wd) IN
               IF got.shape # want.shape THEN n("shape_differs")
               ELSE IF got.data # want.data THEN n("value_differs") ELSE {}
     ELSE LET got == ImplArr(res) IN
          (IF c.k = "sbin" /\ res.dtype # ScalarDtype(c.op, c.dt, c.parts[1]) THEN n("dtype_differs") ELSE {})
          \cup (IF got.shape # want.shape THEN n("shape_differs")
                ELSE IF got.data # want.data THEN n("value_differs") ELSE {})
Post(c, r, marked) == PostOne(c, r.np, "np", marked) \cup PostOne(c, r.xr, "xr", marked)

Judge == IOEnv.PASS = "judge" =>
  LET cs == JsonDeserialize(IOEnv.CASES_FILE)
      rs == JsonDeserialize(IOEnv.RESULTS_FILE)
      mk == JsonDeserialize(IOEnv.MARKS_FILE)
      marked == {mk[i] : i \in DOMAIN mk}
  IN \A i \in DOMAIN cs :
       LET bad == Post(cs[i], rs[i], marked)
       IN bad = {} \/ PrintT("B|" \o ToString(i) \o "|" \o ToString(bad))

\* the marker set against the model's decision (one pseudo-case, index 0)
JudgeMarks == IOEnv.PASS = "marks" =>
  LET mk == JsonDeserialize(IOEnv.MARKS_FILE)
      marked == {mk[i] : i \in DOMAIN mk}
      ok == BatchableSet(Variadic)
      bad == {"marked_but_not_batchable:" \o f : f \in marked \ ok}
             \cup {"batchable_as_documented_but_not_marked:" \o f : f \in (DocBatchable \cap ok) \ marked}
             \cup {"documented_as_not_batchable_but_marked:" \o f : f \in DocNotBatchable \cap marked}
             \cup {"model_contradicts_documentation:" \o f : f \in (DocBatchable \ ok) \cup (DocNotBatchable \cap ok)}
  IN /\ PrintT("M|" \o ToString(ok))
     /\ (bad = {} \/ PrintT("B|0|" \o ToString(bad)))
=============================================================================
