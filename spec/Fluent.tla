------------------------------- MODULE Fluent -------------------------------
(***************************************************************************)
(* C13: what a program written with earthkit.workflows.fluent denotes.     *)
(*                                                                         *)
(* An action denotes a labelled array of arrays                            *)
(*   [dims |-> <<names>>, coords |-> <<<<labels of dim 1>>, ..>>,          *)
(*    val |-> <<row-major sequence of Arrays!arrays, one per node>>]       *)
(* (labels are strings: str() of the coordinate values; a dimension        *)
(* without coordinate variable has xarray's default labels "0","1",..).    *)
(* One CONTRACT per operation relates the denotation of the receiver (and  *)
(* of the other operand) to the denotation of the result: Expect(o, A, A2) *)
(* is the documented result, Contract(o, A, A2, B) the set of violated     *)
(* clauses for the result B the implementation produced.  The arithmetic   *)
(* is Arrays.tla (exact rationals; std compared squared).                  *)
(*                                                                         *)
(* Binding P3, compositional: FGenerate enumerates programs (source, op_1, *)
(* .., op_k) using the contracts themselves to know which operations apply *)
(* next; the harness builds each program with the real fluent API,         *)
(* evaluates every intermediate Action.graph() with a reference            *)
(* interpreter through the real backends and logs per step (A, A2, B);     *)
(* FJudge evaluates the contract of each step on the LOGGED denotations.   *)
(*                                                                         *)
(* Readings adopted where fluent.py documents little (the statement asks   *)
(* for "the dimensions and coordinates the operation documents"):          *)
(*  R1 reduce(keep_dim): "Dimension is kept in the original axis position" *)
(*     with size 1; the LABEL of the kept dimension is not documented and  *)
(*     is left free.                                                       *)
(*  R2 batch_size: "If batch_size > 1 and less than the size of the named  *)
(*     dimension [batched] otherwise no batching" - the result is the same *)
(*     for every batch size; "ValueError if payload function is not        *)
(*     batchable and batch_size is not 0" is demanded exactly when the     *)
(*     batch size is in that range (stack, reduce(mean)).  mean/std accept *)
(*     every batch size (they are rewritten through sum).                  *)
(*  R3 Coord = (dimension name, coordinate values) wherever `dim` may be a *)
(*     Coord (expand, transform, join); a str `dim` gets labels 0..n-1     *)
(*     (transform: list(range(len(params)))); "axis: position to insert    *)
(*     new dimension"; a new dimension of ONE element is removed           *)
(*     (transform: "Remove expanded dimension if only a single element").  *)
(*  R4 select/isel follow xarray sel/isel on the node array (a scalar      *)
(*     criterion removes the dimension, a list keeps it in the given       *)
(*     order).  Scalar (non-dimension) coordinates are not part of the     *)
(*     denotation.                                                         *)
(*  R5 broadcast: the result has the dimensions of both actions, labels of *)
(*     a new dimension from the other action, and at every coordinate the  *)
(*     receiver's value at the restriction to its own dimensions; the      *)
(*     ORDER of the dimensions is not documented and left free.            *)
(*  R6 join(other, dim): concatenation of the node arrays along dim (an    *)
(*     existing dimension: labels appended; a new one: one entry per       *)
(*     action, order of dimensions free).                                  *)
(*  R7 action (op) action is element-wise BY POSITION along every dimension *)
(*     (join is called with match_coord_values=True), dimensions matched   *)
(*     by NAME; the result keeps the receiver's dimensions and labels.     *)
(*  R8 operations keep the untouched dimensions in their order.            *)
(***************************************************************************)
EXTENDS Arrays

CONSTANTS Tier          \* "quick" | "thorough": which sources / depths (see Programs)

\* ------------------------------------------------------------------ denotations
NShape(D) == [i \in DOMAIN D.dims |-> Len(D.coords[i])]
HasDim(D, d) == \E i \in DOMAIN D.dims : D.dims[i] = d
Pos(D, d) == CHOOSE i \in DOMAIN D.dims : D.dims[i] = d
NodeAt(D, idx) == D.val[Flat(idx, NShape(D)) + 1]
MkDen(dims, coords, F(_)) ==
  LET sh == [i \in DOMAIN coords |-> Len(coords[i])]
  IN [dims |-> dims, coords |-> coords, val |-> [k \in 1..ProdSeq(sh) |-> F(Unflat(k - 1, sh))]]
IsRaise(D) == "raises" \in DOMAIN D
Raise(t) == [raises |-> t]
Free == "?"                                     \* a label the documentation leaves open (R1)
Strs(ints) == [i \in DOMAIN ints |-> ToString(ints[i])]
Range0(n) == [j \in 1..n |-> ToString(j - 1)]
IndexOf(s, x) == CHOOSE j \in DOMAIN s : s[j] = x

\* ------------------------------------------------------------------ operations
\* o = [op, dim, n, keep, axis, idim, ivals, cvals, other]
\*   reductions: dim, n = batch_size, keep = keep_dim, axis = backend axis (stack/flatten)
\*   expand: dim (new), n = dim_size, axis, idim = internal_dim, cvals = labels (Coord form), ivals = indices (Coord internal_dim)
\*   select/isel: dim, ivals = values / positions, keep = drop;  scalar arithmetic / map: n = the scalar
\*   transform: dim, ivals = the parameters (func = add), cvals = labels (Coord form), axis
Reductions == {"sum", "prod", "min", "max", "mean", "std", "rmean", "rfirst", "concatenate", "stack", "flatten"}
Fn(op) == CASE op = "rmean" -> "mean" [] op = "concatenate" -> "concat" [] op = "flatten" -> "stack" [] OTHER -> op
\* batchable per Arrays!BatchableInModel = {sum, prod, min, max, concat} (C15 ties the marker to the model); mean/std: R2
\* "rfirst" = reduce with a user payload that returns its first argument and carries the marker (first of firsts is the
\* first: batchable, and order sensitive like concat)
AnyBatch == {"sum", "prod", "min", "max", "mean", "std", "concatenate", "rfirst"}
RedApply(op, args, axis) == IF op = "rfirst" THEN args[1] ELSE Apply(Fn(op), args, axis)
ScalarOps == {"add", "subtract", "multiply", "divide", "power"}
ActionOps == {"add_a", "subtract_a", "multiply_a", "divide_a"}
BinName(op) == CASE op \in {"add", "add_a"} -> "add" [] op \in {"subtract", "subtract_a"} -> "subtract"
                 [] op \in {"multiply", "multiply_a"} -> "multiply" [] op \in {"divide", "divide_a"} -> "divide"
                 [] op = "power" -> "pow"
SameArrShapes(D) == \A k \in DOMAIN D.val : D.val[k].shape = D.val[1].shape

\* can the contract of o be stated for a receiver A (and operand A2)?  (a step is only judged when it can)
Applicable(o, A, A2) ==
  CASE o.op \in Reductions ->
         /\ HasDim(A, o.dim) /\ Len(A.coords[Pos(A, o.dim)]) >= 2 /\ SameArrShapes(A)
         /\ (o.op \in {"stack", "flatten"} => o.axis <= Len(A.val[1].shape))
         /\ (o.op = "concatenate" => Len(A.val[1].shape) >= 1)
    [] o.op \in {"map", "mapeach"} \cup ScalarOps -> TRUE
    [] o.op \in {"expand", "expandsel"} ->
         /\ ~HasDim(A, o.dim) /\ o.axis <= Len(A.dims)
         /\ \A k \in DOMAIN A.val : /\ o.idim < Len(A.val[k].shape)
                                   /\ (IF o.op = "expand" THEN o.n <= A.val[k].shape[o.idim + 1]
                                       ELSE \A j \in DOMAIN o.ivals : o.ivals[j] < A.val[k].shape[o.idim + 1])
    [] o.op \in {"select", "selectl"} ->
         HasDim(A, o.dim) /\ \A j \in DOMAIN o.ivals : \E c \in DOMAIN A.coords[Pos(A, o.dim)] : A.coords[Pos(A, o.dim)][c] = ToString(o.ivals[j])
    [] o.op \in {"isel", "isell"} ->
         HasDim(A, o.dim) /\ \A j \in DOMAIN o.ivals : o.ivals[j] < Len(A.coords[Pos(A, o.dim)])
    [] o.op = "broadcast" ->
         \A i \in DOMAIN A.dims : HasDim(A2, A.dims[i]) => A2.coords[Pos(A2, A.dims[i])] = A.coords[i]
    [] o.op \in {"join", "joinc"} ->
         /\ Len(A2.dims) = Len(A.dims)
         /\ \A i \in DOMAIN A.dims : A2.dims[i] = A.dims[i] /\ (A.dims[i] # o.dim => A2.coords[i] = A.coords[i])
         /\ (o.op = "joinc" => ~HasDim(A, o.dim))
         \* along an existing dimension only when it certainly carries a coordinate variable (labels other than 0..n-1)
         /\ (HasDim(A, o.dim) => A.coords[Pos(A, o.dim)] # Range0(Len(A.coords[Pos(A, o.dim)])))
    \* the same dimensions (in any order), the same sizes per dimension
    [] o.op \in ActionOps -> /\ Len(A2.dims) = Len(A.dims)
                             /\ \A i \in DOMAIN A.dims : HasDim(A2, A.dims[i]) /\ Len(A2.coords[Pos(A2, A.dims[i])]) = Len(A.coords[i])
                             /\ \A k \in DOMAIN A.val : A2.val[k].shape = A.val[1].shape /\ A.val[k].shape = A.val[1].shape
    [] o.op = "transform" -> ~HasDim(A, o.dim) /\ o.axis <= Len(A.dims)
    [] OTHER -> FALSE

\* the documented result
Expect(o, A, A2) ==
  CASE o.op \in Reductions ->
         LET p == Pos(A, o.dim)
             n == Len(A.coords[p])
         IN IF o.op \notin AnyBatch /\ o.n > 1 /\ o.n < n THEN Raise("ValueError")                     \* R2
            ELSE MkDen(IF o.keep THEN A.dims ELSE RemAt(A.dims, p),
                       IF o.keep THEN [A.coords EXCEPT ![p] = <<Free>>] ELSE RemAt(A.coords, p),         \* R1
                       LAMBDA idx : RedApply(o.op, [k \in 1..n |-> NodeAt(A, IF o.keep THEN [idx EXCEPT ![p] = k - 1]
                                                                                ELSE InsAt(idx, p, k - 1))], o.axis))
    [] o.op = "map" -> [A EXCEPT !.val = [k \in DOMAIN A.val |-> Binary("multiply", A.val[k], Scalar(QI(o.n)))]]
    [] o.op = "mapeach" -> [A EXCEPT !.val = [k \in DOMAIN A.val |-> Binary("add", A.val[k], Scalar(QI(k - 1)))]]
    [] o.op \in ScalarOps -> [A EXCEPT !.val = [k \in DOMAIN A.val |-> Binary(BinName(o.op), A.val[k], Scalar(QI(o.n)))]]
    [] o.op \in ActionOps ->                                                                               \* R7
         [A EXCEPT !.val = [k \in DOMAIN A.val |->
             LET idx == Unflat(k - 1, NShape(A))
             IN Binary(BinName(o.op), A.val[k], NodeAt(A2, [j \in DOMAIN A2.dims |-> idx[Pos(A, A2.dims[j])]]))]]
    [] o.op \in {"expand", "expandsel"} ->                                                                 \* R3
         LET idxs == IF o.op = "expandsel" THEN o.ivals ELSE [j \in 1..o.n |-> j - 1]
             size == Len(idxs)
             labels == IF o.cvals # <<>> THEN Strs(o.cvals) ELSE Range0(size)
         IN IF size = 1 THEN [A EXCEPT !.val = [k \in DOMAIN A.val |-> Take(A.val[k], idxs[1], o.idim)]]
            ELSE MkDen(InsAt(A.dims, o.axis + 1, o.dim), InsAt(A.coords, o.axis + 1, labels),
                       LAMBDA idx : Take(NodeAt(A, RemAt(idx, o.axis + 1)), idxs[idx[o.axis + 1] + 1], o.idim))
    [] o.op = "transform" ->                                                                               \* R3
         LET size == Len(o.ivals)
             labels == IF o.cvals # <<>> THEN Strs(o.cvals) ELSE Range0(size)
         IN IF size = 1 THEN [A EXCEPT !.val = [k \in DOMAIN A.val |-> Binary("add", A.val[k], Scalar(QI(o.ivals[1])))]]
            ELSE MkDen(InsAt(A.dims, o.axis + 1, o.dim), InsAt(A.coords, o.axis + 1, labels),
                       LAMBDA idx : Binary("add", NodeAt(A, RemAt(idx, o.axis + 1)), Scalar(QI(o.ivals[idx[o.axis + 1] + 1]))))
    [] o.op \in {"select", "isel"} ->                                                                      \* R4
         LET p == Pos(A, o.dim)
             j == IF o.op = "isel" THEN o.ivals[1] + 1 ELSE IndexOf(A.coords[p], ToString(o.ivals[1]))
         IN MkDen(RemAt(A.dims, p), RemAt(A.coords, p), LAMBDA idx : NodeAt(A, InsAt(idx, p, j - 1)))
    [] o.op \in {"selectl", "isell"} ->
         LET p == Pos(A, o.dim)
             js == [i \in DOMAIN o.ivals |-> IF o.op = "isell" THEN o.ivals[i] + 1 ELSE IndexOf(A.coords[p], ToString(o.ivals[i]))]
         IN MkDen(A.dims, [A.coords EXCEPT ![p] = [i \in DOMAIN js |-> A.coords[p][js[i]]]],
                  LAMBDA idx : NodeAt(A, [idx EXCEPT ![p] = js[idx[p] + 1] - 1]))
    [] o.op = "broadcast" ->                                                                               \* R5 (one of the allowed orders)
         LET new == SelectSeq(A2.dims, LAMBDA d : ~HasDim(A, d))
         IN MkDen(A.dims \o new, A.coords \o [i \in DOMAIN new |-> A2.coords[Pos(A2, new[i])]],
                  LAMBDA idx : NodeAt(A, SubSeq(idx, 1, Len(A.dims))))
    [] o.op \in {"join", "joinc"} ->                                                                       \* R6
         IF HasDim(A, o.dim)
         THEN LET p == Pos(A, o.dim)
                  nA == Len(A.coords[p])
              IN MkDen(A.dims, [A.coords EXCEPT ![p] = A.coords[p] \o A2.coords[p]],
                       LAMBDA idx : IF idx[p] < nA THEN NodeAt(A, idx) ELSE NodeAt(A2, [idx EXCEPT ![p] = idx[p] - nA]))
         ELSE MkDen(<<o.dim>> \o A.dims, <<IF o.op = "joinc" THEN Strs(o.cvals) ELSE Range0(2)>> \o A.coords,
                    LAMBDA idx : IF idx[1] = 0 THEN NodeAt(A, Tail(idx)) ELSE NodeAt(A2, Tail(idx)))

\* operations whose documentation does not fix the order of the dimensions (R5, R6)
OrderFree(o, A) == o.op = "broadcast" \/ (o.op \in {"join", "joinc"} /\ ~HasDim(A, o.dim))

\* ------------------------------------------------------------------ comparison
LabelsOk(e, b) == IF e = <<Free>> THEN Len(b) = 1 ELSE e = b
\* B equals E up to the order of the dimensions: perm[i] = position in B of E's dimension i
PermOf(E, B) == [i \in DOMAIN E.dims |-> Pos(B, E.dims[i])]
SameDimSet(E, B) == /\ Len(E.dims) = Len(B.dims)
                    /\ \A i \in DOMAIN E.dims : HasDim(B, E.dims[i])
                    /\ \A i, j \in DOMAIN B.dims : i # j => B.dims[i] # B.dims[j]
Family(op) == CASE op \in {"sum", "prod", "min", "max", "rfirst"} -> "reduce"
                [] op \in ScalarOps -> "scalar_arithmetic"
                [] op \in ActionOps -> "action_arithmetic"
                [] op \in {"select", "selectl", "isel", "isell"} -> "select"
                [] op \in {"expand", "expandsel"} -> "expand"
                [] op \in {"join", "joinc"} -> "join"
                [] OTHER -> op
\* the class of parameters a clause is reported under (keys of findings are "<family>:<clause>:<class>")
Class(o, A) == IF o.op \in Reductions /\ HasDim(A, o.dim)
               THEN (IF o.n > 1 /\ o.n < Len(A.coords[Pos(A, o.dim)]) THEN "batched" ELSE "unbatched")
                    \o (IF o.keep THEN "+keep_dim" ELSE "")
               ELSE IF o.op = "joinc" THEN "coord" ELSE "any"
Contract(o, A, A2, B) ==
  LET E == Expect(o, A, A2)
      n(what) == {Family(o.op) \o ":" \o what \o ":" \o Class(o, A)}
      \* a list selection on a dimension that carries xarray's default labels may come back relabelled 0..m-1:
      \* a dimension without coordinate variable cannot be told from one labelled 0..n-1 in a denotation
      relabelled(i) == \/ /\ o.op \in {"selectl", "isell"} /\ A.coords[i] = Range0(Len(A.coords[i]))
                          /\ B.coords[i] = Range0(Len(E.coords[i]))
                       \* same reason (R7): the receiver may have no labels of its own on that dimension, then the operand's show
                       \/ /\ o.op \in ActionOps /\ A.coords[i] = Range0(Len(A.coords[i])) /\ B.coords[i] = A2.coords[i]
  IN IF IsRaise(E)
     THEN (IF "error" \in DOMAIN B /\ B.etype = E.raises THEN {} ELSE n("documented_error_not_raised"))
     \* NumPy itself has no value here (Err), or the exact value leaves TLC's integers (Undef): no claim, counted
     ELSE IF \E k \in DOMAIN E.val : IsErr(E.val[k]) \/ HasUndef(E.val[k]) THEN {"no_claim"}
     ELSE IF "error" \in DOMAIN B THEN n("raised")
     ELSE IF OrderFree(o, A)
     THEN (IF ~SameDimSet(E, B) THEN n("dims")
           ELSE LET pm == PermOf(E, B) IN
                IF \E i \in DOMAIN E.dims : ~LabelsOk(E.coords[i], B.coords[pm[i]]) THEN n("coords")
                ELSE IF \A k \in DOMAIN E.val :
                          LET idx == Unflat(k - 1, NShape(E))
                          IN NodeAt(B, [j \in DOMAIN B.dims |-> idx[CHOOSE i \in DOMAIN pm : pm[i] = j]]) = E.val[k]
                     THEN {} ELSE n("values"))
     ELSE IF B.dims # E.dims THEN n("dims")
     ELSE IF \E i \in DOMAIN E.dims : ~(LabelsOk(E.coords[i], B.coords[i]) \/ relabelled(i)) THEN n("coords")
     ELSE IF B.val # E.val THEN n("values") ELSE {}

\* ------------------------------------------------------------------ domain: sources
\* src = [dims, shape, nocoords, kind, off]: node number i (row-major, from 0) holds a vector of three small integers;
\* kind 1 has no zero entry (divisors); labels of dimension d are 10*d*(1..n) + off, or xarray's default when nocoords
SrcVec(kind, i) == IF kind = 0 THEN <<i + 1, 2 - i, (i * i) % 4>> ELSE <<i + 1, 0 - (i + 2), (i % 2) + 1>>
\* ord: the ORDER of the explicit labels along every dimension - "asc" 10,20,30  "desc" 30,20,10  "shuf" 30,10,20
\* (a node array is indexed by position; labels need not ascend, e.g. pressure levels 1000, 850, 500).  Every contract
\* takes the nodes in the coordinate ORDER OF THE NODE ARRAY and leaves the labels untouched.
Rank(ord, j, n) == CASE ord = "asc" -> j [] ord = "desc" -> n + 1 - j [] ord = "shuf" -> ((j + n - 2) % n) + 1
SrcCoords(s) == [d \in DOMAIN s.dims |-> [j \in 1..s.shape[d] |-> IF s.nocoords THEN j - 1 ELSE 10 * d * Rank(s.ord, j, s.shape[d]) + s.off]]
SrcDen(s) == [dims |-> s.dims, coords |-> [d \in DOMAIN s.dims |-> Strs(SrcCoords(s)[d])],
              val |-> [k \in 1..ProdSeq(s.shape) |-> IntArr(<<3>>, SrcVec(s.kind, k - 1))]]
SrcO(dims, shape, nc, ord) == [dims |-> dims, shape |-> shape, nocoords |-> nc, kind |-> 0, off |-> 0, ord |-> ord]
Src(dims, shape, nc) == SrcO(dims, shape, nc, "asc")
NoSrc == [dims |-> <<>>, shape |-> <<>>, nocoords |-> FALSE, kind |-> 0, off |-> 0, coords |-> <<>>]
SrcJson(s) == [dims |-> s.dims, shape |-> s.shape, nocoords |-> s.nocoords, coords |-> SrcCoords(s),
               vals |-> [k \in 1..ProdSeq(s.shape) |-> SrcVec(s.kind, k - 1)]]
Sources == IF Tier = "quick"
           THEN {Src(<<"x">>, <<2>>, FALSE), Src(<<"x">>, <<3>>, FALSE), Src(<<"x">>, <<4>>, FALSE), Src(<<"x">>, <<3>>, TRUE),
                 Src(<<"x", "y">>, <<2, 2>>, FALSE), Src(<<"x", "y">>, <<2, 3>>, FALSE), Src(<<"x", "y">>, <<2, 3>>, TRUE),
                 SrcO(<<"x">>, <<3>>, FALSE, "desc"), SrcO(<<"x">>, <<3>>, FALSE, "shuf"), SrcO(<<"x">>, <<4>>, FALSE, "shuf"),
                 SrcO(<<"x", "y">>, <<2, 3>>, FALSE, "shuf")}
           ELSE {Src(<<"x">>, <<2>>, FALSE), Src(<<"x">>, <<3>>, FALSE), Src(<<"x">>, <<4>>, FALSE), Src(<<"x">>, <<3>>, TRUE),
                 Src(<<"x">>, <<4>>, TRUE), Src(<<"x", "y">>, <<2, 2>>, FALSE), Src(<<"x", "y">>, <<2, 3>>, FALSE),
                 Src(<<"x", "y">>, <<2, 2>>, TRUE), Src(<<"x", "y">>, <<2, 3>>, TRUE), Src(<<"x", "y">>, <<3, 2>>, TRUE),
                 SrcO(<<"x">>, <<2>>, FALSE, "desc"), SrcO(<<"x">>, <<3>>, FALSE, "desc"), SrcO(<<"x">>, <<3>>, FALSE, "shuf"),
                 SrcO(<<"x">>, <<4>>, FALSE, "desc"), SrcO(<<"x">>, <<4>>, FALSE, "shuf"),
                 SrcO(<<"x", "y">>, <<2, 3>>, FALSE, "desc"), SrcO(<<"x", "y">>, <<2, 3>>, FALSE, "shuf"), SrcO(<<"x", "y">>, <<2, 2>>, FALSE, "desc")}
DeepSources == {s \in Sources : s.shape \in {<<3>>, <<2, 3>>} /\ (s.ord = "asc" \/ (Tier = "thorough" /\ s.ord = "shuf"))}

\* ------------------------------------------------------------------ domain: operations applicable to a denotation
O(op, dim, n, keep, axis, idim, ivals, cvals, other) ==
  [op |-> op, dim |-> dim, n |-> n, keep |-> keep, axis |-> axis, idim |-> idim, ivals |-> ivals, cvals |-> cvals, other |-> other]
StrToInt(s) == CHOOSE i \in 0..400 : ToString(i) = s
Known(D) == \A i \in DOMAIN D.coords : \A j \in DOMAIN D.coords[i] : D.coords[i][j] # Free
\* a second action with the dimensions of D: same labels except along `dim` (shifted by `shift`)
OtherLike(D, kind, dim, shift) ==
  [dims |-> D.dims, shape |-> NShape(D), nocoords |-> FALSE, kind |-> kind, off |-> 0,
   coords |-> [i \in DOMAIN D.dims |-> [j \in DOMAIN D.coords[i] |-> StrToInt(D.coords[i][j]) + (IF D.dims[i] = dim THEN shift ELSE 0)]]]
\* lvl "full": every function, every batch size 0..n+1, keep_dim both ways, every axis and position;
\* "mid" / "lite": thinned parameters (inner steps of deeper programs)
BatchSizes(n, lvl) == CASE lvl = "full" -> 0..(n + 1) [] lvl = "mid" -> {0, 2} [] OTHER -> {0}
Keeps(lvl) == IF lvl = "lite" THEN {FALSE} ELSE BOOLEAN
RedFns(lvl) == CASE lvl = "full" -> {"sum", "prod", "min", "max", "mean", "std"} [] lvl = "mid" -> {"sum", "max", "mean", "std"} [] OTHER -> {"sum"}
\* lvl "bcast": a 2-d receiver broadcast against an action that has the receiver's dimensions in the OPPOSITE order (alone,
\* or with a new dimension before / after them): xarray hands back a transposed view of the node array, and whatever
\* is applied next must still address every node by its coordinates
RevLike(D) == LET L == OtherLike(D, 1, "", 0) IN [L EXCEPT !.dims = Reverse(@), !.shape = Reverse(@), !.coords = Reverse(@)]
BcastOthers(D) == IF Len(D.dims) # 2 \/ HasDim(D, "w") \/ ~Known(D) THEN {} ELSE
  LET R == RevLike(D) IN
  {R, [R EXCEPT !.dims = <<"w">> \o @, !.shape = <<2>> \o @, !.coords = <<<<5, 6>>>> \o @],
      [R EXCEPT !.dims = @ \o <<"w">>, !.shape = @ \o <<2>>, !.coords = @ \o <<<<5, 6>>>>]}
BcastOps(D) == {O("broadcast", "", 0, FALSE, 0, 0, <<>>, <<>>, b) : b \in BcastOthers(D)}
\* lvl "wide": dimensions of 11..13 nodes, so that ONE node takes 11 or more inputs ("input10" sorts before "input2"):
\* the order-sensitive reductions un-batched (0, n, n+1) and batched with 11 per batch; sum as the commutative witness
WideDims(D) == {D.dims[i] : i \in {j \in DOMAIN D.dims : Len(D.coords[j]) >= 11}}
WideOps(D) == UNION {LET n == Len(D.coords[Pos(D, d)]) IN
       {O(f, d, bs, FALSE, 0, 0, <<>>, <<>>, NoSrc) : <<f, bs>> \in {"concatenate", "rfirst"} \X {0, 11, n, n + 1}}
  \cup {O(f, d, 11, TRUE, 0, 0, <<>>, <<>>, NoSrc) : f \in {"concatenate", "rfirst"}}
  \cup {O("stack", d, bs, FALSE, ax, 0, <<>>, <<>>, NoSrc) : <<bs, ax>> \in {0, 11, n + 1} \X (0..Len(D.val[1].shape))}
  \cup {O("flatten", d, 0, FALSE, ax, 0, <<>>, <<>>, NoSrc) : ax \in 0..Len(D.val[1].shape)}
  \cup {O("sum", d, bs, FALSE, 0, 0, <<>>, <<>>, NoSrc) : bs \in {0, 11}}
       : d \in WideDims(D)}
BigDims(D) == {D.dims[i] : i \in {j \in DOMAIN D.dims : Len(D.coords[j]) >= 2}}
VecLen(D) == IF D.val[1].shape = <<>> THEN 0 ELSE D.val[1].shape[1]
OpsFor(D, lvl, nc) ==
  LET nd == Len(D.dims)
      ish == D.val[1].shape
      full == lvl = "full"
      lite == lvl = "lite"
      size(d) == Len(D.coords[Pos(D, d)])
      label(d, j) == StrToInt(D.coords[Pos(D, d)][j])
      red(ops, lv) == UNION {{O(f, d, bs, kp, 0, 0, <<>>, <<>>, NoSrc) : <<f, bs, kp>> \in ops \X BatchSizes(size(d), lv) \X Keeps(lv)} : d \in BigDims(D)}
  IN IF ~SameArrShapes(D) THEN {} ELSE IF lvl = "wide" THEN WideOps(D) ELSE IF lvl = "bcast" THEN BcastOps(D)
     ELSE IF lvl = "bcast1" THEN {O("broadcast", "", 0, FALSE, 0, 0, <<>>, <<>>, RevLike(D))} ELSE
       red(RedFns(lvl), lvl)
  \cup (IF lite THEN {O("sum", d, 0, TRUE, 0, 0, <<>>, <<>>, NoSrc) : d \in BigDims(D)} ELSE {})
  \cup (IF full THEN red({"rmean", "rfirst"}, "full") ELSE {})
  \cup (IF Len(ish) >= 1 THEN red({"concatenate"}, IF full THEN "full" ELSE "lite") \cup (IF lite THEN {} ELSE red({"concatenate"}, "mid")) ELSE {})
  \cup UNION {{O("stack", d, bs, kp, ax, 0, <<>>, <<>>, NoSrc) : <<bs, kp, ax>> \in
                  (IF full THEN BatchSizes(size(d), "full") \X BOOLEAN \X (0..Len(ish)) ELSE {0} \X {FALSE} \X (IF lite THEN {0} ELSE 0..Len(ish)))}
              : d \in BigDims(D)}
  \cup (IF full THEN UNION {{O("flatten", d, 0, FALSE, ax, 0, <<>>, <<>>, NoSrc) : ax \in 0..Len(ish)} : d \in BigDims(D)} ELSE {})
  \cup (IF lite THEN {} ELSE {O("map", "", 2, FALSE, 0, 0, <<>>, <<>>, NoSrc)})
  \cup (IF full THEN {O("mapeach", "", 0, FALSE, 0, 0, <<>>, <<>>, NoSrc)} ELSE {})
  \cup {O(op, "", k, FALSE, 0, 0, <<>>, <<>>, NoSrc) : <<op, k>> \in
          (CASE full -> (ScalarOps \X {2}) \cup {<<"subtract", 0 - 1>>} [] lite -> {<<"divide", 2>>} [] OTHER -> {<<"divide", 2>>, <<"power", 2>>})}
  \* expand along the internal dimension: every size and position (full), Coord forms
  \cup (IF Len(ish) = 0 \/ HasDim(D, "z") THEN {} ELSE
          {O("expand", "z", sz, FALSE, ax, 0, <<>>, <<>>, NoSrc) : <<sz, ax>> \in
               (IF full THEN 1..VecLen(D) ELSE {VecLen(D)}) \X (IF lite THEN {0} ELSE 0..nd)}
     \cup (IF lite THEN {} ELSE {O("expand", "z", 2, FALSE, nd, 0, <<>>, <<7, 8>>, NoSrc)})
     \cup (IF full THEN {O("expandsel", "z", 0, FALSE, ax, 0, <<VecLen(D) - 1, 0>>, <<>>, NoSrc) : ax \in {0, nd}}
                    \cup {O("expandsel", "z", 0, FALSE, 0, 0, <<VecLen(D) - 1, 0>>, <<7, 8>>, NoSrc)}
                    \cup (IF Len(ish) >= 2 THEN {O("expand", "z", ish[2], FALSE, 0, 1, <<>>, <<>>, NoSrc)} ELSE {})
           ELSE {}))
  \cup (IF lite \/ HasDim(D, "t") THEN {} ELSE
          {O("transform", "t", 0, FALSE, ax, 0, ps, <<>>, NoSrc) : <<ax, ps>> \in (0..nd) \X (IF full THEN {<<1, 2>>, <<3>>, <<1, 0 - 1, 2>>} ELSE {<<1, 2>>})}
     \cup {O("transform", "t", 0, FALSE, nd, 0, <<1, 2>>, <<7, 8>>, NoSrc)})
  \* selections by label (labels known) and by position
  \cup (IF lite \/ ~Known(D) THEN {} ELSE UNION {
          {O("select", d, 0, dr, 0, 0, <<label(d, j)>>, <<>>, NoSrc) : <<j, dr>> \in (IF full THEN 1..size(d) ELSE {size(d)}) \X (IF full THEN BOOLEAN ELSE {FALSE})}
     \cup {O("selectl", d, 0, FALSE, 0, 0, <<label(d, size(d)), label(d, 1)>>, <<>>, NoSrc)}
     \cup {O("isel", d, 0, dr, 0, 0, <<j - 1>>, <<>>, NoSrc) : <<j, dr>> \in (IF full THEN 1..size(d) ELSE {1}) \X (IF full THEN BOOLEAN ELSE {TRUE})}
     \cup {O("isell", d, 0, FALSE, 0, 0, js, <<>>, NoSrc) : js \in (IF full THEN {<<size(d) - 1, 0>>, <<0>>} ELSE {<<size(d) - 1, 0>>})}
          : d \in BigDims(D)})
  \cup (IF lite /\ nd >= 1 THEN {O("isel", D.dims[1], 0, FALSE, 0, 0, <<0>>, <<>>, NoSrc)} ELSE {})
  \* operations with a second action (labels known, source with coordinates, 3-vectors in the nodes)
  \cup (IF lite \/ nc \/ ~Known(D) \/ nd = 0 \/ ish # <<3>> THEN {} ELSE
          {O(op, "", 0, FALSE, 0, 0, <<>>, <<>>, OtherLike(D, 1, D.dims[1], sh)) : <<op, sh>> \in
             (IF full THEN ActionOps \X {0, 1} ELSE {<<"add_a", 1>>, <<"divide_a", 0>>})}
     \* the other action with the dimensions in the opposite order
     \cup (IF full /\ nd = 2 THEN {O(op, "", 0, FALSE, 0, 0, <<>>, <<>>, RevLike(D)) : op \in {"subtract_a", "divide_a"}} \cup BcastOps(D) ELSE {})
     \cup {O("join", d, 0, FALSE, 0, 0, <<>>, <<>>, OtherLike(D, 1, d, 100)) : d \in {e \in BigDims(D) : D.coords[Pos(D, e)] # Range0(size(e))}}
     \cup (IF HasDim(D, "n") THEN {} ELSE {O("join", "n", 0, FALSE, 0, 0, <<>>, <<>>, OtherLike(D, 1, "", 0)),
                                            O("joinc", "n", 0, FALSE, 0, 0, <<>>, <<7, 8>>, OtherLike(D, 1, "", 0))})
     \* broadcast against an action that has: the same dims plus a new one last / first, only a new one (2 or 4 entries)
     \cup {O("broadcast", "", 0, FALSE, 0, 0, <<>>, <<>>, b) : b \in
             IF HasDim(D, "w") THEN {} ELSE
             LET L == OtherLike(D, 1, "", 0) IN
             {[L EXCEPT !.dims = @ \o <<"w">>, !.shape = @ \o <<2>>, !.coords = @ \o <<<<5, 6>>>>],
              [L EXCEPT !.dims = <<"w">> \o @, !.shape = <<2>> \o @, !.coords = <<<<5, 6>>>> \o @]}
             \cup (IF full THEN {[L EXCEPT !.dims = <<"w">>, !.shape = <<2>>, !.coords = <<<<5, 6>>>>],
                                 [L EXCEPT !.dims = <<"w">>, !.shape = <<4>>, !.coords = <<<<5, 6, 7, 8>>>>]} ELSE {})})

\* ------------------------------------------------------------------ domain: programs
\* a program is [src, ops]; the model's own chain of denotations tells which operations apply next
OtherDen(o) == [dims |-> o.other.dims, coords |-> [i \in DOMAIN o.other.dims |-> Strs(o.other.coords[i])],
                val |-> [k \in 1..ProdSeq(o.other.shape) |-> IntArr(<<3>>, SrcVec(o.other.kind, k - 1))]]
Step(o, D) == Expect(o, D, IF o.other = NoSrc THEN D ELSE OtherDen(o))
RECURSIVE Extend(_, _, _, _)
\* all op sequences of exactly Len(lvls) operations from denotation D; std ends a program (its values are irrational);
\* nc: no operation with a second action from here on
Extend(D, lvls, nc, sofar) ==
  IF lvls = <<>> THEN {sofar}
  ELSE UNION {LET E == Step(o, D)
              IN IF Len(lvls) = 1 THEN {sofar \o <<o>>}
                 ELSE IF IsRaise(E) \/ o.op = "std" THEN {}
                 ELSE IF \E k \in DOMAIN E.val : IsErr(E.val[k]) THEN {}
                 \* after an operation whose dimension order is free, no operation with a second action (its dims are positional)
                 ELSE Extend(E, Tail(lvls), nc \/ OrderFree(o, D), sofar \o <<o>>)
              : o \in OpsFor(D, Head(lvls), nc)}
Progs(srcs, lvls) == UNION {{[src |-> s, ops |-> p] : p \in Extend(SrcDen(s), lvls, s.nocoords, <<>>)} : s \in srcs}
\* depth 1: everything; deeper: thinned inner parameters (quick: lite.mid; thorough: lite.full, mid.mid, lite.lite.mid)
BcastSources == {s \in Sources : s.shape = <<2, 3>> /\ ~s.nocoords} \cup (IF Tier = "quick" THEN {} ELSE {Src(<<"x", "y">>, <<3, 2>>, FALSE)})
WideSources == {Src(<<"x">>, <<11>>, FALSE), SrcO(<<"x">>, <<12>>, FALSE, "shuf"), Src(<<"x">>, <<13>>, TRUE)}
               \cup (IF Tier = "quick" THEN {} ELSE {SrcO(<<"x">>, <<13>>, FALSE, "desc"), Src(<<"x", "y">>, <<2, 11>>, FALSE),
                                                     Src(<<"x", "y">>, <<12, 2>>, TRUE)})
Programs(tier) ==
     Progs(Sources, <<"full">>)
  \cup Progs(WideSources, <<"wide">>)
  \cup (IF tier = "quick" THEN Progs({s \in BcastSources : s.ord = "asc"}, <<"bcast", "mid">>)
                             \cup Progs({s \in BcastSources : s.ord = "asc"}, <<"bcast1", "lite", "lite">>)
        ELSE Progs(BcastSources, <<"bcast", "mid">>) \cup Progs(BcastSources, <<"bcast", "lite", "lite">>))
  \cup (IF tier = "quick" THEN Progs(DeepSources, <<"lite", "mid">>)
        ELSE Progs(DeepSources, <<"lite", "full">>) \cup Progs({s \in DeepSources : ~s.nocoords}, <<"mid", "mid">>)
             \cup Progs(DeepSources, <<"lite", "lite", "mid">>))

OpJson(o) == [o EXCEPT !.other = IF o.other = NoSrc THEN [none |-> TRUE]
                                 ELSE [dims |-> o.other.dims, shape |-> o.other.shape, nocoords |-> FALSE, coords |-> o.other.coords,
                                       vals |-> [k \in 1..ProdSeq(o.other.shape) |-> SrcVec(o.other.kind, k - 1)]]]
FGenerate == IOEnv.PASS = "fgenerate" =>
  LET ps == SetToSeq(Programs(Tier))
  IN JsonSerialize(IOEnv.CASES_FILE, [i \in 1..Len(ps) |-> [src |-> SrcJson(ps[i].src), ops |-> [j \in DOMAIN ps[i].ops |-> OpJson(ps[i].ops[j])]]])

\* ------------------------------------------------------------------ judge: the contract of every logged step
\* results[i] = <<step_1, ..>>, step = [a |-> den, a2 |-> den | [none], b |-> den | [error, etype]],
\* den = [dims, coords, val |-> <<[shape, data |-> <<<<num, den>>..>>]>>]
ImplDen(r) == [dims |-> AsSeq(r.dims), coords |-> [i \in DOMAIN r.coords |-> AsSeq(r.coords[i])],
               val |-> [k \in DOMAIN r.val |-> ImplArr(r.val[k])]]
OpOf(j) == [op |-> j.op, dim |-> j.dim, n |-> j.n, keep |-> j.keep, axis |-> j.axis, idim |-> j.idim,
            ivals |-> AsSeq(j.ivals), cvals |-> AsSeq(j.cvals), other |-> NoSrc]
StepBad(c, r, j) ==
  LET st == r[j]
      o == OpOf(c.ops[j])
      A == ImplDen(st.a)
      A2 == IF "none" \in DOMAIN st.a2 THEN A ELSE ImplDen(st.a2)
      B == IF "error" \in DOMAIN st.b THEN st.b ELSE ImplDen(st.b)
  IN IF Applicable(o, A, A2) THEN Contract(o, A, A2, B) ELSE {"step_not_applicable"}
\* Only the first failing step of a program is reported: what follows starts from a denotation the documentation does
\* not cover (every operation is also the first step of other programs).  A step the contract cannot be stated for,
\* with nothing wrong before it, is a defect of this specification's domain ("step_not_applicable": machinery failure).
FJudge == IOEnv.PASS = "fjudge" =>
  LET cs == JsonDeserialize(IOEnv.CASES_FILE)
      rs == JsonDeserialize(IOEnv.RESULTS_FILE)
  IN \A i \in DOMAIN cs :
       LET sb == [j \in DOMAIN rs[i] |-> StepBad(cs[i], rs[i], j)]
           failing == {j \in DOMAIN sb : sb[j] \ {"no_claim"} # {}}
           bad == (IF failing = {} THEN {} ELSE sb[CHOOSE j \in failing : \A k \in failing : j <= k])
                  \cup (IF \E j \in DOMAIN sb : "no_claim" \in sb[j] THEN {"no_claim"} ELSE {})
       IN bad = {} \/ PrintT("B|" \o ToString(i) \o "|" \o ToString(bad))
=============================================================================
