-------------------------- MODULE MC_GatewayNewest --------------------------
(* Apalache wrapper: two jobs, EVERY natural time stamp, every integer value; IndInit = any state satisfying NIndInv with up to
   three (thorough tier: five) recorded reports per job. *)
EXTENDS Integers, FiniteSets, Apalache

CONSTANTS
  \* @type: Bool;
  StoresLastSeen

VARIABLES
  \* @type: Str -> Int;
  nprog,
  \* @type: Str -> Int;
  nlast,
  \* @type: Str -> Set({ts: Int, val: Int});
  nseen

Job == {"j1", "j2"}
Stamp == Nat
Val == Int
Before == -1
Started == -7
INSTANCE GatewayNewest

ConstInitT == StoresLastSeen = TRUE
ConstInitF == StoresLastSeen = FALSE
IndInit == /\ nprog = Gen(2)
           /\ nlast = Gen(2)
           /\ nseen = Gen(3)      \* history bound: the harness substitutes 5 in the thorough tier
           /\ DOMAIN nprog = Job /\ DOMAIN nlast = Job /\ DOMAIN nseen = Job
           /\ NIndInv
Goal == NIndInv /\ ShowsNewest
=============================================================================
