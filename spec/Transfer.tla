------------------------------ MODULE Transfer ------------------------------
(***************************************************************************)
(* The data-server protocol (cascade.executor.data_server.DataServer +     *)
(* comms.Listener / send_data): transmit and fetch commands, payload       *)
(* frames with Syn de-duplication and acks, confirmation bookkeeping with  *)
(* retry, stores into shared memory with the "already present" conflict    *)
(* path, and purge.                                                        *)
(*                                                                         *)
(* Hosts: data servers Src and Tgt (each can act in both roles) and the    *)
(* controller Ctl, which only receives fetch payloads through a Listener.  *)
(* One action per iteration of DataServer.recv_loop (one frame or none,    *)
(* followed by the retry scan), plus one action per completion of a        *)
(* thread-pool future (send_payload / store_payload), plus network faults  *)
(* and the passage of the confirmation grace period.                       *)
(***************************************************************************)
EXTENDS Naturals, Sequences, FiniteSets, TLC

CONSTANTS Host,        \* data servers, e.g. {"h0", "h1"}
          DSet,        \* dataset ids
          Cmds,        \* the commands the controller issues, in order: sequence of [k |-> "x"|"f"|"p", ds, src, tgt]
                       \*   "x" transmit src -> tgt, "f" fetch src -> controller, "p" purge at src
          Initial,     \* [Host -> SUBSET DSet] what each host's store holds initially
          Faults       \* budget of network faults

Ctl == "ctrl"
VARIABLES
  next,       \* index of the next command to issue
  store,      \* [Host -> [DSet -> "none" | "orig" | "dead"]]  ("orig" = the bytes+deser_fun of the source copy)
  awaiting,   \* [Host -> [idx -> [ds, tgt, at]]]  at \in {"inprog", "fresh", "stale"}
  futs,       \* [Host -> set of futures]: [k |-> "send", idx] | [k |-> "store", idx, ds]
  acks,       \* [Host -> set of idx]
  invalid,    \* [Host -> SUBSET DSet]
  seen,       \* [Host \cup {Ctl} -> set of Syn idx] Listener.acked of the data listener (per sender address: one sender per idx)
  net,        \* bag of frames: [k |-> "cmd", to, c] | [k |-> "payload", to, from, idx, ds, v] | [k |-> "ack", to, idx] | [k |-> "purge", to, ds]
  announced,  \* sequence of <<host, ds, idx>>: DatasetPublished sent to the executor
  fetched,    \* sequence of <<ds, v, idx>>: payloads handed to the controller
  failures,   \* set of strings: DatasetTransmitFailure / crashes of a data server
  blocked,    \* [Host -> dataset being purged (the loop waits for running futures) | ""]
  faults, last
vars == <<next, store, awaiting, futs, acks, invalid, seen, net, announced, fetched, failures, blocked, faults, last>>
view == <<next, store, awaiting, futs, acks, invalid, seen, net, announced, fetched, failures, blocked, faults>>

Count(b, f) == IF f \in DOMAIN b THEN b[f] ELSE 0
Put(b, f)   == [g \in DOMAIN b \cup {f} |-> Count(b, g) + (IF g = f THEN 1 ELSE 0)]
Take(b, f)  == [g \in {h \in DOMAIN b : h # f \/ b[h] > 1} |-> IF g = f THEN b[g] - 1 ELSE b[g]]
Empty == [f \in {} |-> 0]
Rng(s) == {s[i] : i \in 1..Len(s)}

Init ==
  /\ next = 1
  /\ store = [h \in Host |-> [d \in DSet |-> IF d \in Initial[h] THEN "orig" ELSE "none"]]
  /\ awaiting = [h \in Host |-> Empty] /\ futs = [h \in Host |-> {}] /\ acks = [h \in Host |-> {}]
  /\ invalid = [h \in Host |-> {}] /\ seen = [h \in Host \cup {Ctl} |-> {}]
  /\ blocked = [h \in Host |-> ""] /\ net = Empty /\ announced = <<>> /\ fetched = <<>> /\ failures = {} /\ faults = 0 /\ last = <<"Init">>

\* the controller issues its next command (Bridge.transmit / fetch -> data server; purge -> executor -> data server)
\* what the controller knows (C04 is its obligation): a command names a source that announced the dataset, and a purge
\* is commanded only when every earlier command reading that dataset from that host was answered
Answered(i) == LET c == Cmds[i] IN
  IF c.k = "x" THEN (\E a \in 1..Len(announced) : announced[a] = <<c.tgt, c.ds, i>>) \/ (i \in seen[c.tgt] /\ ~\E f \in futs[c.tgt] : f.k = "store" /\ f.idx = i)
  ELSE IF c.k = "f" THEN \E a \in 1..Len(fetched) : fetched[a][3] = i
  ELSE TRUE
Known(h, d) == d \in Initial[h] \/ \E a \in 1..Len(announced) : announced[a][1] = h /\ announced[a][2] = d
Ready(i) == LET c == Cmds[i] IN
  IF c.k = "p" THEN \A j \in 1..(i - 1) : (Cmds[j].k # "p" /\ Cmds[j].src = c.src /\ Cmds[j].ds = c.ds) => Answered(j)
  ELSE Known(c.src, c.ds) /\ c.ds \notin invalid[c.src] /\ ~\E j \in 1..(i - 1) : Cmds[j].k = "p" /\ Cmds[j].src = c.src /\ Cmds[j].ds = c.ds

Issue ==
  /\ next <= Len(Cmds) /\ Ready(next)
  /\ LET c == Cmds[next] IN
     net' = Put(net, IF c.k = "p" THEN [k |-> "purge", to |-> c.src, ds |-> c.ds]
                     ELSE [k |-> "cmd", to |-> c.src, idx |-> next, ds |-> c.ds, tgt |-> c.tgt])
  /\ next' = next + 1 /\ last' = <<"Issue", next>>
  /\ UNCHANGED <<store, awaiting, futs, acks, invalid, seen, announced, fetched, failures, faults, blocked>>

\* ---- completion of a future (the body of send_payload / store_payload)
SendEffect(h, idx, st, nt, fl) ==   \* returns [net, failures] after running send_payload(command idx) at h with store st
  LET a == awaiting[h][idx] IN
  IF st[h][a.ds] = "none"
  THEN [net |-> nt, failures |-> fl \cup {"send_failed_not_in_store"}]
  ELSE [net |-> Put(nt, [k |-> "payload", to |-> a.tgt, from |-> h, idx |-> idx, ds |-> a.ds, v |-> st[h][a.ds]]), failures |-> fl]

SendDone(h, idx) ==
  /\ [k |-> "send", idx |-> idx] \in futs[h]
  /\ LET r == SendEffect(h, idx, store, net, failures) IN
     /\ net' = r.net /\ failures' = r.failures
  /\ futs' = [futs EXCEPT ![h] = @ \ {[k |-> "send", idx |-> idx]}]
  /\ awaiting' = [awaiting EXCEPT ![h] = IF idx \in DOMAIN @ THEN [@ EXCEPT ![idx].at = "fresh"] ELSE @]
  /\ last' = <<"SendDone", h, idx>>
  /\ UNCHANGED <<next, store, acks, invalid, seen, announced, fetched, faults, blocked>>

StoreDone(h, f) ==
  /\ f \in futs[h] /\ f.k = "store"
  /\ futs' = [futs EXCEPT ![h] = @ \ {f}]
  /\ IF store[h][f.ds] # "none"
     THEN UNCHANGED <<store, announced>>                     \* ConflictError: presumably already there; silent
     ELSE /\ store' = [store EXCEPT ![h][f.ds] = f.v]
          /\ announced' = Append(announced, <<h, f.ds, f.idx>>)
  /\ last' = <<"StoreDone", h, f.idx>>
  /\ UNCHANGED <<next, awaiting, acks, invalid, seen, net, fetched, failures, faults, blocked>>

\* ---- the retry scan at the end of every loop iteration (data_server.py:274-298), applied to bookkeeping (aw, fu)
RECURSIVE Scan(_, _, _, _, _)
Scan(h, todo, aw, fu, ak) ==     \* todo: stale idx still to visit (ascending); ak = acks[h]; invalid as of now
  IF todo = {} THEN [aw |-> aw, fu |-> fu]
  ELSE LET i == CHOOSE j \in todo : \A m \in todo : j <= m
           rest == todo \ {i}
       IN IF i \in ak THEN Scan(h, rest, [j \in DOMAIN aw \ {i} |-> aw[j]], fu, ak)
          ELSE IF aw[i].ds \in invalid'[h] THEN Scan(h, rest, [j \in DOMAIN aw \ {i} |-> aw[j]], fu, ak)
          ELSE Scan(h, rest, [aw EXCEPT ![i].at = "inprog"], fu \cup {[k |-> "send", idx |-> i]}, ak)
StaleOf(aw) == {i \in DOMAIN aw : aw[i].at = "stale"}

\* ---- one iteration of h's recv_loop on frame f (or none)
Loop(h, f) ==
  /\ "crashed:" \o h \notin failures /\ blocked[h] = ""
  /\ f.k = "none" \/ (Count(net, f) > 0 /\ f.to = h)
  /\ LET net1 == IF f.k = "none" THEN net ELSE Take(net, f) IN
     \/ /\ f.k = "none"
        /\ invalid' = invalid /\ acks' = acks /\ seen' = seen /\ net' = net1
        /\ LET r == Scan(h, StaleOf(awaiting[h]), awaiting[h], futs[h], acks[h]) IN
           awaiting' = [awaiting EXCEPT ![h] = r.aw] /\ futs' = [futs EXCEPT ![h] = r.fu]
        /\ UNCHANGED <<store, announced, fetched, failures>>
     \/ /\ f.k = "cmd"        \* DatasetTransmitCommand (sent through the controller's ReliableSender: assumed exactly once)
        /\ IF f.idx \in DOMAIN awaiting[h] \/ f.ds \in invalid[h]
           THEN /\ failures' = failures \cup {"crashed:" \o h}      \* the loop raises: the data server dies
                /\ net' = net1
                /\ UNCHANGED <<awaiting, futs, acks, invalid, seen, store, announced, fetched>>
           ELSE /\ invalid' = invalid /\ acks' = acks /\ seen' = seen /\ net' = net1
                /\ LET aw1 == [j \in DOMAIN awaiting[h] \cup {f.idx} |->
                                 IF j = f.idx THEN [ds |-> f.ds, tgt |-> f.tgt, at |-> "inprog"] ELSE awaiting[h][j]]
                       r == Scan(h, StaleOf(aw1), aw1, futs[h] \cup {[k |-> "send", idx |-> f.idx]}, acks[h])
                   IN awaiting' = [awaiting EXCEPT ![h] = r.aw] /\ futs' = [futs EXCEPT ![h] = r.fu]
                /\ UNCHANGED <<store, announced, fetched, failures>>
     \/ /\ f.k = "payload"    \* Listener: always ack; deliver only an unseen Syn; then DataServer: ignore if purged, else store
        /\ invalid' = invalid /\ acks' = acks
        /\ seen' = [seen EXCEPT ![h] = @ \cup {f.idx}]
        /\ net' = Put(net1, [k |-> "ack", to |-> f.from, idx |-> f.idx])
        /\ LET deliver == f.idx \notin seen[h] /\ f.ds \notin invalid[h]
               fu1 == IF deliver THEN futs[h] \cup {[k |-> "store", idx |-> f.idx, ds |-> f.ds, v |-> f.v]} ELSE futs[h]
               \* (an already-acked payload makes recv_messages stop early: no effect on state)
               r == Scan(h, StaleOf(awaiting[h]), awaiting[h], fu1, acks[h])
           IN awaiting' = [awaiting EXCEPT ![h] = r.aw] /\ futs' = [futs EXCEPT ![h] = r.fu]
        /\ UNCHANGED <<store, announced, fetched, failures>>
     \/ /\ f.k = "ack"
        /\ invalid' = invalid /\ seen' = seen /\ net' = net1
        /\ acks' = [acks EXCEPT ![h] = @ \cup {f.idx}]
        /\ LET r == Scan(h, StaleOf(awaiting[h]), awaiting[h], futs[h], acks[h] \cup {f.idx}) IN
           awaiting' = [awaiting EXCEPT ![h] = r.aw] /\ futs' = [futs EXCEPT ![h] = r.fu]
        /\ UNCHANGED <<store, announced, fetched, failures>>
     \/ /\ f.k = "purge"      \* DatasetPurge: the loop blocks in wait(ALL_COMPLETED) until every running future is done
        /\ blocked' = [blocked EXCEPT ![h] = f.ds] /\ net' = net1
        /\ UNCHANGED <<awaiting, futs, acks, invalid, seen, store, announced, fetched, failures>>
  /\ f.k # "purge" => UNCHANGED blocked
  /\ last' = <<"Loop", h, f>>
  /\ UNCHANGED <<next, faults>>

\* the rest of the purge handler once no future is running: invalidate confirmations of that dataset, purge shm, mark invalid,
\* then the retry scan of that iteration
PurgeFinish(h) ==
  /\ blocked[h] # "" /\ futs[h] = {}
  /\ LET d == blocked[h]
         aw1 == [j \in {i \in DOMAIN awaiting[h] : awaiting[h][i].ds # d} |-> awaiting[h][j]]
     IN /\ invalid' = [invalid EXCEPT ![h] = @ \cup {d}]
        /\ store' = [store EXCEPT ![h][d] = "none"]
        /\ LET r == Scan(h, StaleOf(aw1), aw1, {}, acks[h]) IN
           awaiting' = [awaiting EXCEPT ![h] = r.aw] /\ futs' = [futs EXCEPT ![h] = r.fu]
  /\ blocked' = [blocked EXCEPT ![h] = ""]
  /\ last' = <<"PurgeFinish", h>>
  /\ UNCHANGED <<next, acks, seen, net, announced, fetched, failures, faults>>

\* the controller's Listener receives a fetch payload: ack, de-duplicate, hand to the controller
CtlRecv(f) ==
  /\ Count(net, f) > 0 /\ f.k = "payload" /\ f.to = Ctl
  /\ net' = Put(Take(net, f), [k |-> "ack", to |-> f.from, idx |-> f.idx])
  /\ seen' = [seen EXCEPT ![Ctl] = @ \cup {f.idx}]
  /\ fetched' = IF f.idx \in seen[Ctl] THEN fetched ELSE Append(fetched, <<f.ds, f.v, f.idx>>)
  /\ last' = <<"CtlRecv", f>>
  /\ UNCHANGED <<next, store, awaiting, futs, acks, invalid, announced, failures, faults, blocked>>

\* the confirmation grace period (4 s) elapses
Tick ==
  /\ \E h \in Host : \E i \in DOMAIN awaiting[h] : awaiting[h][i].at = "fresh"
  /\ awaiting' = [h \in Host |-> [i \in DOMAIN awaiting[h] |->
                     IF awaiting[h][i].at = "fresh" THEN [awaiting[h][i] EXCEPT !.at = "stale"] ELSE awaiting[h][i]]]
  /\ last' = <<"Tick">>
  /\ UNCHANGED <<next, store, futs, acks, invalid, seen, net, announced, fetched, failures, faults, blocked>>

\* payload and ack frames may be lost or duplicated (commands and purges travel through the acknowledged layer, C06)
Lossy(f) == f.k \in {"payload", "ack"}
Drop(f) == /\ faults < Faults /\ Count(net, f) > 0 /\ Lossy(f) /\ net' = Take(net, f) /\ faults' = faults + 1
           /\ last' = <<"Drop", f>>
           /\ UNCHANGED <<next, store, awaiting, futs, acks, invalid, seen, announced, fetched, failures, blocked>>
Dup(f)  == /\ faults < Faults /\ Count(net, f) > 0 /\ Lossy(f) /\ net' = Put(net, f) /\ faults' = faults + 1
           /\ last' = <<"Dup", f>>
           /\ UNCHANGED <<next, store, awaiting, futs, acks, invalid, seen, announced, fetched, failures, blocked>>

NoneF == [k |-> "none"]
Next == \/ Issue
        \/ \E h \in Host : \E i \in DOMAIN awaiting[h] : SendDone(h, i)
        \/ \E h \in Host : \E f \in futs[h] : StoreDone(h, f)
        \/ \E h \in Host : PurgeFinish(h)
        \/ \E h \in Host : Loop(h, NoneF)
        \/ \E h \in Host : \E f \in DOMAIN net : Loop(h, f)
        \/ \E f \in DOMAIN net : CtlRecv(f)
        \/ Tick
        \/ \E f \in DOMAIN net : Drop(f)
        \/ \E f \in DOMAIN net : Dup(f)
Spec == Init /\ [][Next]_vars
Fair == /\ WF_vars(Issue) /\ WF_vars(Tick)
        /\ \A h \in Host : WF_vars(\E i \in DOMAIN awaiting[h] : SendDone(h, i))
        /\ \A h \in Host : WF_vars(\E f \in futs[h] : StoreDone(h, f))
        /\ \A h \in Host : WF_vars(PurgeFinish(h))
        /\ \A h \in Host : WF_vars(Loop(h, NoneF)) /\ WF_vars(\E f \in DOMAIN net : Loop(h, f))
        /\ WF_vars(\E f \in DOMAIN net : CtlRecv(f))
FairSpec == Spec /\ Fair

(***************************************************************************)
(* C07                                                                     *)
(***************************************************************************)
\* a stored copy has exactly the source's bytes and decoding function
BytesEqual == \A h \in Host, d \in DSet : store[h][d] \in {"none", "orig"}
\* arrival announced at most once per (host, dataset)
AnnounceOnce == \A a, b \in 1..Len(announced) : a # b => <<announced[a][1], announced[a][2]>> # <<announced[b][1], announced[b][2]>>
\* an announcement means the dataset is (or was, until purged) really in that host's store
AnnouncedIsStored == \A a \in 1..Len(announced) : store[announced[a][1]][announced[a][2]] = "orig" \/ announced[a][2] \in invalid[announced[a][1]]
\* payloads arriving after a purge never resurrect the dataset
NoResurrection == \A h \in Host : \A d \in invalid[h] : store[h][d] = "none"
\* a fetch delivers the source's bytes, once per command
FetchExact == /\ \A a \in 1..Len(fetched) : fetched[a][2] = "orig"
              /\ \A a, b \in 1..Len(fetched) : a # b => fetched[a][3] # fetched[b][3]
\* with the design (purge waits) no future ever runs against a purged store and no data server dies,
\* as long as the controller respects C04 (the command sequences of the instances do)
NoFailure == failures = {}
\* every transfer / fetch commanded (and not overtaken by a purge) completes
Completed(i) == LET c == Cmds[i] IN
   IF c.k = "x" THEN store[c.tgt][c.ds] = "orig" \/ c.ds \in invalid[c.tgt] \/ c.ds \in invalid[c.src]
   ELSE IF c.k = "f" THEN (\E a \in 1..Len(fetched) : fetched[a][3] = i) \/ c.ds \in invalid[c.src]
   ELSE c.ds \in invalid[c.src]
EventuallyDone == <>[](\A i \in 1..Len(Cmds) : Completed(i))
TypeOK == next \in 1..(Len(Cmds) + 1)
\* model bound (state constraint): at most two identical frames in flight (retries would make the bag unbounded)
NetBounded == \A f \in DOMAIN net : net[f] <= 2
=============================================================================
