------------------------------- MODULE Builder -------------------------------
(***************************************************************************)
(* C19: cascade.low.builders.  A job accepted by JobBuilder.build() is     *)
(* well formed, a rejected one comes back as a non-empty list of problems  *)
(* (build never raises), values bound with TaskBuilder.with_values sit     *)
(* under exactly the positions/names given, and nothing built earlier is   *)
(* changed by later builder calls.  Binding pattern P3: TLC enumerates the *)
(* descriptions below, the harness synthesises the callables (`def f(...)` *)
(* from the parameter descriptors), drives the real builders and dumps     *)
(* what they return; TLC evaluates Post on every (case, result).           *)
(*                                                                         *)
(* Parameter = [name, kind in {"pk" positional-or-keyword, "ko" keyword-   *)
(* only}, ann in {"" (absent), "int", "str"}, dflt = a value or NoVal].    *)
(* Value = [t |-> "int"|"str", v |-> text] (everything is text: TLC cannot *)
(* compare an integer with a string).                                      *)
(*                                                                         *)
(* Two families of cases:                                                  *)
(*  "bind"  one task from a callable with <= MaxPB parameters, with_values *)
(*          with a positional prefix and a keyword subset of the remaining *)
(*          parameters (in one call, or split over two calls), then a      *)
(*          one-task job;                                                  *)
(*  "edge"  task t1 (no parameters, return annotation absent/int/str) and  *)
(*          task t2 (<= MaxP parameters without defaults), one or two      *)
(*          edges whose source task, source output, sink task and sink     *)
(*          parameter each exist or dangle, keyword or positional.         *)
(***************************************************************************)
EXTENDS Naturals, Sequences, FiniteSets, TLC, Json, IOUtils, SequencesExt

CONSTANTS MaxP,       \* "edge" cases: the consumer has 0..MaxP parameters
          MaxP2,      \* two-edge cases use consumers with up to MaxP2 parameters
          MaxPB,      \* "bind" cases: callables with 0..MaxPB parameters, defaults absent/5/'d'
          MaxPB0,     \* "bind" cases: additionally callables with up to MaxPB0 parameters, none with a default
          NVals,      \* 2 or 3 distinct values to bind
          Lean        \* 1 (quick): two-parameter "bind" callables leave the second parameter un-annotated, two-edge cases use a
                      \* producer annotated absent/int and a consumer with positional-or-keyword parameters only; 0: no such cut

\* ---------------------------------------------------------------- domain
PNames == <<"a", "b", "c">>
Anns == {"", "int", "str"}                        \* annotations of "bind" cases
\* annotations of one-edge cases (producer: always; consumer: when it has one parameter; else Anns): two of them are related by subclassing to int (bool below, object above), str is unrelated
EAnns == {"", "int", "str", "bool", "object"}
\* declared type t1 is the type t2 or a subclass of it (Python: bool <= int <= object, str <= object)
SubType(t1, t2) == t1 = t2 \/ t2 = "object" \/ (t1 = "bool" /\ t2 = "int")
NoVal == [t |-> "none", v |-> ""]
DefaultVals == {[t |-> "int", v |-> "5"], [t |-> "str", v |-> "d"]}
GivenVals == {[t |-> "int", v |-> "1"], [t |-> "str", v |-> "kv"]} \cup (IF NVals >= 3 THEN {[t |-> "str", v |-> "v"]} ELSE {})

\* a parameter list is valid Python: positional-or-keyword before keyword-only; among positional-or-keyword no parameter
\* without default after one with default
ValidParams(ps) ==
  /\ \A i, j \in DOMAIN ps : i < j /\ ps[i].kind = "ko" => ps[j].kind = "ko"
  /\ \A i, j \in DOMAIN ps : i < j /\ ps[i].kind = "pk" /\ ps[j].kind = "pk" /\ ps[i].dflt # NoVal => ps[j].dflt # NoVal
ParamChoices(i, anns, dflts) == {[name |-> PNames[i], kind |-> k, ann |-> a, dflt |-> d] : k \in {"pk", "ko"}, a \in anns, d \in dflts}
RECURSIVE ParamSeqs(_, _, _)
ParamSeqs(n, anns, dflts) == IF n = 0 THEN {<<>>} ELSE {Append(s, p) : s \in ParamSeqs(n - 1, anns, dflts), p \in ParamChoices(n, anns, dflts)}
ParamLists(maxn, anns, dflts) == {ps \in UNION {ParamSeqs(n, anns, dflts) : n \in 0..maxn} : ValidParams(ps)}

\* parameters of the callable that can NOT be bound by name and must therefore not show up in the input schema: a leading
\* positional-only parameter, *args, **kwargs ("" = absent, else the parameter's name; "zz" is also the name the dangling
\* keyword edges use)
NoDecor == [po |-> "", va |-> "", vk |-> ""]
Decors == {[po |-> po, va |-> va, vk |-> vk] : po \in {"", "p0"}, va \in {"", "args", "zz"}, vk \in {"", "kwargs"}}

NPk(ps) == Cardinality({i \in DOMAIN ps : ps[i].kind = "pk"})
RECURSIVE ValSeqs(_)
ValSeqs(n) == IF n = 0 THEN {<<>>} ELSE {Append(s, v) : s \in ValSeqs(n - 1), v \in GivenVals}
\* keyword bindings for the parameters after the positional prefix: each absent (NoVal) or given
KwChoices(ps, k) == [{ps[i].name : i \in (k + 1)..Len(ps)} -> GivenVals \cup {NoVal}]
\* the return annotation only shows in the schema: both variants when nothing is bound, absent otherwise
Rets(args, kw) == IF args = <<>> /\ \A nm \in DOMAIN kw : kw[nm] = NoVal THEN {"", "int"} ELSE {""}
BindOf(ps) == UNION {UNION {{[kind |-> "bind", params |-> ps, decor |-> NoDecor, ret |-> r, args |-> args, kw |-> kw, split |-> sp]
                               : r \in Rets(args, kw), sp \in (IF k > 0 THEN {FALSE, TRUE} ELSE {FALSE})}
                              : args \in ValSeqs(k), kw \in KwChoices(ps, k)} : k \in 0..NPk(ps)}
Bind == UNION {BindOf(ps) : ps \in {q \in ParamLists(MaxPB, Anns, DefaultVals \cup {NoVal}) \cup ParamLists(MaxPB0, Anns, {NoVal})
                                         : Lean = 0 \/ Len(q) < 2 \/ q[2].ann = ""}}
\* callables with positional-only / *args / **kwargs parameters, nothing bound: schema and recorded defaults are judged
Bind3 == {[kind |-> "bind", params |-> ps, decor |-> d, ret |-> "", args |-> <<>>, kw |-> [nm \in {ps[i].name : i \in DOMAIN ps} |-> NoVal], split |-> FALSE]
            : ps \in ParamLists(1, Anns, DefaultVals \cup {NoVal}), d \in Decors \ {NoDecor}}

EdgeShapes == {[st |-> st, so |-> so, dt |-> dt, mode |-> m[1], into |-> m[2]]
                 : st \in {"t1", "nope"}, so \in {"0", "zz"}, dt \in {"t2", "nope"},
                   m \in {<<"kw", "a">>, <<"kw", "b">>, <<"kw", "zz">>, <<"ps", "0">>}}
SecondShapes == {[st |-> "t1", so |-> "0", dt |-> "t2", mode |-> "kw", into |-> "a"],
                 [st |-> "nope", so |-> "0", dt |-> "t2", mode |-> "kw", into |-> "a"],
                 [st |-> "t1", so |-> "0", dt |-> "nope", mode |-> "kw", into |-> "a"],
                 [st |-> "t1", so |-> "0", dt |-> "t2", mode |-> "ps", into |-> "1"]}
Edge1 == {[kind |-> "edge", ret |-> r, params |-> ps, decor |-> NoDecor, edges |-> <<e>>]
            : r \in EAnns, ps \in ParamLists(1, EAnns, {NoVal}), e \in EdgeShapes}
    \cup {[kind |-> "edge", ret |-> r, params |-> ps, decor |-> NoDecor, edges |-> <<e>>]
            : r \in Anns, ps \in {q \in ParamLists(MaxP, Anns, {NoVal}) : Len(q) >= 2}, e \in EdgeShapes}
Edge2 == {[kind |-> "edge", ret |-> r, params |-> ps, decor |-> NoDecor, edges |-> <<e, f>>]
            : r \in (IF Lean = 1 THEN {"", "int"} ELSE Anns),
              ps \in {q \in ParamLists(MaxP2, Anns, {NoVal}) : Lean = 0 \/ \A i \in DOMAIN q : q[i].kind = "pk"},
              e \in EdgeShapes, f \in SecondShapes}
\* FAN-OUT: two or three edges leaving the same producer, in every order, drawn from a pool that holds well-formed edges and
\* one edge for each modelled fault (unknown output, incompatible type, unknown sink parameter, unknown sink task); the
\* producer has one output (int) or is hand-made with two outputs of different declared types, so that output "1" is
\* unknown / incompatible / fine and output "0" fine / fine / incompatible for the int parameter `a`.  Whatever the order
\* of the with_edge calls, one faulty edge makes the description ill formed.
FanConsumer == <<[name |-> "a", kind |-> "pk", ann |-> "int", dflt |-> NoVal], [name |-> "b", kind |-> "pk", ann |-> "", dflt |-> NoVal]>>
FanPool == {[st |-> "t1", so |-> so, dt |-> "t2", mode |-> m[1], into |-> m[2]]
              : so \in {"0", "1"}, m \in {<<"kw", "a">>, <<"kw", "b">>}}
      \cup {[st |-> "t1", so |-> "0", dt |-> "t2", mode |-> "ps", into |-> "0"],
            [st |-> "t1", so |-> "zz", dt |-> "t2", mode |-> "kw", into |-> "b"],
            [st |-> "t1", so |-> "0", dt |-> "t2", mode |-> "kw", into |-> "zz"],
            [st |-> "t1", so |-> "0", dt |-> "nope", mode |-> "kw", into |-> "a"]}
FanSeqs == {<<e, f>> : e \in FanPool, f \in FanPool} \cup {<<e, f, g>> : e \in FanPool, f \in FanPool, g \in FanPool}
Edge4 == {[kind |-> "edge", ret |-> outs[1], outs |-> outs, params |-> FanConsumer, decor |-> NoDecor, edges |-> es]
            : outs \in {<<"int">>, <<"int", "str">>, <<"str", "int">>},
              es \in {q \in FanSeqs : \A i, j \in DOMAIN q : i # j => q[i] # q[j]}}
\* WHAT THE BUILDER HOLDS when build() is called, and in which order it got it: `present` = the tasks that were added (none,
\* only the producer, only the consumer, both); `order` = "nodes_first" (with_node calls, then with_edge calls) or
\* "edges_first" (with_edge calls on the empty builder, with_node calls afterwards) - the order must not matter; an edge
\* naming a task that was never added is a fault, also when no task at all was added
Both == {"t1", "t2"}
PresencePool == {[st |-> "t1", so |-> "0", dt |-> "t2", mode |-> "kw", into |-> "a"],
                 [st |-> "t1", so |-> "0", dt |-> "t2", mode |-> "ps", into |-> "0"],
                 [st |-> "t1", so |-> "zz", dt |-> "t2", mode |-> "kw", into |-> "a"]}
Edge5 == {[kind |-> "edge", ret |-> "", params |-> <<[name |-> "a", kind |-> "pk", ann |-> "", dflt |-> NoVal]>>, decor |-> NoDecor,
           edges |-> es, present |-> SetToSeq(pr), order |-> ord]
            : es \in {<<e>> : e \in PresencePool} \cup {q \in {<<e, f>> : e \in PresencePool, f \in PresencePool} : q[1] # q[2]},
              pr \in SUBSET Both, ord \in {"nodes_first", "edges_first"}}
\* consumer with positional-only / *args / **kwargs parameters; one edge into a real parameter, into each of those names,
\* into a name that exists nowhere, or positional
DecorShapes == {[st |-> "t1", so |-> "0", dt |-> "t2", mode |-> m[1], into |-> m[2]]
                  : m \in {<<"kw", "a">>, <<"kw", "args">>, <<"kw", "zz">>, <<"kw", "kwargs">>, <<"kw", "p0">>, <<"ps", "0">>}}
Edge3 == {[kind |-> "edge", ret |-> r, params |-> ps, decor |-> d, edges |-> <<e>>]
            : r \in {"", "int"}, ps \in ParamLists(1, Anns, {NoVal}), d \in Decors \ {NoDecor}, e \in DecorShapes}

\* None and the falsy literals of every kind: a binding must be kept whatever its truth value
FalsyVals == {[t |-> "NoneType", v |-> "None"], [t |-> "int", v |-> "0"], [t |-> "str", v |-> ""], [t |-> "bool", v |-> "False"],
              [t |-> "list", v |-> "[]"], [t |-> "float", v |-> "0.0"]}
OneParam == {ps \in ParamLists(1, Anns, DefaultVals \cup {NoVal}) : Len(ps) = 1}
TwoPk == {ps \in ParamLists(2, {""}, {NoVal}) : Len(ps) = 2 /\ \A i \in 1..2 : ps[i].kind = "pk"}
NoKw(ps) == [nm \in {ps[i].name : i \in DOMAIN ps} |-> NoVal]
B4(ps, args, kw, kw2) == [kind |-> "bind", params |-> ps, decor |-> NoDecor, ret |-> "", args |-> args, kw |-> kw, kw2 |-> kw2, split |-> FALSE]
\* one parameter (every kind / annotation / default): bound positionally to a falsy value; bound by keyword to a falsy value
\* or 1 and then, in a SECOND with_values call (kw2), re-bound to a falsy value (None included) or left alone; two positional
\* falsy values
Bind4 == {B4(ps, <<v>>, NoKw(ps), NoKw(ps)) : ps \in {p \in OneParam : p[1].kind = "pk"}, v \in FalsyVals}
    \cup {B4(ps, <<>>, [nm \in {ps[1].name} |-> v1], [nm \in {ps[1].name} |-> v2])
            : ps \in OneParam, v1 \in FalsyVals \cup {[t |-> "int", v |-> "1"]}, v2 \in FalsyVals \cup {NoVal}}
    \cup {B4(ps, <<v, w>>, NoKw(ps), NoKw(ps)) : ps \in TwoPk, v \in FalsyVals, w \in FalsyVals}

\* structured values (type name, canonical constructor text the harness evaluates and reports back): the job must carry the
\* very values that were bound - same type, same content - not a converted copy
StructVals == {[t |-> "DC", v |-> "DC(x=1, y='a')"],                          \* a dataclass instance
               [t |-> "PM", v |-> "PM(x=1, y='a')"],                          \* a pydantic model instance
               [t |-> "NT", v |-> "NT(x=1, y='a')"],                          \* a namedtuple
               [t |-> "OrderedDict", v |-> "OrderedDict([('k', 1), ('j', 2)])"],
               [t |-> "defaultdict", v |-> "defaultdict(int, {'k': 1})"],
               [t |-> "set", v |-> "{1, 2}"], [t |-> "frozenset", v |-> "frozenset({1, 2})"],
               [t |-> "tuple", v |-> "(1, 'a')"], [t |-> "tuple", v |-> "()"], [t |-> "bytes", v |-> "b'ab'"],
               [t |-> "list", v |-> "[1, [2, {'k': (3, 4)}]]"], [t |-> "list", v |-> "[DC(x=1, y='a'), NT(x=2, y='b')]"],
               [t |-> "dict", v |-> "{'k': [1, {'j': PM(x=1, y='a')}], 'i': {5}}"]}
OneAny(k, d) == <<[name |-> "a", kind |-> k, ann |-> "", dflt |-> d]>>
\* one un-annotated parameter: bound positionally / by keyword to a structured value (over no default or a plain one), or
\* left at a structured default
Bind5 == {B4(OneAny("pk", d), <<v>>, NoKw(OneAny("pk", d)), NoKw(OneAny("pk", d))) : d \in {NoVal, [t |-> "int", v |-> "5"]}, v \in StructVals}
    \cup {B4(OneAny(k, d), <<>>, [nm \in {"a"} |-> v], NoKw(OneAny(k, d))) : k \in {"pk", "ko"}, d \in {NoVal, [t |-> "int", v |-> "5"]}, v \in StructVals}
    \cup {B4(OneAny(k, v), <<>>, NoKw(OneAny(k, v)), NoKw(OneAny(k, v))) : k \in {"pk", "ko"}, v \in StructVals}

\* SEVERAL with_values calls on one task builder: the first (args, kw) and then `calls`, each with positional values and/or a
\* keyword for `c`, re-binding positions and names already bound - partly (one position of two) or fully; the later call
\* wins, per position and per name
ThreeParams == <<[name |-> "a", kind |-> "pk", ann |-> "", dflt |-> NoVal], [name |-> "b", kind |-> "pk", ann |-> "", dflt |-> NoVal],
                 [name |-> "c", kind |-> "ko", ann |-> "", dflt |-> NoVal]>>
IV(n) == [t |-> "int", v |-> n]
KwC(v) == [nm \in {"a", "b", "c"} |-> IF nm = "c" THEN v ELSE NoVal]
Call(args, kwc) == [args |-> args, kw |-> KwC(kwc)]
SecondCalls == {Call(a, k) : a \in {<<>>, <<IV("99")>>, <<IV("99"), IV("98")>>}, k \in {NoVal, [t |-> "str", v |-> "k2"]}} \ {Call(<<>>, NoVal)}
ThirdCalls == {Call(<<IV("77")>>, NoVal), Call(<<IV("77"), IV("76")>>, NoVal), Call(<<>>, [t |-> "str", v |-> "k3"]), Call(<<IV("77")>>, [t |-> "str", v |-> "k3"])}
Bind6 == {[kind |-> "bind", params |-> ThreeParams, decor |-> NoDecor, ret |-> "", args |-> a1, kw |-> KwC(k1), kw2 |-> KwC(NoVal),
           split |-> FALSE, calls |-> cs]
            : a1 \in {<<IV("10")>>, <<IV("10"), IV("20")>>}, k1 \in {NoVal, [t |-> "str", v |-> "k1"]},
              cs \in {<<c2>> : c2 \in SecondCalls} \cup {<<c2, c3>> : c2 \in SecondCalls, c3 \in ThirdCalls}}

KwJson(kw) == SetToSeq({<<nm, kw[nm]>> : nm \in {x \in DOMAIN kw : kw[x] # NoVal}})
BindJson(c) == [kind |-> "bind", params |-> c.params, decor |-> c.decor, ret |-> c.ret, args |-> c.args, split |-> c.split,
                kw |-> KwJson(c.kw), kw2 |-> IF "kw2" \in DOMAIN c THEN KwJson(c.kw2) ELSE <<>>,
                calls |-> IF "calls" \in DOMAIN c THEN [i \in DOMAIN c.calls |-> [args |-> c.calls[i].args, kw |-> KwJson(c.calls[i].kw)]] ELSE <<>>]

\* ---------------------------------------------------------------- reference semantics
SetOf(s) == {s[i] : i \in DOMAIN s}
Pairs(s) == {<<p[1], p[2]>> : p \in SetOf(s)}          \* JSON [[k, v], ...] -> set of pairs
TypeName(ann) == IF ann = "" THEN "Any" ELSE ann
InSchema(ps) == {<<ps[i].name, TypeName(ps[i].ann)>> : i \in DOMAIN ps}
OutSchema(ret) == {<<"0", TypeName(ret)>>}
Defaults(ps) == {<<ps[i].name, ps[i].dflt>> : i \in {j \in DOMAIN ps : ps[j].dflt # NoVal}}
\* declared types `t1 -> t2`: "yes", "no", or "open" (an un-annotated producer feeding an annotated parameter: the property
\* does not say whether that is compatible, so either answer is accepted - but an answer it must be)
Compat(t1, t2) == IF t2 = "Any" THEN "yes" ELSE IF t1 = "Any" THEN "open" ELSE IF SubType(t1, t2) THEN "yes" ELSE "no"

\* edge e against the described tasks: the set of things wrong with it
TaskIns(c, t) == IF t = "t2" THEN InSchema(c.params) ELSE {}
\* the producer's outputs: one, typed by the return annotation - or, for a hand-made producer, `outs` = the declared types
\* of its outputs "0", "1", ...
TaskOuts(c, t) == IF t = "t1" THEN (IF "outs" \in DOMAIN c THEN {<<ToString(i - 1), c.outs[i]>> : i \in DOMAIN c.outs} ELSE OutSchema(c.ret))
                  ELSE OutSchema("")
\* the tasks added to the builder when build() is called: both, unless the case says otherwise (`present`)
TasksOf(c) == IF "present" \in DOMAIN c THEN SetOf(c.present) ELSE Both
EdgeFaults(c, e) ==
  LET srcT == e.st \in TasksOf(c)
      srcO == srcT /\ \E p \in TaskOuts(c, e.st) : p[1] = e.so
      snkT == e.dt \in TasksOf(c)
      snkP == snkT /\ e.mode = "kw" /\ \E p \in TaskIns(c, e.dt) : p[1] = e.into
      verdict == IF srcO /\ snkP
                 THEN Compat((CHOOSE p \in TaskOuts(c, e.st) : p[1] = e.so)[2], (CHOOSE p \in TaskIns(c, e.dt) : p[1] = e.into)[2])
                 ELSE "yes"
  IN (IF srcT THEN {} ELSE {"no_source_task"}) \cup (IF srcT /\ ~srcO THEN {"no_source_output"} ELSE {})
  \cup (IF snkT THEN {} ELSE {"no_sink_task"})
  \* a name that is no parameter: a fault - unless the consumer takes **kwargs (any name can then be passed; whether the
  \* builder admits that is left open); *args and positional-only parameters can never be fed by name
  \cup (IF snkT /\ e.mode = "kw" /\ ~snkP THEN (IF e.dt = "t2" /\ c.decor.vk # "" THEN {"open"} ELSE {"no_sink_parameter"}) ELSE {})
  \cup (IF verdict = "no" THEN {"incompatible"} ELSE {}) \cup (IF verdict = "open" THEN {"open"} ELSE {})
AllFaults(c) == UNION {EdgeFaults(c, c.edges[i]) : i \in DOMAIN c.edges}

\* ---------------------------------------------------------------- post-condition
\* a dumped task: [kw |-> [[k, val]..], ps |-> [[k, val]..], ins |-> [[k, type]..], outs |-> [[k, type]..]]
\* an outcome: [outcome |-> "job"|"problems"|"raised", tasks |-> [[name, task]..], edges |-> [[st, so, dt, mode, into]..],
\*              problems |-> [text..], error |-> text]
JobTask(o, nm) == (CHOOSE p \in SetOf(o.tasks) : p[1] = nm)[2]
JobTaskNames(o) == {p[1] : p \in SetOf(o.tasks)}
\* the property, read directly off an accepted job: every edge starts at an existing output of an existing task, ends at an
\* existing task and, for keyword edges, at an existing parameter whose declared type is not incompatible
JobIllFormed(o) ==
  \E e \in SetOf(o.edges) :
     \/ e[1] \notin JobTaskNames(o)
     \/ e[3] \notin JobTaskNames(o)
     \/ e[1] \in JobTaskNames(o) /\ ~\E q \in Pairs(JobTask(o, e[1]).outs) : q[1] = e[2]
     \/ e[3] \in JobTaskNames(o) /\ e[4] = "kw" /\ ~\E q \in Pairs(JobTask(o, e[3]).ins) : q[1] = e[5]
     \/ /\ e[1] \in JobTaskNames(o) /\ e[3] \in JobTaskNames(o) /\ e[4] = "kw"
        /\ \E q \in Pairs(JobTask(o, e[1]).outs) : \E r \in Pairs(JobTask(o, e[3]).ins) :
              q[1] = e[2] /\ r[1] = e[5] /\ Compat(q[2], r[2]) = "no"

\* where an exception came from (only used to name the clause, so that different defects get different names)
RaisedClause(c) ==
  IF c.kind = "bind" THEN "build_raised_single_task"
  ELSE LET f == AllFaults(c)
       IN IF "no_sink_task" \in f THEN "build_raised_on_dangling_sink_task"
          ELSE IF f \ {"open"} # {} THEN "build_raised_on_other_dangling_edge"
          ELSE IF "open" \in f THEN "build_raised_on_unannotated_source"
          ELSE "build_raised_on_well_formed_job"

PostEdge(c, r) ==
  LET order == IF "order" \in DOMAIN c THEN c.order ELSE "nodes_first"
      o == r.final
      faults == AllFaults(c)
      want == {<<e.st, e.so, e.dt, e.mode, e.into>> : e \in SetOf(c.edges)}
      got == {<<e[1], e[2], e[3], e[4], e[5]>> : e \in SetOf(o.edges)}
  IN (IF o.outcome = "raised" THEN {RaisedClause(c)} ELSE {})
\cup (IF o.outcome = "job" /\ (JobIllFormed(o) \/ faults \ {"open"} # {}) THEN {"accepted_ill_formed_job"} ELSE {})
\cup (IF o.outcome = "job" /\ (got # want \/ Len(o.edges) # Len(c.edges) \/ JobTaskNames(o) # TasksOf(c))
      THEN {"job_differs_from_description"} ELSE {})
\cup (IF o.outcome = "job" /\ TasksOf(c) = Both /\ JobTaskNames(o) = Both
         /\ (Pairs(JobTask(o, "t2").ins) # InSchema(c.params) \/ Pairs(JobTask(o, "t1").outs) # TaskOuts(c, "t1"))
      THEN {"schema_differs_from_signature"} ELSE {})
\cup (IF r.first_before.outcome = "job" /\ TasksOf(c) = Both /\ order = "nodes_first" /\ JobTaskNames(r.first_before) = Both
         /\ (Pairs(JobTask(r.first_before, "t2").ins) # InSchema(c.params) \/ Pairs(JobTask(r.first_before, "t1").outs) # TaskOuts(c, "t1"))
      THEN {"schema_differs_from_signature"} ELSE {})
\cup (IF o.outcome = "problems" /\ faults = {} THEN {"rejected_without_problem"} ELSE {})
\cup (IF o.outcome = "problems" /\ Len(o.problems) = 0 THEN {"empty_problem_list"} ELSE {})
\cup (IF r.first_before = r.first_after THEN {} ELSE {"earlier_job_mutated"})
\cup (IF r.first_before = r.first_rebuilt THEN {} ELSE {"earlier_builder_mutated"})
\cup (IF r.first_before.outcome = "job" /\ Len(r.first_before.edges) = 0 THEN {} ELSE {"edge_less_job_not_accepted"})

TypeOK(val, ann) == ann = "" \/ val.t = ann
PostBind(c, r) ==
  LET \* all with_values calls in order: (args, kw), then kw2 if it binds anything, then `calls`; the later call wins
      all == <<[args |-> c.args, kw |-> Pairs(c.kw)]>>
             \o (IF Len(c.kw2) > 0 THEN <<[args |-> <<>>, kw |-> Pairs(c.kw2)]>> ELSE <<>>)
             \o [i \in DOMAIN c.calls |-> [args |-> c.calls[i].args, kw |-> Pairs(c.calls[i].kw)]]
      LastWith(P(_)) == CHOOSE k \in DOMAIN all : P(k) /\ \A m \in DOMAIN all : P(m) => m <= k
      npos == CHOOSE n \in 0..3 : (\E k \in DOMAIN all : Len(all[k].args) = n) /\ \A k \in DOMAIN all : Len(all[k].args) <= n
      HasPos(i, k) == Len(all[k].args) >= i
      wantPs == {<<ToString(i - 1), all[LastWith(LAMBDA k : HasPos(i, k))].args[i]>> : i \in 1..npos}
      Names(k) == {p[1] : p \in all[k].kw}
      allNames == UNION {Names(k) : k \in DOMAIN all}
      given == {CHOOSE p \in all[LastWith(LAMBDA k : nm \in Names(k))].kw : p[1] = nm : nm \in allNames}
      givenNames == allNames
      dfl == Defaults(c.params)
      kwAfter == given \cup {p \in dfl : p[1] \notin givenNames}          \* defaults overridden by the given keywords
      badStatic == \E p \in kwAfter : \E i \in DOMAIN c.params : c.params[i].name = p[1] /\ ~TypeOK(p[2], c.params[i].ann)
      placed(t) == (IF Pairs(t.ps) = wantPs /\ Len(t.ps) = npos THEN {} ELSE {"positional_values_misplaced"})
              \cup (IF given \subseteq Pairs(t.kw) /\ Pairs(t.kw) \subseteq kwAfter /\ Len(t.kw) = Cardinality(Pairs(t.kw))
                    THEN {} ELSE {"keyword_values_misplaced"})
      schema(t) == IF Pairs(t.ins) = InSchema(c.params) /\ Pairs(t.outs) = OutSchema(c.ret) THEN {} ELSE {"schema_differs_from_signature"}
      o == r.final
  IN (IF r.fresh_before = r.fresh_after THEN {} ELSE {"earlier_task_mutated"})
\cup (IF Pairs(r.fresh_before.kw) = dfl /\ Len(r.fresh_before.ps) = 0 THEN {} ELSE {"defaults_not_recorded"})
\cup schema(r.fresh_before)
\cup (IF r.bound.ok THEN placed(r.bound.task) \cup schema(r.bound.task) ELSE {"with_values_raised"})
\cup (IF r.bound.ok
      THEN (IF o.outcome = "raised" THEN {RaisedClause(c)} ELSE {})
      \cup (IF o.outcome = "job" /\ JobTaskNames(o) = {"t1"} THEN placed(JobTask(o, "t1")) ELSE {})
      \cup (IF o.outcome = "job" /\ JobTaskNames(o) # {"t1"} THEN {"job_differs_from_description"} ELSE {})
      \cup (IF o.outcome = "problems" /\ ~badStatic THEN {"rejected_without_problem"} ELSE {})
      \cup (IF o.outcome = "problems" /\ Len(o.problems) = 0 THEN {"empty_problem_list"} ELSE {})
      ELSE {})

Post(c, r) == IF c.kind = "bind" THEN PostBind(c, r) ELSE PostEdge(c, r)

\* ---------------------------------------------------------------- the two TLC passes
\* TLC evaluates every constant-level definition when it loads the module, also the one a pass does not use: the judge
\* pass therefore gets CASES_FILE = "none" (Generate does nothing) and reads the cases from JUDGE_CASES
Generate == IF IOEnv.CASES_FILE = "none" THEN TRUE ELSE
            LET b == SetToSeq(Bind)
                  b3 == SetToSeq(Bind3)
                  b4 == SetToSeq(Bind4 \cup Bind5) \o SetToSeq(Bind6)
                  s == [i \in 1..Len(b) |-> BindJson(b[i])] \o [i \in 1..Len(b3) |-> BindJson(b3[i])] \o [i \in 1..Len(b4) |-> BindJson(b4[i])]
                       \o SetToSeq(Edge1) \o SetToSeq(Edge2) \o SetToSeq(Edge3) \o SetToSeq(Edge4) \o SetToSeq(Edge5)
              IN JsonSerialize(IOEnv.CASES_FILE, s)
Judge ==
  LET cs == JsonDeserialize(IOEnv.JUDGE_CASES)
      rs == JsonDeserialize(IOEnv.RESULTS_FILE)
  IN \A i \in DOMAIN cs :
       LET bad == IF "error" \in DOMAIN rs[i] THEN {"harness_could_not_build"} ELSE Post(cs[i], rs[i])
       IN bad = {} \/ PrintT("B|" \o ToString(i) \o "|" \o ToString(bad))
=============================================================================
