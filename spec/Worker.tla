-------------------------------- MODULE Worker --------------------------------
(***************************************************************************)
(* The worker process message loop (cascade.executor.runner.entrypoint):   *)
(* task sequences, publication notices and purges arrive in ANY order (the *)
(* executor forwards each through a fresh socket); a task sequence is      *)
(* deferred until every dataset it requires was announced on this host,    *)
(* then executed exactly once.  Second clause of C02: "a worker never      *)
(* starts the task before all of those datasets have actually arrived".    *)
(*                                                                         *)
(* The loop is given as a function Step(state, message); TLC enumerates    *)
(* every message sequence up to a bound, the harness feeds each sequence   *)
(* to the real entrypoint() through a scripted socket, and TLC compares    *)
(* the observable log (pattern P3 over behaviours).                        *)
(***************************************************************************)
EXTENDS Naturals, Sequences, FiniteSets, TLC, Json, IOUtils, SequencesExt

CONSTANTS MaxLen       \* message sequences up to this length

\* the job seen by this worker: c needs p1.0 and p2.0 (produced elsewhere), c2 needs p1.0 only
Required == [c |-> {"p1", "p2"}, c2 |-> {"p1"}]
Msgs == {"ts_c", "ts_c2", "pub_p1", "pub_p2", "purge_p1", "purge_p2"}
IsTs(m) == m \in {"ts_c", "ts_c2"}
TaskOf(m) == IF m = "ts_c" THEN "c" ELSE "c2"
DsOf(m) == IF m \in {"pub_p1", "purge_p1"} THEN "p1" ELSE "p2"

S0 == [avail |-> {}, waiting |-> "", missing |-> {}, loaded |-> {}, dead |-> FALSE, log |-> <<>>]

\* memory.provide(d): loads d once (kept in Memory.local until popped)
Provide(s, D) == LET new == SetToSeq(D \ s.loaded) IN
                 [s EXCEPT !.loaded = @ \cup D, !.log = @ \o [i \in 1..Len(new) |-> <<"provide", new[i]>>]]
\* execute_sequence(ts): run the task (its inputs are provided first), publish its output
Exec(s, t) == LET s1 == Provide(s, Required[t]) IN [s1 EXCEPT !.log = Append(@, <<"exec", t>>)]

Step(s, m) ==
  IF s.dead THEN s
  ELSE IF IsTs(m) THEN
         IF s.waiting # "" THEN [s EXCEPT !.dead = TRUE, !.log = Append(@, <<"raise", "double task sequence">>)]
         ELSE LET t == TaskOf(m)
                  miss == Required[t] \ s.avail
              IN IF miss # {} THEN Provide([s EXCEPT !.waiting = t, !.missing = miss], s.avail \cap Required[t])
                 ELSE Exec(s, t)
  ELSE IF m \in {"pub_p1", "pub_p2"} THEN
         LET d == DsOf(m)
             s1 == [s EXCEPT !.avail = @ \cup {d}]
         IN IF d \in s.missing
            THEN LET s2 == Provide([s1 EXCEPT !.missing = @ \ {d}], {d})
                 IN IF s2.waiting # "" /\ s2.missing = {} THEN [Exec(s2, s2.waiting) EXCEPT !.waiting = ""] ELSE s2
            ELSE s1
  ELSE \* purge: memory.pop + forget the announcement
       LET d == DsOf(m) IN [s EXCEPT !.avail = @ \ {d}, !.loaded = @ \ {d}]

RECURSIVE Run(_, _, _)
Run(s, seq, i) == IF i > Len(seq) THEN s ELSE Run(Step(s, seq[i]), seq, i + 1)

\* ---- the domain: sequences in which a dataset is announced at most once and purged only after its announcement
\* (that is what an executor can forward), each task sequence at most once
Count(seq, m) == Cardinality({i \in 1..Len(seq) : seq[i] = m})
\* and a dataset is purged only when no task sequence that needs it is still to come or pending (the controller's obligation, C04)
Prefix(seq, n) == [i \in 1..n |-> seq[i]]
Sane(seq) == /\ \A m \in Msgs : Count(seq, m) <= 1
             /\ \A d \in {"p1", "p2"} : \A i \in 1..Len(seq) : seq[i] = "purge_" \o d =>
                   /\ \E j \in 1..(i - 1) : seq[j] = "pub_" \o d
                   /\ \A t \in {"c", "c2"} : (d \in Required[t] /\ Count(seq, "ts_" \o t) = 1) =>
                          LET lg == Run(S0, Prefix(seq, i - 1), 1).log IN <<"exec", t>> \in {lg[k] : k \in 1..Len(lg)}
Cases == {seq \in UNION {[1..n -> Msgs] : n \in 0..MaxLen} : Sane(seq)}

\* C02 (second clause) on the specification itself: whenever a task executes, everything it requires was announced
\* before (and is therefore on the host), and nothing executes twice
RECURSIVE ExecsOk(_, _, _, _)
ExecsOk(s, seq, i, announced) ==
  IF i > Len(seq) THEN TRUE
  ELSE LET s2 == Step(s, seq[i])
           ann2 == IF seq[i] \in {"pub_p1", "pub_p2"} THEN announced \cup {DsOf(seq[i])} ELSE announced
           newExecs == {s2.log[k][2] : k \in {j \in (Len(s.log) + 1)..Len(s2.log) : s2.log[j][1] = "exec"}}
       IN (\A t \in newExecs : Required[t] \subseteq ann2) /\ ExecsOk(s2, seq, i + 1, ann2)
NeverStartsEarly(seq) == ExecsOk(S0, seq, 1, {})
ExecOnce(seq) == LET lg == Run(S0, seq, 1).log IN
                 \A t \in {"c", "c2"} : Cardinality({k \in 1..Len(lg) : lg[k] = <<"exec", t>>}) <= 1
\* a task sequence whose inputs were all announced is eventually executed (by the end of the sequence)
ExecWhenReady(seq) == LET s == Run(S0, seq, 1) IN
   \A t \in {"c", "c2"} : (Count(seq, "ts_" \o t) = 1 /\ ~s.dead /\ \A d \in Required[t] : Count(seq, "pub_" \o d) = 1
                             /\ Count(seq, "purge_" \o d) = 0) => <<"exec", t>> \in {s.log[k] : k \in 1..Len(s.log)}
SpecOk == \A seq \in Cases : NeverStartsEarly(seq) /\ ExecOnce(seq) /\ ExecWhenReady(seq)

Generate == IF IOEnv.PASS # "generate" THEN TRUE ELSE JsonSerialize(IOEnv.CASES_FILE, SetToSeq(Cases))
\* observable log of the real worker: <<"exec", t>>, <<"provide", d>>, <<"raise", ..>>, <<"taskfailure", t>>
Judge == IF IOEnv.PASS # "judge" THEN TRUE
         ELSE LET cs == JsonDeserialize(IOEnv.JUDGE_CASES)
                  rs == JsonDeserialize(IOEnv.RESULTS_FILE)
              IN /\ SpecOk \/ PrintT("B|0|{\"specification_violates_its_own_clause\"}")
                 /\ \A i \in DOMAIN cs :
                      LET want == Run(S0, cs[i], 1).log
                          got  == rs[i].log
                          wantEx == SelectSeq(want, LAMBDA e : e[1] = "exec")
                          gotEx  == SelectSeq(got, LAMBDA e : e[1] = "exec")
                          bad == (IF \E k \in 1..Len(got) : got[k][1] = "taskfailure" THEN {"task_started_without_its_input"} ELSE {})
                            \cup (IF wantEx = gotEx THEN {} ELSE {"executions_differ"})
                            \cup (IF (\E k \in 1..Len(want) : want[k][1] = "raise") = (\E k \in 1..Len(got) : got[k][1] = "raise")
                                  THEN {} ELSE {"double_sequence_error_differs"})
                            \cup (IF {want[k] : k \in 1..Len(want)} = {got[k] : k \in 1..Len(got)} THEN {} ELSE {"loads_differ"})
                      IN bad = {} \/ PrintT("B|" \o ToString(i) \o "|" \o ToString(bad))
=============================================================================
