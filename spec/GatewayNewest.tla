--------------------------- MODULE GatewayNewest ---------------------------
(***************************************************************************)
(* Skeleton of the gateway's progress rule (JobRouter.maybe_update), for   *)
(* an UNBOUNDED time-stamp domain and arbitrary progress values: the part  *)
(* of C18 that says "keeps the newest".  A report carries a time stamp and *)
(* a value; the displayed value must always be one that was reported with  *)
(* the greatest time stamp received so far, whatever the order, repetition *)
(* and spacing of the reports.  spec/Gateway.tla refines this module       *)
(* (TLC); NIndInv is proved inductive by Apalache (MC_GatewayNewest.tla).  *)
(***************************************************************************)
EXTENDS Integers, FiniteSets

CONSTANTS
  \* @type: Set(Str);
  Job,
  \* @type: Set(Int);
  Stamp,            \* time stamps a report may carry
  \* @type: Int;
  Before,           \* initial last_seen: smaller than every stamp (-1 in the code)
  \* @type: Set(Int);
  Val,              \* progress values
  \* @type: Int;
  Started,          \* value shown before any report
  \* @type: Bool;
  StoresLastSeen    \* maybe_update records the stamp it accepted (FALSE = the code before fix 72e2b3d: negative control)

VARIABLES
  \* @type: Str -> Int;
  nprog,
  \* @type: Str -> Int;
  nlast,
  \* @type: Str -> Set({ts: Int, val: Int});
  nseen             \* ghost: every progress report received

nvars == <<nprog, nlast, nseen>>

NInit == /\ nprog = [j \in Job |-> Started]
         /\ nlast = [j \in Job |-> Before]
         /\ nseen = [j \in Job |-> {}]

\* one handled controller report; `isProgress` = the report carries a progress value (a bare result / shutdown report does not)
NReport(j, isProgress, t, v) ==
  LET accept == isProgress /\ nlast[j] < t IN
  /\ nprog' = [nprog EXCEPT ![j] = IF accept THEN v ELSE @]
  /\ nlast' = [nlast EXCEPT ![j] = IF accept /\ StoresLastSeen THEN t ELSE @]
  /\ nseen' = [nseen EXCEPT ![j] = IF isProgress THEN @ \cup {[ts |-> t, val |-> v]} ELSE @]

NNext == \E j \in Job, b \in BOOLEAN, t \in Stamp, v \in Val : NReport(j, b, t, v)
NSpec == NInit /\ [][NNext]_nvars

\* C18: what is shown is a value that was reported with the greatest stamp received (or the start value when nothing was)
ShowsNewest == \A j \in Job :
  IF nseen[j] = {} THEN nprog[j] = Started
  ELSE \E r \in nseen[j] : (\A q \in nseen[j] : q.ts <= r.ts) /\ nprog[j] = r.val

\* inductive strengthening: last_seen is that greatest stamp
NIndInv == \A j \in Job :
  /\ \A q \in nseen[j] : q.ts > Before
  /\ IF nseen[j] = {} THEN nprog[j] = Started /\ nlast[j] = Before
     ELSE \E r \in nseen[j] : (\A q \in nseen[j] : q.ts <= r.ts) /\ nprog[j] = r.val /\ nlast[j] = r.ts
=============================================================================
