#!/usr/bin/env python3
"""Regenerates the table of independent seeded changes in DESIGN.md (section 10.4) from /verif/seeded/*/meta.json."""
import json, pathlib, re
root = pathlib.Path(__file__).resolve().parent.parent
rows, total, late = [], 0, []
for d in sorted((root / "seeded").iterdir()):
    mf = d / "meta.json"
    if not mf.exists():
        continue
    m = json.loads(mf.read_text()); c = m.get("confirmed_by_verif", {})
    one = lambda s, n: re.sub(r"\s+", " ", str(s)).replace("|", "/")[:n]
    first = " ".join(c.get("checks_run", []))
    after = " ".join(c.get("checks_run_after_strengthening", []))
    if after:
        res = f"missed at first, caught after strengthening ({after}): {one(c.get('strengthening', ''), 200)}"; late.append(d.name)
    else:
        res = f"caught ({first})" if "rc=1" in first else f"NOT caught ({first})"
    rows.append(f"| {d.name} | {one(m.get('summary', ''), 200)} | {one(m.get('needs', ''), 160)} | {res} |")
    total += 1
table = "| seed | change | needs | result |\n|---|---|---|---|\n" + "\n".join(rows) + "\n"
tail = (f"\nRounds of independent seeds so far: {total} changes (suffix `b` ... `k` = rounds 2 ... 11, each asked for mechanisms and code sites "
        f"different from the earlier ones). All are flagged by the check of their own property, with two exceptions stated in their `meta.json`: "
        f"C10i is flagged by C03 (the failure it causes is a run that never ends) and C02g by the thorough tier only; {len(late)} of them only after the strengthening "
        f"recorded in 10.5 and in their `meta.json` ({', '.join(late)}).\n")
p = root / "DESIGN.md"; s = p.read_text()
a = s.index("| seed | change | needs | result |"); b = s.index("### 10.5 Strengthening log")
p.write_text(s[:a] + table + tail + "\n" + s[b:])
print(total, "seeds;", len(late), "after strengthening")
