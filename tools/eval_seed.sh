#!/bin/bash
# usage: tools/eval_seed.sh <seed dir, e.g. /tmp/seed/C09> <Cxx> [more checks]
# Confirms an independently written breaking change (tests stay green, demo fails with / passes without) in a scratch
# worktree of /repo, runs the given checks against it, and files it under /verif/seeded/<name>/.
set -u
src="$(realpath "$1")"; shift
name="${SEED_NAME:-$(basename "$src")}"
wt="/tmp/mut/seed_${name}_$$"; mkdir -p /tmp/mut
git -C /repo worktree add -q --detach "$wt" HEAD || exit 2
clean_rc=$(cd "$wt" && PYTHONPATH="$wt/src" timeout 120 /venv/bin/python -W ignore "$src/demo.py" >/tmp/mut/demo_clean.$$ 2>&1; echo $?)
( cd "$wt" && git apply "$src/patch.diff" ) || { echo "PATCH DOES NOT APPLY"; git -C /repo worktree remove --force "$wt"; exit 2; }
tests=$(cd "$wt" && /venv/bin/python -m pytest -q -p no:cacheprovider --timeout=900 --continue-on-collection-errors 2>&1 | tail -1)
patched_rc=$(cd "$wt" && PYTHONPATH="$wt/src" timeout 120 /venv/bin/python -W ignore "$src/demo.py" >/tmp/mut/demo_patched.$$ 2>&1; echo $?)
echo "[$name] tests: $tests | demo clean rc=$clean_rc patched rc=$patched_rc"
res=""
for p in "$@"; do
  out=$(cd /verif && VERIF_REPO="$wt" VERIF_NO_EVIDENCE=1 ./check "$p" ${TIER:+--tier $TIER} 2>/dev/null); rc=$?
  echo "[$name] $p rc=$rc: $(echo "$out" | grep -E '^  ' | head -2 | cut -c1-260 | tr '\n' ';')"
  res="$res $p:rc=$rc"
done
git -C /repo worktree remove --force "$wt"
d="/verif/seeded/$name"; mkdir -p "$d"
cp "$src/patch.diff" "$src/demo.py" "$d/"
python3 - "$src/meta.json" "$d/meta.json" "$tests" "$clean_rc" "$patched_rc" "$res" <<'PY'
import json, sys
m = json.load(open(sys.argv[1])) if __import__('os').path.exists(sys.argv[1]) else {}
m["confirmed_by_verif"] = {"tests_with_patch": sys.argv[3], "demo_clean_rc": int(sys.argv[4]), "demo_patched_rc": int(sys.argv[5]),
                           "checks_run": sys.argv[6].split(), "how": "tools/eval_seed.sh: scratch worktree of /repo HEAD, patch applied, pinned suite, demo with/without patch, ./check with VERIF_REPO=<worktree>"}
json.dump(m, open(sys.argv[2], "w"), indent=1)
PY
rm -f /tmp/mut/demo_clean.$$ /tmp/mut/demo_patched.$$
