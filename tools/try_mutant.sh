#!/bin/bash
# usage: tools/try_mutant.sh <patch.diff> <Cxx> [<Cyy> ...]   (development aid; never touches /repo itself)
# Applies the patch to a scratch worktree of /repo, runs the given checks against it, removes the worktree.
set -u
patch="$(realpath "$1")"; shift
name="$(basename "$(dirname "$patch")")_$(basename "$patch" .diff)_$$"
wt="/tmp/mut/$name"
mkdir -p /tmp/mut
git -C /repo worktree add -q --detach "$wt" HEAD || exit 2
( cd "$wt" && git apply "$patch" ) || { echo "PATCH DOES NOT APPLY"; git -C /repo worktree remove --force "$wt"; exit 2; }
if [ -n "${RUN_TESTS:-}" ]; then ( cd "$wt" && /venv/bin/python -m pytest -q -p no:cacheprovider --timeout=900 --continue-on-collection-errors 2>&1 | tail -1 ); fi
for p in "$@"; do
  out=$(cd /verif && VERIF_REPO="$wt" VERIF_NO_EVIDENCE=1 ./check "$p" ${TIER:+--tier $TIER} 2>/dev/null)
  rc=$?
  echo "[$name] $p rc=$rc $(echo "$out" | grep -c '^VIOLATION') violation line(s): $(echo "$out" | grep -E '^  ' | head -3 | cut -c1-200 | tr '\n' ';')"
done
git -C /repo worktree remove --force "$wt"
