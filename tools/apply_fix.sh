#!/bin/bash
# usage: tools/apply_fix.sh proposed_fixes/<name>.diff   -> applies to /repo as one "fix:" commit, runs the pinned suite
set -e
d="$(realpath "$1")"; m="${d%.diff}.msg"
cd /repo
git apply --check "$d"
git apply "$d"
out=$(/venv/bin/python -m pytest -q -p no:cacheprovider --timeout=900 --continue-on-collection-errors 2>&1 | tail -1)
echo "$out"
case "$out" in *"133 passed"*) ;; *) echo "TESTS CHANGED - reverting"; git checkout -- .; exit 1;; esac
git add -A
git commit -q -F "$m"
git log --oneline | head -1
