#!/usr/bin/env python3
"""Regenerate MANIFEST.json from the table below (kept as code so that it always validates)."""
import json

BASE_OFF = "cd /repo && EARTHKIT_WORKFLOWS_VERIF= /venv/bin/python -m pytest -ra -q -p no:cacheprovider --timeout=900 --continue-on-collection-errors"

CHECKS = {
    "C01": ("model_checking", "cascade", "TLC model checking of spec/Cascade.tla + TLC trace validation (spec/CascadeTrace.tla) of recorded executions of the real controller; final values compared with sequential evaluation",
            "Every interleaving of controller/executor actions of the bounded instances is explored by TLC (DeliveredAll, termination); every recorded execution of the real controller+runner+serde is a checked behaviour of the spec and its fetched values equal sequential evaluation.",
            "Bounded instances (<=4 tasks, <=3 hosts); executors simulated at the Bridge seam (literal implementation of the spec's executor actions), exactly-once FIFO-per-sender channels; TLC; the harness fakes."),
    "C02": ("model_checking", "cascade", "TLC invariants on spec/Cascade.tla (DispatchOnce, ToFreeWorker, InputsProduced, PresentOrCommanded, ...) + trace validation of the real controller",
            "Dispatch invariants hold in every reachable state of the bounded model and at every step of every recorded execution of the real scheduler (guards of the Assign action are evaluated against the implementation's State).",
            "As C01."),
    "C03": ("model_checking", "cascade", "TLC liveness (<>done under weak fairness), deadlock check, NoCrash/NoSpin/KeysPresent invariants on spec/Cascade.tla + trace validation (every recorded run must end in done+shutdown, no spin, no exception)",
            "Termination under fair delivery is model-checked without state constraint; every recorded real run terminates with shutdown, never waits with nothing outstanding, never spins, never raises.",
            "As C01; fairness = every pending event is eventually delivered; per-sender FIFO."),
    "C04": ("model_checking", "cascade", "TLC invariants on ground-truth ghost state of spec/Cascade.tla (SourceHolds, NoPurgeUnderCommand, PurgeOnlyWhenDone, NeverNeededAgain) + trace validation of the real controller's transmit/fetch/purge commands",
            "Purge/transfer/fetch safety holds in every reachable state of the bounded model and for the actual Bridge calls of every recorded execution, judged on what hosts really hold and which commands are really unanswered.",
            "As C01."),
}

CHECKS.update({
    "C08": ("model_checking", "shm", "TLC model checking of spec/Shm.tla (accounting invariants) + TLC -simulate behaviours replayed into the real shm Manager/Disk with state comparison after every step; invariants re-evaluated by TLC on every observed real state; the accounting invariant is proved inductive for every capacity and size function on the skeleton spec/ShmAcct.tla (Apalache) which spec/Shm.tla refines (TLC)",
            "free_space accounting and the capacity bound hold in every reachable state of the bounded model (all interleavings of requests with both halves of page-out callbacks, failing jobs, stale readers) and on every state observed while the real Manager follows TLC-generated behaviours.",
            "TLC part bounded: 3 keys (2,2,3; cap 4) and 2 keys deeper; Apalache part unbounded in capacity and sizes, 4 keys; fake segments and clock, real Disk code; CPython GIL atomicity of unlocked int updates; TLC."),
    "C09": ("model_checking", "shm", "TLC model checking of spec/Shm.tla (BytesStable, FreshReaderProtected, LockSane, delayed purge, eviction liveness) + behaviour replay into the real Manager with real bytes; the eviction lottery judged as a function incl. equal time stamps (spec/Lottery.tla); concurrent real clients of one real shm server, each on its own keys (sequential behaviour per key as oracle)",
            "Byte stability, reader protection, delayed purge and eviction progress hold in the bounded model and on the real object for every replayed behaviour; bytes are real (segments and page files compared with what the writer wrote).",
            "As C08."),
})

CHECKS.update({
    "C16": ("exploration", "p3", "TLA+ post-condition (spec/Preschedule.tla) evaluated by TLC on every (job DAG, precompute(DAG)) pair; the DAG domain is enumerated by TLC from the same specification",
            "Exhaustive over the bounded domain: every job DAG with <= 4 (thorough: 5) tasks incl. multi-edges and two-output tasks is run through the real precompute and judged clause by clause by TLC.",
            "Bounded domain; TLC as generator and oracle; the python fallback of nearest_common_descendant (coptrs is not installed)."),
})

CHECKS.update({
    "C06": ("model_checking", "acked", "TLC model checking of spec/Acked.tla (safety + liveness under fair loops, both directions, drop/dup/reorder) + TLC -simulate behaviours replayed into the real ReliableSender/Listener driven by the real Bridge.recv_events and Executor.recv_loop; frame-shape catalogue judged by TLC",
            "Exactly-once delivery, ack-implies-delivered, bounded retries then raise, and eventual delivery-or-raise hold for every fault pattern within the bounds; the real endpoints follow TLC-generated behaviours step by step (idx, inflight budgets and staleness, frames on the wire, acked sets, delivered messages, raise); every multipart shape <= 4 parts is classified by the real Listener as the spec's RecvOne says.",
            "Bounds: <=2 messages per direction, retry budget 2-3 (code constant patched in the harness), <=3 faults; one executor; in-memory network and virtual clock (harness fakes); heartbeats off."),
})

CHECKS.update({
    "C18": ("model_checking", "gateway", "TLC model checking of spec/Gateway.tla + TLC -simulate behaviours replayed into the real JobRouter through the real handle_controller/handle_fe with real serialised reports and JSON requests; the newest-report rule is proved inductive for every time stamp and value on the skeleton spec/GatewayNewest.tla (Apalache, negative control included), which spec/Gateway.tla refines (TLC)",
            "ProgressIsNewest, ResultsExact and faithful/erroring answers hold for every order and duplication of reports and requests within the bounds, and the real gateway follows TLC-generated behaviours step by step (progress, results, socket registration, every response, no exception escaping a handler, fresh job ids).",
            "Bounds: 2 jobs, 2 datasets, 2 payloads, <=4 timestamps; equal timestamps imply equal progress; sockets/poller/subprocess are harness fakes."),
})

P3 = "TLC as generator and oracle over the bounded domain stated in the evidence `rule`; harness transport code; "
CHECKS.update({
    "C10": ("exploration", "p3", "TLA+ post-condition (spec/Lowering.tla) evaluated by TLC on job structure, observed calls and DatasetId->value map of every enumerated graph lowered by the real graph2job and run through the real runner",
            "Exhaustive over the bounded domain (all DAGs <= 3 nodes x argument layouts; generators with N in {2,3,10,11,12} outputs yielding N-1, N, N+1 values; 1440 cases quick / 23512 thorough): one task per node, one edge per input, observed arguments = declared statics + upstream values, i-th yielded value under the i-th declared output, count mismatch reported as TaskFailure.",
            P3 + "inputs referenced once per args; dict-backed shm stand-in."),
    "C11": ("exploration", "p3", "TLA+ denotational semantics and per-transformation post-conditions (spec/GraphSem.tla) evaluated by TLC on every (graph, transformation, parameters, result of the real transformer)",
            "Exhaustive over the bounded domain (DAGs <= 4 nodes, multi-output nodes, colliding names, all split key maps, expand sub-graphs/maps, 4 fusion callbacks; 6127 cases quick / 41430 thorough): sink-wise equality of the denoted terms, dedup idempotent and duplicate-free, split partition + re-join, expand wiring.",
            P3 + "payloads opaque; fusion callbacks are the harness' own."),
    "C12": ("exploration", "p3", "TLA+ post-condition (spec/GraphSerde.tla) evaluated by TLC on every (graph, dict / JSON / Cascade-file round trip of the real serialisers)",
            "Exhaustive over the bounded domain (DAGs <= 3 nodes x 5 output-list shapes x 14 payload literals + small fluent programs; 5561 cases quick): nodes, outputs, inputs, payloads identical after each round trip and Graph.__eq__ agrees.",
            P3 + "JSON judged only for JSON-faithful payloads."),
    "C14": ("exploration", "p3", "TLA+ predicates NameInjective / Deterministic / OperandsIntact (spec/FluentNames.tla) evaluated by TLC on names, payload identities and before/after snapshots logged while the real fluent API runs every enumerated program pair",
            "Exhaustive over the bounded domain (820 program pairs over shared sources with lambdas / equal-__name__ defs / partials, 615 operand programs with differing coordinates; every case built twice).",
            P3 + "'same callable' = identity of the function object; static arguments compared by repr."),
    "C17": ("exploration", "p3", "TLA+ post-condition (spec/Wire.tla) evaluated by TLC on every (message, what the real encoders, framing and decoders return); message domain enumerated by TLC",
            "Exhaustive over the bounded domain (38 message classes, sizes at 0..2^63-1 boundary values as decimal strings, keys empty..255 chars, out-of-domain values; 1188 cases): structural round-trip equality through each real code path, Syn acknowledged, frame counts, out-of-domain values refused or exact.",
            P3 + "this is encode/decode fidelity: the specification contributes domain and oracle, there is no interleaving content; zmq/poller/subprocess are frame-recording stand-ins."),
    "C19": ("exploration", "p3", "TLA+ post-condition (spec/Builder.tla) evaluated by TLC on every (signature, binding, edge set, what TaskBuilder/JobBuilder return)",
            "Exhaustive over the bounded domain (signatures <= 2-3 parameters x kinds x annotations x defaults, positional prefixes x keyword subsets, 32 edge shapes incl. dangling endpoints; 10544 cases quick): build() never raises, returns a well-formed job or a non-empty problem list, bound values under exactly the given positions/names, earlier builders/jobs unchanged.",
            P3 + "synthesised callables; int vs str incompatible."),
})

CHECKS.update({
    "C13": ("exploration", "p3", "TLA+ contracts per fluent operation (spec/Fluent.tla over spec/Arrays.tla arithmetic) evaluated by TLC on the denotations logged by a reference interpreter over Action.graph() for every enumerated program",
            "Exhaustive over the bounded program domain (2516 programs / 3688 steps quick; depths 1-3, every dim, batch sizes 0..n+1, keep_dim both ways, sources with and without coordinates): dims, coords and values of every step satisfy the operation's contract.",
            P3 + "numpy float64 payloads of small integers read back as exact rationals; std compared squared; undocumented behaviour follows readings R1-R8 stated at the top of Fluent.tla; no claim about dtypes, float rounding, xarray/FieldList payloads (DESIGN section 8)."),
    "C15": ("exploration", "p3", "TLA+ array algebra (spec/Arrays.tla: exact integers/rationals) evaluated by TLC against the values of the real backends on numpy and xarray inputs; BatchableInModel decided in the model for every partition into consecutive batches",
            "Exhaustive over the bounded domain (4715 cases x 2 backends quick): value and shape equality for every operation/axis/index, every function marked batchable is batchable in the model, documented batchables are marked.",
            P3 + "values are exact small integers/rationals held in float64; no claim about dtypes, rounding, overflow, NaN (DESIGN section 8)."),
})

CHECKS.update({
    "C07": ("model_checking", "transfer", "TLC model checking of spec/Transfer.tla (safety + eventual completion under fairness) + TLC -simulate behaviours replayed into two real DataServer objects and a real controller Listener with real payload bytes; commands built by the real Bridge; concurrent real shm clients (the pool threads of the data server share one process)",
            "One byte-identical copy, at most one announcement per host and dataset, exact fetches, no resurrection after purge and no data-server failure hold for every loss/duplication/retry pattern of payload and confirmation frames within the bounds; the real data servers follow TLC-generated behaviours step by step (stores incl. bytes and deser_fun, awaiting_confirmation, futures, acks, invalid, Listener.acked, frames in flight, announcements, fetched payloads, failures); the purge handler really blocks in wait() until the behaviour completes the running futures.",
            "Bounds: 2 hosts + controller, 1-2 datasets, command sequences of 3-4 commands issued as the controller may issue them (C04), <=3 faults, <=2 identical frames in flight; commands/purges delivered exactly once (C06); thread-pool capacity not modelled; harness fakes for network, shm dict, futures, clock."),
})

CHECKS.update({
    "C05": ("model_checking", "failure", "TLC liveness checking of spec/Failure.tla (detection / report / teardown state machine) + TLC-enumerated fault scenarios run on real clusters (real executor, shm server, data server and worker processes, real Bridge and controller) and judged by the spec's post-condition; shutdown handshake of spec/Session.tla replayed into the real Bridge",
            "Every fault of the model (task raises; worker, data server or shm server dies with zero or non-zero status before, between or after the outputs) leads to the run ending and the executor and its children being gone; on real process trees every enumerated scenario ends within the deadline, with an error when an output is lost, never with a wrong value, leaving no process of the run and no shm segment.",
            "'Bounded time' is a 20-30 s deadline (healthy runs take 1-3 s); faults injected from the task body; clusters 1x1, 1x2, 2x1; real time and real processes, so a result can in principle depend on machine load (a hang that is not the controller waiting in recv_events is re-run once)."),
})

NOT_YET = {
}

def main():
    checks = []
    for pid, (cat, engine, tech, text, note) in sorted(CHECKS.items()):
        checks.append({
            "property_id": pid,
            "quick_cmd": f"./check {pid} --tier quick",
            "thorough_cmd": f"./check {pid} --tier thorough",
            "evidence_file": f"/verif/evidence/{pid}.json",
            "replay_cmd_template": f"./check {pid} --replay {{path}}",
            "engine": engine,
            "level_claimed": {"category": cat, "text": text, "design_ref": f"DESIGN.md section 4 ({pid})"},
            "level_note": note,
            "technique": tech,
        })
    all_ids = [f"C{i:02d}" for i in range(1, 20)]
    na = [{"property_id": p, "reason": NOT_YET.get(p, "check under construction in this round; not claimed until its TLA+ specification and conformance harness are committed")}
          for p in all_ids if p not in CHECKS]
    m = {
        "version": 1,
        "setup_cmd": "./setup.sh",
        "hooks": {"guard": "EARTHKIT_WORKFLOWS_VERIF", "enable": "export EARTHKIT_WORKFLOWS_VERIF=1 (set by ./check); no hook commits so far: all seams are module attributes patched in the harness process",
                  "baseline_off_cmd": BASE_OFF, "source_commits": [], "add_only": True},
        "engines": [
            {"name": "cascade", "path": "harness/cascade_engine.py", "serves_properties": ["C01", "C02", "C03", "C04"],
             "kind_free_text": "TLC model checking of spec/Cascade.tla per instance + recorded executions of the real controller validated by TLC against spec/CascadeTrace.tla"},
            {"name": "p3", "path": "harness/p3.py", "serves_properties": ["C10", "C11", "C12", "C13", "C14", "C15", "C16", "C17", "C19"],
             "kind_free_text": "enumerate / execute / validate: TLC generates the cases from the spec's domain, the harness runs the real function, TLC evaluates the spec's post-condition"},
            {"name": "acked", "path": "harness/props/c06.py", "serves_properties": ["C06"],
             "kind_free_text": "TLC on spec/Acked.tla + behaviour replay into the real comms layer and endpoint loops"},
            {"name": "gateway", "path": "harness/props/c18.py", "serves_properties": ["C18"],
             "kind_free_text": "TLC on spec/Gateway.tla + behaviour replay into the real router and handlers"},
            {"name": "transfer", "path": "harness/props/c07.py", "serves_properties": ["C07"],
             "kind_free_text": "TLC on spec/Transfer.tla + behaviour replay into real DataServer objects"},
            {"name": "failure", "path": "harness/props/c05.py", "serves_properties": ["C05"],
             "kind_free_text": "TLC on spec/Failure.tla + real multi-process cluster scenarios judged by the spec"},
            {"name": "shm", "path": "harness/shm_engine.py", "serves_properties": ["C08", "C09"],
             "kind_free_text": "TLC model checking of spec/Shm.tla + TLC-generated behaviours replayed into the real Manager"},
        ],
        "checks": checks,
        "not_applicable": na,
        "notes": "Model-based verification with explicit TLA+ specifications (spec/*.tla) bound to the code by trace validation / behaviour replay; see DESIGN.md. known_findings.json lists genuine defects (open and fixed).",
    }
    json.dump(m, open("MANIFEST.json", "w"), indent=1)
    print("wrote MANIFEST.json with", len(checks), "checks;", len(na), "not yet claimed")

main()
